// E3 - cooperative scheduler for exhaustive schedule exploration.
//
// Exactly one of the registered threads runs at any time.  A running thread reaches
// scheduling points (the CELERITAS_VERIF yield hooks and the interposed pthread mutex
// operations); there the explorer (engine/explorer.hh `Choices`) decides which enabled thread
// continues.  Choice 0 = "keep running the current thread" (or the lowest enabled id when the
// current one cannot continue), so the number of non-zero choices bounds the number of
// preemptions / deviations.  A thread that asks for a mutex held by another registered thread
// becomes disabled until the owner unlocks; "no enabled thread" while some are unfinished is a
// deadlock; more than `horizon` points in one execution is reported as a livelock.
//
// Include this header in exactly one translation unit of the harness executable: it DEFINES
// pthread_mutex_lock/trylock/unlock (symbol interposition: libstdc++'s std::mutex in the
// celeritas shared libraries reaches them through the PLT).
#pragma once

#include <atomic>
#include <cstdint>
#include <cstdio>
#include <cstdlib>
#include <cstring>
#include <dlfcn.h>
#include <map>
#include <pthread.h>
#include <semaphore.h>
#include <string>
#include <vector>

#include "engine/explorer.hh"

namespace vf
{
namespace sched
{
//---------------------------------------------------------------------------//
struct Thread
{
    sem_t sem;
    bool enabled{false};
    bool finished{true};
    void* blocked_on{nullptr};
    uint64_t points{0};
};

struct State
{
    bool active{false};
    int nthreads{0};
    int current{-1};
    Thread th[8];
    Choices* choices{nullptr};
    std::map<void*, int> owner;  // mutex -> owning thread
    uint64_t total_points{0};
    uint64_t horizon{200000};
    bool deadlock{false};
    bool livelock{false};
    uint64_t switches{0};
    // which hook tags are scheduling points, and how many of each per thread are honoured
    std::map<std::string, uint64_t> tag_budget;
    std::map<std::string, uint64_t> tag_seen[8];
    std::vector<std::string> trace;  // (optional) sequence of "tid:tag" at decision points
    bool keep_trace{false};
    sem_t main_sem;
};

inline State g;
inline thread_local int my_id = -1;

using lock_fn = int (*)(pthread_mutex_t*);
inline lock_fn real_lock()
{
    static lock_fn f = (lock_fn)dlsym(RTLD_NEXT, "pthread_mutex_lock");
    return f;
}
inline lock_fn real_trylock()
{
    static lock_fn f = (lock_fn)dlsym(RTLD_NEXT, "pthread_mutex_trylock");
    return f;
}
inline lock_fn real_unlock()
{
    static lock_fn f = (lock_fn)dlsym(RTLD_NEXT, "pthread_mutex_unlock");
    return f;
}

inline std::vector<int> enabled_list()
{
    std::vector<int> en;
    if (g.current >= 0 && g.th[g.current].enabled && !g.th[g.current].finished)
        en.push_back(g.current);
    for (int t = 0; t < g.nthreads; ++t)
        if (t != g.current && g.th[t].enabled && !g.th[t].finished)
            en.push_back(t);
    return en;
}

//! Hand the processor to thread `next` and wait until this thread is scheduled again
inline void switch_to(int next, bool wait_self)
{
    int me = my_id;
    g.current = next;
    ++g.switches;
    sem_post(&g.th[next].sem);
    if (wait_self && me >= 0)
        sem_wait(&g.th[me].sem);
}

//! Decide who runs next at a decision point reached by the running thread `me`
inline void decide(char const* tag)
{
    int me = my_id;
    auto en = enabled_list();
    if (en.empty())
    {
        // nobody can run: deadlock (or everything finished)
        bool unfinished = false;
        for (int t = 0; t < g.nthreads; ++t)
            unfinished |= !g.th[t].finished;
        if (unfinished)
            g.deadlock = true;
        sem_post(&g.main_sem);
        if (me >= 0 && !g.th[me].finished)
            sem_wait(&g.th[me].sem);  // parked forever (the harness detects the deadlock)
        return;
    }
    int k = en.size() > 1 ? g.choices->choose(int(en.size())) : 0;
    if (g.keep_trace)
        g.trace.push_back(std::to_string(me) + ":" + tag + "->" + std::to_string(en[k]));
    if (en[k] != me)
    {
        bool wait_self = !(me >= 0 && g.th[me].finished);
        switch_to(en[k], wait_self);
    }
}

//! Scheduling point reached through a hook
inline void point(char const* tag)
{
    if (!g.active || my_id < 0)
        return;
    int me = my_id;
    if (++g.total_points > g.horizon)
    {
        g.livelock = true;
        return;
    }
    auto it = g.tag_budget.find(tag);
    if (it == g.tag_budget.end())
        return;
    if (++g.tag_seen[me][tag] > it->second)
        return;
    ++g.th[me].points;
    decide(tag);
}

inline void thread_begin(int id)
{
    my_id = id;
    sem_wait(&g.th[id].sem);  // wait to be scheduled for the first time
}

inline void thread_end()
{
    int me = my_id;
    g.th[me].finished = true;
    g.th[me].enabled = false;
    decide("exit");
    my_id = -1;
}

//! Prepare a run with n threads; threads call thread_begin(id) first and thread_end() last
inline void begin(int n, Choices* c)
{
    g.active = false;
    g.nthreads = n;
    g.current = -1;
    g.choices = c;
    g.owner.clear();
    g.total_points = 0;
    g.deadlock = g.livelock = false;
    g.switches = 0;
    g.trace.clear();
    sem_init(&g.main_sem, 0, 0);
    for (int t = 0; t < n; ++t)
    {
        sem_init(&g.th[t].sem, 0, 0);
        g.th[t].enabled = true;
        g.th[t].finished = false;
        g.th[t].blocked_on = nullptr;
        g.th[t].points = 0;
        g.tag_seen[t].clear();
    }
}

//! Called by the (unscheduled) main thread after creating the threads: pick the first one
//! and wait until all have finished (or a deadlock was detected)
inline void run_all()
{
    g.active = true;
    auto en = enabled_list();
    int k = en.size() > 1 ? g.choices->choose(int(en.size())) : 0;
    g.current = en[k];
    sem_post(&g.th[en[k]].sem);
    sem_wait(&g.main_sem);
    g.active = false;
}

//---------------------------------------------------------------------------//
}  // namespace sched
}  // namespace vf

//---------------------------------------------------------------------------//
// pthread mutex interposition
extern "C" int pthread_mutex_lock(pthread_mutex_t* m)
{
    using namespace vf::sched;
    if (!g.active || my_id < 0)
        return real_lock()(m);
    int me = my_id;
    point("mutex-lock");
    while (true)
    {
        auto it = g.owner.find(m);
        if (it == g.owner.end() || it->second == me)
            break;
        // held by another registered thread: block until it unlocks
        g.th[me].enabled = false;
        g.th[me].blocked_on = m;
        decide("mutex-blocked");
        // rescheduled: owner released (we were re-enabled by unlock)
    }
    g.owner[m] = me;
    return real_lock()(m);
}

extern "C" int pthread_mutex_trylock(pthread_mutex_t* m)
{
    using namespace vf::sched;
    if (!g.active || my_id < 0)
        return real_trylock()(m);
    int me = my_id;
    point("mutex-lock");
    auto it = g.owner.find(m);
    if (it != g.owner.end() && it->second != me)
        return 16;  // EBUSY
    int rc = real_trylock()(m);
    if (rc == 0)
        g.owner[m] = me;
    return rc;
}

extern "C" int pthread_mutex_unlock(pthread_mutex_t* m)
{
    using namespace vf::sched;
    if (!g.active || my_id < 0)
        return real_unlock()(m);
    int rc = real_unlock()(m);
    auto it = g.owner.find(m);
    if (it != g.owner.end() && it->second == my_id)
    {
        g.owner.erase(it);
        for (int t = 0; t < g.nthreads; ++t)
            if (g.th[t].blocked_on == m)
            {
                g.th[t].blocked_on = nullptr;
                g.th[t].enabled = true;
            }
    }
    point("mutex-unlock");
    return rc;
}
