// E5 - scripted RNG: a 32-bit engine whose first k *canonical* draws are forced by the
// explorer and whose continuation is a fixed, declared pseudo-random tail.
//
// Canonical doubles are produced exactly as for the production XORWOW engine
// (GenerateCanonical specialisation -> detail::GenerateCanonical32: upper word, then lower
// word), so a "canonical draw" consumes two 32-bit words.  The script forces the *upper*
// word of the i-th canonical; the lower word of a scripted canonical is `lower_fill`.
// GenerateCanonical32<double> computes ((upper << 21) ^ lower) / 2^53, so the default
// lower_fill = 0x00100000 (bit 20) gives exactly (upper + 1/2) / 2^32: the middle of the
// 2^-32 cell.  An exactly zero canonical can never be produced unless lower_fill is set to
// 0 on purpose.
//
// Raw 32-bit draws (engine() called directly, e.g. by code that wants integers) consume
// script entries too: the script is a list of 32-bit words for "odd-numbered" (upper)
// positions of the word stream; see next_word().
#pragma once

#include <cstdint>
#include <vector>

#include "celeritas/random/distribution/GenerateCanonical.hh"
#include "celeritas/random/detail/GenerateCanonical32.hh"

namespace vf
{
//---------------------------------------------------------------------------//
//! Upper-word alphabet for scripted canonicals: tiny, 1/4, 1/2, 3/4, almost 1
inline std::vector<uint32_t> const& alphabet_u5()
{
    static std::vector<uint32_t> const a
        = {0x00000001u, 0x40000000u, 0x80000000u, 0xc0000000u, 0xfffffffeu};
    return a;
}
//! Extended alphabet (thorough tiers): adds the extreme words that occur every 2^32 draws
inline std::vector<uint32_t> const& alphabet_u7()
{
    static std::vector<uint32_t> const a = {0x00000000u, 0x00000001u, 0x40000000u, 0x80000000u,
                                            0xc0000000u, 0xfffffffeu, 0xffffffffu};
    return a;
}

class ScriptedEngine
{
  public:
    using result_type = unsigned int;
    static constexpr result_type min() { return 0u; }
    static constexpr result_type max() { return 0xffffffffu; }

    ScriptedEngine() = default;
    //! script: forced upper words of the first canonicals; tail_seed selects the tail stream
    explicit ScriptedEngine(std::vector<uint32_t> script,
                            uint64_t tail_seed = 0,
                            uint32_t lower_fill = 0x00100000u)
        : script_(std::move(script)), lower_fill_(lower_fill), s_(tail_seed * 0x9e3779b97f4a7c15ull + 0x1234567)
    {
    }

    result_type operator()()
    {
        uint64_t const pos = words_++;
        uint64_t const canon = pos / 2;
        if (canon < script_.size())
        {
            return (pos & 1) ? lower_fill_ : script_[canon];
        }
        return tail();
    }

    //! Number of 32-bit words drawn so far
    uint64_t words() const { return words_; }
    //! Number of canonical doubles drawn so far (if only canonicals were drawn)
    uint64_t canonicals() const { return (words_ + 1) / 2; }
    //! Whether the script was completely consumed
    bool script_consumed() const { return words_ >= 2 * script_.size(); }

  private:
    uint32_t tail()
    {
        // splitmix64, upper 32 bits
        uint64_t z = (s_ += 0x9e3779b97f4a7c15ull);
        z = (z ^ (z >> 30)) * 0xbf58476d1ce4e5b9ull;
        z = (z ^ (z >> 27)) * 0x94d049bb133111ebull;
        return uint32_t((z ^ (z >> 31)) >> 32);
    }
    std::vector<uint32_t> script_;
    uint32_t lower_fill_{0x00100000u};
    uint64_t s_{0x1234567};
    uint64_t words_{0};
};

//---------------------------------------------------------------------------//
}  // namespace vf

namespace celeritas
{
//! Same word-to-real conversion as the production engine
template<class RealType>
class GenerateCanonical<::vf::ScriptedEngine, RealType>
{
  public:
    using real_type = RealType;
    using result_type = RealType;
    result_type operator()(::vf::ScriptedEngine& rng)
    {
        return detail::GenerateCanonical32<RealType>()(rng);
    }
};
}  // namespace celeritas
