// E1 - stateless, deviation-bounded choice-tree explorer.
//
// A body is a callable `void body(Choices& c)` that re-executes the system under test from
// scratch and asks `c.choose(n)` at every point of nondeterminism it owns (0 = the default
// answer).  explore() enumerates EVERY choice sequence with at most `bound` deviations from
// the default: the prefix is replayed (an out-of-range choice while replaying a prefix is a
// hard error: the body is not deterministic), the default is taken afterwards, and for every
// later choice point each alternative whose cumulated cost stays within the bound is explored
// recursively.  Executions always run to completion.  `on_execution` is called after each one
// with the complete choice list; it returns false to stop the exploration (deadline).
#pragma once

#include <cstdint>
#include <functional>
#include <stdexcept>
#include <string>
#include <vector>

namespace vf
{
//---------------------------------------------------------------------------//
struct ChoicePoint
{
    int n;  // number of alternatives offered
    int chosen;
};

class Choices
{
  public:
    explicit Choices(std::vector<int> prefix) : prefix_(std::move(prefix)) {}

    //! Ask for one of n alternatives; 0 is the default
    int choose(int n)
    {
        int c = 0;
        size_t i = points_.size();
        if (i < prefix_.size())
        {
            c = prefix_[i];
            if (c >= n)
            {
                diverged_ = true;
                c = 0;
            }
        }
        points_.push_back({n, c});
        return c;
    }
    std::vector<ChoicePoint> const& points() const { return points_; }
    std::vector<int> const& prefix() const { return prefix_; }
    bool diverged() const { return diverged_ || points_.size() < prefix_.size(); }
    std::vector<int> chosen() const
    {
        std::vector<int> r;
        for (auto const& p : points_)
            r.push_back(p.chosen);
        // trim trailing defaults: canonical form
        while (!r.empty() && r.back() == 0)
            r.pop_back();
        return r;
    }
    int deviations() const
    {
        int d = 0;
        for (auto const& p : points_)
            d += p.chosen != 0;
        return d;
    }

  private:
    std::vector<int> prefix_;
    std::vector<ChoicePoint> points_;
    bool diverged_{false};
};

struct ExploreStats
{
    uint64_t executions{0};
    uint64_t choice_points{0};
    uint64_t max_points{0};
    bool stopped{false};
};

inline std::string choices_to_string(std::vector<int> const& c)
{
    std::string s;
    for (size_t i = 0; i < c.size(); ++i)
        s += (i ? "." : "") + std::to_string(c[i]);
    return s;
}
inline std::vector<int> choices_from_string(std::string const& s)
{
    std::vector<int> r;
    size_t i = 0;
    while (i < s.size())
    {
        size_t j = s.find('.', i);
        if (j == std::string::npos)
            j = s.size();
        if (j > i)
            r.push_back(std::stoi(s.substr(i, j - i)));
        i = j + 1;
    }
    return r;
}

//! body(Choices&); on_execution(Choices const&) -> bool continue
template<class Body, class OnExec>
void explore(Body&& body, OnExec&& on_execution, int bound, ExploreStats* stats,
             std::vector<int> prefix = {})
{
    if (stats->stopped)
        return;
    Choices c(prefix);
    body(c);
    if (c.diverged())
        throw std::runtime_error("explorer: body diverged while replaying prefix "
                                 + choices_to_string(prefix));
    ++stats->executions;
    stats->choice_points += c.points().size();
    if (c.points().size() > stats->max_points)
        stats->max_points = c.points().size();
    if (!on_execution(c))
    {
        stats->stopped = true;
        return;
    }
    auto const pts = c.points();  // copy: recursion re-runs the body
    int used = 0;
    for (size_t i = 0; i < prefix.size() && i < pts.size(); ++i)
        used += pts[i].chosen != 0;
    if (used >= bound)
        return;
    for (size_t i = prefix.size(); i < pts.size(); ++i)
    {
        for (int alt = 1; alt < pts[i].n; ++alt)
        {
            std::vector<int> p2;
            p2.reserve(i + 1);
            for (size_t k = 0; k < i; ++k)
                p2.push_back(pts[k].chosen);
            p2.push_back(alt);
            explore(body, on_execution, bound, stats, std::move(p2));
            if (stats->stopped)
                return;
        }
    }
}

//---------------------------------------------------------------------------//
}  // namespace vf
