// Common harness plumbing: command line, sharding, deadline, counters, samples, violations,
// JSON result file.  Header-only, std only.  Every harness executable is
//
//   int main(int argc, char** argv) { vf::Run R(argc, argv, "C13", "c13_rng"); ...; return R.finish(); }
//
// and is started by /verif/check, which merges the per-shard result files into the evidence
// file, consults known_findings.json and prints the VIOLATION lines.
#pragma once

#include <chrono>
#include <cstdarg>
#include <set>
#include <unistd.h>
#include <fcntl.h>
#include <signal.h>
#include <sys/time.h>
#include <cinttypes>
#include <cstdint>
#include <cstdio>
#include <cstdlib>
#include <cstring>
#include <map>
#include <sstream>
#include <string>
#include <unordered_set>
#include <vector>

namespace vf
{
//---------------------------------------------------------------------------//
inline uint64_t fnv1a(void const* data, size_t n, uint64_t h = 1469598103934665603ull)
{
    auto const* p = static_cast<unsigned char const*>(data);
    for (size_t i = 0; i < n; ++i)
    {
        h ^= p[i];
        h *= 1099511628211ull;
    }
    return h;
}
inline uint64_t hash_str(std::string const& s, uint64_t h = 1469598103934665603ull)
{
    return fnv1a(s.data(), s.size(), h);
}
template<class T>
inline uint64_t hash_pod(T const& v, uint64_t h = 1469598103934665603ull)
{
    return fnv1a(&v, sizeof(T), h);
}
inline uint64_t hash_mix(uint64_t a, uint64_t b)
{
    a ^= b + 0x9e3779b97f4a7c15ull + (a << 6) + (a >> 2);
    return a;
}

inline std::string json_escape(std::string const& s)
{
    std::string o;
    o.reserve(s.size() + 2);
    for (unsigned char c : s)
    {
        switch (c)
        {
            case '"': o += "\\\""; break;
            case '\\': o += "\\\\"; break;
            case '\n': o += "\\n"; break;
            case '\t': o += "\\t"; break;
            case '\r': o += "\\r"; break;
            default:
                if (c < 0x20)
                {
                    char b[8];
                    snprintf(b, sizeof b, "\\u%04x", c);
                    o += b;
                }
                else
                    o += char(c);
        }
    }
    return o;
}

// printf into std::string
inline std::string fmt(char const* f, ...) __attribute__((format(printf, 1, 2)));
inline std::string fmt(char const* f, ...)
{
    char buf[2048];
    va_list ap;
    va_start(ap, f);
    int n = vsnprintf(buf, sizeof buf, f, ap);
    va_end(ap);
    if (n < 0)
        return {};
    if (size_t(n) < sizeof buf)
        return std::string(buf, n);
    std::string s(n + 1, '\0');
    va_start(ap, f);
    vsnprintf(s.data(), s.size(), f, ap);
    va_end(ap);
    s.resize(n);
    return s;
}
// exact, round-trippable text for a double
inline std::string dstr(double v)
{
    char b[40];
    snprintf(b, sizeof b, "%.17g", v);
    return b;
}
inline std::string hexd(double v)
{
    char b[40];
    snprintf(b, sizeof b, "%a", v);
    return b;
}

//---------------------------------------------------------------------------//
// Crash / hang attribution: the id of the case being executed is kept in a static buffer so
// that a fatal signal or the per-case watchdog can name it (async-signal-safe writes only).
namespace detail
{
inline char g_case[4096] = "";
inline char g_crash_path[1024] = "";
inline volatile int g_asan_errors = 0;
inline void write_crash(char const* kind, int sig)
{
    char buf[4400];
    int n = snprintf(buf, sizeof buf, "%s sig=%d case=%s\n", kind, sig, g_case);
    if (g_crash_path[0])
    {
        int fd = ::open(g_crash_path, O_WRONLY | O_CREAT | O_TRUNC, 0644);
        if (fd >= 0)
        {
            (void)!::write(fd, buf, n);
            ::close(fd);
        }
    }
    (void)!::write(2, buf, n);
}
inline void on_fatal(int sig)
{
    write_crash("CRASH", sig);
    _exit(5);
}
inline void on_alarm(int sig)
{
    write_crash("HANG", sig);
    _exit(4);
}
}  // namespace detail

//---------------------------------------------------------------------------//
struct Violation
{
    std::string signature;  // stable identity of *what* fails (for known_findings)
    std::string case_id;  // replayable case id (passed back through --case)
    std::string message;
};

class Run
{
  public:
    Run(int argc, char** argv, char const* property, char const* harness)
        : property_(property), harness_(harness)
    {
        t0_ = std::chrono::steady_clock::now();
        for (int i = 1; i < argc; ++i)
        {
            std::string a = argv[i];
            auto next = [&]() -> std::string {
                if (i + 1 >= argc)
                {
                    fprintf(stderr, "missing value for %s\n", a.c_str());
                    exit(2);
                }
                return argv[++i];
            };
            if (a == "--tier")
                tier_ = next();
            else if (a == "--seed")
                seed_ = strtoull(next().c_str(), nullptr, 10);
            else if (a == "--shard")
            {
                std::string s = next();
                sscanf(s.c_str(), "%d/%d", &shard_, &nshards_);
            }
            else if (a == "--deadline")
                deadline_s_ = atof(next().c_str());
            else if (a == "--out")
                out_ = next();
            else if (a == "--case")
            {
                only_case_ = next();
                replay_ = true;
            }
            else if (a == "--part")
                part_ = next();
            else if (a == "--limit-scale")
                limit_scale_ = atof(next().c_str());
            else if (a == "--verbose")
                verbose_ = true;
            else
            {
                fprintf(stderr, "unknown argument %s\n", a.c_str());
                exit(2);
            }
        }
        if (nshards_ < 1 || shard_ < 0 || shard_ >= nshards_)
        {
            fprintf(stderr, "bad shard\n");
            exit(2);
        }
        if (!out_.empty())
        {
            snprintf(detail::g_crash_path, sizeof detail::g_crash_path, "%s.crash", out_.c_str());
            ::unlink(detail::g_crash_path);
        }
        for (int sig : {SIGSEGV, SIGBUS, SIGFPE, SIGILL, SIGABRT})
        {
            signal(sig, detail::on_fatal);
        }
        signal(SIGALRM, detail::on_alarm);
    }

    //! Announce the case being executed (for crash/hang attribution) and arm a watchdog:
    //! a case that takes longer than limit_s (scaled by --limit-scale) ends the process with
    //! exit code 4 and a HANG record naming the case.  limit_s <= 0: no watchdog.
    void begin_case(std::string const& id, double limit_s = 0)
    {
        size_t n = id.size() < sizeof(detail::g_case) - 1 ? id.size() : sizeof(detail::g_case) - 1;
        memcpy(detail::g_case, id.data(), n);
        detail::g_case[n] = 0;
        if (limit_s > 0)
        {
            arm(limit_s * limit_scale_);
            armed_ = true;
        }
    }
    void end_case()
    {
        if (armed_)
        {
            arm(0);
            armed_ = false;
        }
    }

    //// configuration ////
    bool thorough() const { return tier_ == "thorough"; }
    std::string const& tier() const { return tier_; }
    std::string const& part() const { return part_; }
    uint64_t seed() const { return seed_; }
    int shard() const { return shard_; }
    int nshards() const { return nshards_; }
    bool replay() const { return replay_; }
    bool verbose() const { return verbose_ || replay_; }
    std::string const& replay_case() const { return only_case_; }

    //! Deterministic sharding of an outer enumeration index
    bool mine(uint64_t index) const
    {
        return replay_ || int(index % uint64_t(nshards_)) == shard_;
    }

    //! In replay mode only the named case runs; otherwise every case does
    bool want(std::string const& case_id) const
    {
        return !replay_ || case_id == only_case_;
    }

    double elapsed() const
    {
        return std::chrono::duration<double>(std::chrono::steady_clock::now() - t0_).count();
    }

    //! Deadline test (cheap enough to call every few hundred cases)
    bool expired()
    {
        if (deadline_hit_)
            return true;
        if (deadline_s_ > 0 && elapsed() > deadline_s_)
        {
            deadline_hit_ = true;
        }
        return deadline_hit_;
    }
    bool deadline_hit() const { return deadline_hit_; }
    //! Mark the run as not exhaustive for another reason (a cap was hit)
    void cap_hit(std::string const& what)
    {
        caps_.insert(what);
    }

    //// measurement ////
    void count(char const* name, uint64_t n = 1) { counters_[name] += n; }
    void count(std::string const& name, uint64_t n = 1) { counters_[name] += n; }
    uint64_t counter(char const* name) const
    {
        auto it = counters_.find(name);
        return it == counters_.end() ? 0 : it->second;
    }
    void maxi(char const* name, uint64_t v)
    {
        auto& m = maxima_[name];
        if (v > m)
            m = v;
    }
    //! Named branch / regime reached by a case (coverage histogram)
    void tag(std::string const& t, uint64_t n = 1) { tags_[t] += n; }
    //! A case counted as non-trivial by the harness's rule; de-duplicated by hash
    void nontrivial(uint64_t h) { nontrivial_.insert(h); }
    //! Observable outcome of an execution; de-duplicated by hash
    void outcome(uint64_t h) { outcomes_.insert(h); }
    //! Distinct states (explicit-state search); de-duplicated by hash
    bool state(uint64_t h) { return states_.insert(h).second; }
    size_t num_states() const { return states_.size(); }

    //! Keep up to 5 samples per shard (the text is stored as a JSON string)
    void sample(std::string const& text)
    {
        ++samples_seen_;
        if (samples_.size() < 5)
            samples_.push_back(text);
        else if (samples_seen_ % 9973 == 0)
            samples_[samples_seen_ / 9973 % 5] = text;
    }
    void note(std::string const& key, std::string const& text) { notes_[key] = text; }

    void violation(std::string const& signature,
                   std::string const& case_id,
                   std::string const& message)
    {
        ++num_violations_;
        ++tags_["violation:" + signature];
        // keep the first occurrence of each signature (shortest-first enumeration
        // makes it the simplest) and at most 200 in total
        if (violations_.size() < 200 && seen_sig_.insert(signature).second)
        {
            violations_.push_back({signature, case_id, message});
        }
        if (verbose())
        {
            fprintf(stderr, "VIOLATION[%s] case=%s : %s\n", signature.c_str(),
                    case_id.c_str(), message.c_str());
        }
    }
    uint64_t num_violations() const { return num_violations_; }

    //! Harness-internal inconsistency (not a property violation): abort loudly
    [[noreturn]] void harness_error(std::string const& msg)
    {
        fprintf(stderr, "HARNESS-ERROR %s/%s: %s\n", property_.c_str(), harness_.c_str(),
                msg.c_str());
        fflush(stderr);
        _exit(3);
    }

    //! Write the result file; exit code 0 = nothing violated, 1 = violations
    int finish()
    {
        if (replay_ && counters_.empty() && num_violations_ == 0)
        {
            fprintf(stderr, "replay: case '%s' was not reached by the enumeration\n",
                    only_case_.c_str());
        }
        std::ostringstream o;
        o << "{\n";
        o << " \"property\": \"" << property_ << "\",\n";
        o << " \"harness\": \"" << harness_ << "\",\n";
        o << " \"part\": \"" << json_escape(part_) << "\",\n";
        o << " \"tier\": \"" << tier_ << "\",\n";
        o << " \"seed\": " << seed_ << ",\n";
        o << " \"shard\": " << shard_ << ",\n \"nshards\": " << nshards_ << ",\n";
        o << " \"wall_s\": " << elapsed() << ",\n";
        o << " \"deadline_hit\": " << (deadline_hit_ ? "true" : "false") << ",\n";
        o << " \"caps\": [";
        {
            bool first = true;
            for (auto const& c : caps_)
            {
                o << (first ? "" : ", ") << '"' << json_escape(c) << '"';
                first = false;
            }
        }
        o << "],\n";
        o << " \"counters\": {";
        {
            bool first = true;
            for (auto const& kv : counters_)
            {
                o << (first ? "" : ", ") << '"' << json_escape(kv.first) << "\": " << kv.second;
                first = false;
            }
        }
        o << "},\n \"maxima\": {";
        {
            bool first = true;
            for (auto const& kv : maxima_)
            {
                o << (first ? "" : ", ") << '"' << json_escape(kv.first) << "\": " << kv.second;
                first = false;
            }
        }
        o << "},\n \"tags\": {";
        {
            bool first = true;
            for (auto const& kv : tags_)
            {
                o << (first ? "" : ", ") << '"' << json_escape(kv.first) << "\": " << kv.second;
                first = false;
            }
        }
        o << "},\n \"notes\": {";
        {
            bool first = true;
            for (auto const& kv : notes_)
            {
                o << (first ? "" : ", ") << '"' << json_escape(kv.first) << "\": \""
                  << json_escape(kv.second) << '"';
                first = false;
            }
        }
        o << "},\n \"num_states\": " << states_.size() << ",\n";
        o << " \"num_outcomes\": " << outcomes_.size() << ",\n";
        o << " \"num_nontrivial\": " << nontrivial_.size() << ",\n";
        o << " \"num_violations\": " << num_violations_ << ",\n";
        o << " \"samples\": [";
        for (size_t i = 0; i < samples_.size(); ++i)
        {
            o << (i ? ", " : "") << '"' << json_escape(samples_[i]) << '"';
        }
        o << "],\n \"violations\": [";
        for (size_t i = 0; i < violations_.size(); ++i)
        {
            auto const& v = violations_[i];
            o << (i ? ",\n  " : "\n  ") << "{\"signature\": \"" << json_escape(v.signature)
              << "\", \"case\": \"" << json_escape(v.case_id) << "\", \"message\": \""
              << json_escape(v.message) << "\"}";
        }
        o << "]\n}\n";
        if (!out_.empty())
        {
            FILE* f = fopen(out_.c_str(), "w");
            if (!f)
            {
                perror(out_.c_str());
                return 3;
            }
            fputs(o.str().c_str(), f);
            fclose(f);
            // hash sets for cross-shard de-duplication
            dump_set(out_ + ".nontrivial", nontrivial_);
            dump_set(out_ + ".outcomes", outcomes_);
            // states are not dumped: shards partition the search roots, the driver sums
            // the per-shard distinct counts
        }
        else
        {
            fputs(o.str().c_str(), stdout);
        }
        return num_violations_ ? 1 : 0;
    }

  private:
    static void dump_set(std::string const& path, std::unordered_set<uint64_t> const& s)
    {
        if (s.empty() || s.size() > 4000000)
            return;
        FILE* f = fopen(path.c_str(), "wb");
        if (!f)
            return;
        std::vector<uint64_t> v(s.begin(), s.end());
        fwrite(v.data(), sizeof(uint64_t), v.size(), f);
        fclose(f);
    }

    std::string property_, harness_, tier_{"quick"}, out_, only_case_, part_;
    uint64_t seed_{0};
    int shard_{0}, nshards_{1};
    double deadline_s_{0};
    bool replay_{false}, verbose_{false}, deadline_hit_{false}, armed_{false};
    double limit_scale_{1.0};
    static void arm(double seconds)
    {
        itimerval tv{};
        tv.it_value.tv_sec = long(seconds);
        tv.it_value.tv_usec = long((seconds - long(seconds)) * 1e6);
        setitimer(ITIMER_REAL, &tv, nullptr);
    }
    std::chrono::steady_clock::time_point t0_;
    std::map<std::string, uint64_t> counters_, maxima_, tags_;
    std::map<std::string, std::string> notes_;
    std::unordered_set<uint64_t> nontrivial_, outcomes_, states_;
    std::unordered_set<std::string> seen_sig_;
    std::vector<std::string> samples_;
    uint64_t samples_seen_{0};
    std::vector<Violation> violations_;
    uint64_t num_violations_{0};
    std::set<std::string> caps_;
};

//---------------------------------------------------------------------------//
}  // namespace vf

#if defined(__SANITIZE_ADDRESS__)
// AddressSanitizer calls this on every report (recover mode keeps running): harnesses read
// vf::detail::g_asan_errors before/after a case to attribute the report.
extern "C" void __asan_on_error()
{
    vf::detail::g_asan_errors = vf::detail::g_asan_errors + 1;
}
#endif
