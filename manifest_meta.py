"""Human-written texts for MANIFEST.json (see gen_manifest.py)."""
PENDING_REASON = ("not claimed yet: the bounded-exhaustive check designed in DESIGN.md section 3 "
                  "is not implemented/validated at this commit")
NOT_APPLICABLE_REASON = {}
META = {"engines": [], "checks": {}}

META["checks"]["C13"] = {
    "engine": "E2/E4 basis enumeration (harness/c13_rng.cc)",
    "design_ref": "DESIGN.md section 3, C13",
    "technique": "exhaustive enumeration over an F2 basis of the 160-bit state space + all 2^32 words; "
                 "explicit reference model (bit-matrix powers) compared on every transition of the real engine",
    "text": ("Model checking of the generator as a linear transition system: the real engine's one-step "
             "map is extracted on the 160 unit states and its linearity checked exhaustively on pairs/"
             "triples; every stored jump polynomial and the reseeding index arithmetic are compared with "
             "independent matrix powers on every basis state, which by linearity covers all 2^160-1 "
             "states; all 2^32 float canonicals are enumerated. This is a complete decision for the jump "
             "tables and the float range, and a bounded one for composite counts / reseed triples."),
    "note": ("Trusts: linearity argument (checked, not proved, on pairs/triples/dense states); g++ "
             "-fno-access-control to reach the private subsequence skip; factorisation of 2^160-1 is "
             "re-verified by multiplication and trial division inside the harness."),
}
