"""Reasons for properties not claimed in MANIFEST.json (see gen_manifest.py)."""
PENDING_REASON = ("not claimed yet: the bounded-exhaustive check designed in DESIGN.md section 3 "
                  "is not implemented/validated at this commit")
NOT_APPLICABLE_REASON = {}
