#!/bin/bash
# Confirm a seeded change in a scratch worktree and run the checks against it.
#   ./seed_confirm.sh <seed-id> <Cxx> [<Cyy>...]
# needs seeded/<seed-id>/{patch.diff,demo.sh}; appends to seeded/<seed-id>/confirm.log
ID=$1; shift
SEED=/verif/seeded/$ID; LOG=$SEED/confirm.log
WT=/tmp/cf_$ID
echo "==== $(date -u) confirm $ID at /repo $(git -C /repo rev-parse --short HEAD) verif $(git -C /verif rev-parse --short HEAD)" | tee -a $LOG
git -C /repo worktree remove --force $WT 2>/dev/null; rm -rf $WT
git -C /repo worktree add -q $WT HEAD || exit 2
git -C $WT apply $SEED/patch.diff || { echo "patch does not apply" | tee -a $LOG; exit 2; }
( cd $WT && cmake -G Ninja -S . -B _b -DCELERITAS_BUILD_TESTS=ON -DCELERITAS_USE_MPI=OFF -DCELERITAS_USE_OpenMP=OFF \
    -DCELERITAS_USE_Python=OFF -DCELERITAS_BUILD_DOCS=OFF -DCELERITAS_USE_PNG=OFF -DCMAKE_CXX_FLAGS="-Wno-error -w" \
    -DCMAKE_BUILD_TYPE=RelWithDebInfo -Dnlohmann_json_DIR=/root/miniconda/share/cmake/nlohmann_json \
    -DGTest_DIR=/root/miniconda/lib/cmake/GTest > _cfg.log 2>&1 && ninja -C _b -j ${SEED_JOBS:-12} > _build.log 2>&1 ) \
  || { echo "BUILD FAILED" | tee -a $LOG; tail -5 $WT/_build.log | tee -a $LOG; }
ctest --test-dir $WT/_b -j8 --timeout 900 2>&1 | grep -E "tests passed|\(Failed\)" | head -5 | tee -a $LOG
WT=$WT B=$WT/_b bash $SEED/demo.sh > $SEED/demo.patched.out 2>&1; echo "demo with patch: exit $?" | tee -a $LOG
WT=/repo B=/repo/_build bash $SEED/demo.sh > $SEED/demo.clean.out 2>&1; echo "demo without patch: exit $?" | tee -a $LOG
for c in "$@"; do
  out=$(cd /verif && VERIF_REPO=$WT VERIF_BUILD=$WT/_vb VERIF_OUTDIR=$SEED/run ./check $c quick 2>&1); rc=$?
  echo "check $c quick on patched tree: exit $rc" | tee -a $LOG
  echo "$out" | grep -E "^\[check\] [a-z].*:|VIOLATION" | cut -c1-400 | head -6 | tee -a $LOG
done
git -C /repo worktree remove --force $WT; rm -rf $WT
echo "==== done $ID" | tee -a $LOG
