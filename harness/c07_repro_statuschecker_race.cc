// Standalone reproduction (ThreadSanitizer) of the data race in
// celeritas::StatusChecker::begin_run_impl (src/celeritas/track/StatusChecker.cc):
// every Stepper constructor runs the begin-run actions of the SHARED action registry;
// StatusChecker::begin_run_impl rebuilds the host table and assigns the shared member
//     data_ = CollectionMirror{std::move(host_val)};
// for every stream, with no lock and no "already built" test.  Two streams that are constructed
// concurrently write `data_` at the same time; a stream constructed while another one is
// stepping replaces (and frees) the `orders` storage that the other stream's
// StatusChecker::step reads after every action.
//
// Build and run against a ThreadSanitizer build of the libraries (flavour tsan):
//   B=$VERIF_BUILD/tsan/celeritas
//   g++ -std=c++17 -O1 -g1 -fsanitize=thread -DCELERITAS_VERIF=1 -pthread -w -I/verif \
//       -I$VERIF_REPO/src -I$B/include -isystem /root/miniconda/include \
//       C07_statuschecker_race_repro.cc -o repro -L$B/lib -Wl,-rpath,$B/lib \
//       -lceleritas -lorange -lgeocel -lcorecel
//   CELER_LOG=error CELER_LOG_LOCAL=error ./repro
// Expected with the unchanged sources: "WARNING: ThreadSanitizer: data race" with
// StatusChecker::begin_run_impl in both stacks (and/or StatusChecker::step vs begin_run_impl).
#include <atomic>
#include <thread>

#include <chrono>
#include <cstring>

#include "corecel/sys/VerifHooks.hh"
#include "problems/loop_zoo.hh"

using namespace celeritas;
using namespace vf;

// Make the two constructions overlap even on a busy machine: both threads wait for each other
// right before their k-th begin-run action (CELERITAS_VERIF hook in ActionSequence::begin_run).
static std::atomic<unsigned> g_arrived[4096];
static thread_local unsigned tl_index = 0;
static void rendezvous(char const* tag)
{
    if (std::strcmp(tag, "begin-run-action") != 0)
        return;
    unsigned k = tl_index++;
    g_arrived[k].fetch_add(1);
    auto t0 = std::chrono::steady_clock::now();
    while (g_arrived[k].load() < 2
           && std::chrono::steady_clock::now() - t0 < std::chrono::milliseconds(500))
        std::this_thread::yield();
}

int main()
{
    LoopConfig cfg;
    cfg.geometry = 1;
    cfg.along = AlongStep::linear_fluct;
    cfg.slots = 4;
    cfg.max_streams = 2;
    cfg.status_checker = true;  // the debug status checker is the only thing needed
    auto P = make_loop_problem(cfg);
    P->recorder->split_streams = true;
    celeritas::verif::g_yield = &rendezvous;
    std::atomic<int> ready{0};
    auto body = [&](unsigned stream) {
        ++ready;
        while (ready.load() < 2)
            std::this_thread::yield();
        for (int rep = 0; rep < 5; ++rep)
        {
            // the way celer-sim's Runner::get_transporter builds one transporter per stream,
            // lazily, from the thread that uses it
            auto st = P->make_stepper(stream);
            st->reseed(UniqueEventId{stream});
            Primary p = P->primary(1, 5.0, {0.2, 0.1, 0.05}, {1, 0, 0}, stream);
            auto r = (*st)(Span<Primary const>{&p, 1});
            while (r)
                r = (*st)();
        }
    };
    std::thread a(body, 0u), b(body, 1u);
    a.join();
    b.join();
    return 0;
}
