// Standalone reproduction of the C15 finding "poisson:negative-normal-wraps-to-huge-count".
//   g++ -std=c++17 -O2 -I/repo/src -I/verif/build/rel/celeritas/include c15_repro_poisson.cc && ./a.out
// PoissonDistribution<double>(lambda) with lambda > 16 returns
//   result_type(sample_normal_(rng) + 0.5)            (result_type = unsigned int)
// without clamping: whenever the normal deviate is below -(lambda + 1.5)/sqrt(lambda) the negative
// double is converted to unsigned (undefined behaviour; on x86-64 it wraps to 2^32 - n).
// Probability per sample: 5.8e-6 at lambda = 16.1, 7.6e-7 at 20, 5.8e-8 at 25.
// Expected: a count >= 0 close to lambda (Geant4's G4Poisson clamps at 0).
#include <cstdio>
#include <random>

#include "celeritas/random/distribution/PoissonDistribution.hh"

int main()
{
    std::mt19937 rng(12345);
    celeritas::PoissonDistribution<double> sample(16.1);
    int hits = 0;
    for (unsigned long long i = 0; i < 2000000ull; ++i)
    {
        unsigned int k = sample(rng);
        if (k > 1000u)
        {
            std::printf("sample #%llu of PoissonDistribution(16.1) = %u\n", i, k);
            ++hits;
        }
    }
    std::printf("%d samples outside [0, 1000] in 2e6 draws\n", hits);
    return hits ? 1 : 0;
}
