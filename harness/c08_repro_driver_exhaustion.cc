// Standalone reproductions for the two NEW findings of the strengthened check C08 (unchanged tree).
// Build and run (not part of ./check):
//   B=/tmp/vb_clean/rel/celeritas; S=/tmp/repo_clean
//   g++ -std=c++17 -O2 -w -I$S/src -I$B/include -isystem /root/miniconda/include proposed_findings/C08_repro.cc \
//       -L$B/lib -Wl,-rpath,$B/lib -lceleritas -lorange -lgeocel -lcorecel && CELER_LOG=error VERIF_REPO=$S ./a.out
#include <cmath>
#include <cstdio>
#include <string>
#include "corecel/data/CollectionStateStore.hh"
#include "orange/OrangeParams.hh"
#include "orange/OrangeTrackView.hh"
#include "celeritas/Units.hh"
#include "celeritas/field/DormandPrinceStepper.hh"
#include "celeritas/field/FieldDriver.hh"
#include "celeritas/field/FieldDriverOptions.hh"
#include "celeritas/field/MakeMagFieldPropagator.hh"
#include "celeritas/field/UniformField.hh"
#include "celeritas/phys/ParticleParams.hh"
#include "celeritas/phys/ParticleTrackView.hh"
using namespace celeritas;
int main()
{
    double const B = 1e4;  // 1 T along z
    {
        printf("--- 4: FieldDriver::one_good_step runs out of trials: rescaled step returned with the state of the REJECTED trial ---\n");
        for (int n : {1, 3})
        {
            double const R = 0.01;  // cm: 2R < delta_chord, the chord search never limits the step
            double const p = 2.99792458e-4 * B * R;
            UniformField field({0, 0, B});
            FieldDriverOptions opts;
            opts.max_nsteps = n;  // validated range: max_nsteps > 0
            auto stepper = make_mag_field_stepper<DormandPrinceStepper>(field, units::ElementaryCharge{-1});
            FieldDriver<decltype(stepper)&> driver(opts, stepper);
            OdeState y;
            y.pos = {0, 0, 0};
            y.mom = {p, 0, 0};
            double const step = n == 1 ? 0.1 : 10.0;
            DriverResult r = driver.advance(step, y);
            double d = std::sqrt(r.state.pos[0] * r.state.pos[0] + r.state.pos[1] * r.state.pos[1]
                                 + r.state.pos[2] * r.state.pos[2]);
            double pe = std::sqrt(r.state.mom[0] * r.state.mom[0] + r.state.mom[1] * r.state.mom[1]
                                  + r.state.mom[2] * r.state.mom[2]);
            printf("max_nsteps=%d R=%g advance(%g): returned step=%.6g, straight-line displacement of the returned state=%.6g "
                   "(must be <= step and <= 2R=%g), |p_end|/|p|=%.6g\n",
                   n, R, step, r.step, d, 2 * R, pe / p);
        }
    }
    {
        printf("--- 5: FieldPropagator::operator()() (no step limit) ---\n");
        std::string repo = getenv("VERIF_REPO") ? getenv("VERIF_REPO") : "/repo";
        OrangeParams geop(repo + "/test/geocel/data/two-boxes.org.json");
        CollectionStateStore<OrangeStateData, MemSpace::host> gs(geop.host_ref(), 1);
        ParticleParams::Input defs = {{"electron", pdg::electron(), units::MevMass{0.5109989461},
                                       units::ElementaryCharge{-1}, 0.0}};
        ParticleParams pp(std::move(defs));
        CollectionStateStore<ParticleStateData, MemSpace::host> ps(pp.host_ref(), 1);
        ParticleTrackView particle(pp.host_ref(), ps.ref(), TrackSlotId{0});
        double p = 2.99792458e-4 * B * 5.0, m = 0.5109989461;
        particle = ParticleTrackView::Initializer_t{ParticleId{0}, units::MevEnergy{p * p / (std::sqrt(p * p + m * m) + m)}};
        OrangeTrackView geo(geop.host_ref(), gs.ref(), TrackSlotId{0});
        geo = GeoTrackInitializer{{0.3, -0.2, 0.1}, {0.6, 0.8, 0}};
        UniformField field({0, 0, B});
        FieldDriverOptions opts;
        auto r = make_mag_field_propagator<DormandPrinceStepper>(field, opts, particle, geo)();
        printf("propagate() from (0.3,-0.2,0.1): distance=%g boundary=%d looping=%d pos=(%g,%g,%g) dir=(%g,%g,%g)   "
               "expected: a finite distance to the first boundary (or looping)\n",
               r.distance, r.boundary, r.looping, geo.pos()[0], geo.pos()[1], geo.pos()[2], geo.dir()[0],
               geo.dir()[1], geo.dir()[2]);
    }
    return 0;
}
