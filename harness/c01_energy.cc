// C01 - transport conserves energy over every event and every track.
// C05 - each track's step history is continuous and respects its step limits.
// (one executable, part = "energy" | "steps"; the exploration is shared, the oracle differs)
//
// E1 deviation-bounded exploration: configuration lattice (along-step variant x slots x track
// order x cross-section level x geometry) x primary lattice (particle x energy x position x
// direction) x ALL interaction-outcome sequences with at most B deviations from the default
// "absorb, deposit everything" (harness/loop_explore.hh).  Extra roots appended below: boundary
// arrival around the tracking cut, e+ at rest at birth (E = 0), primaries exactly at the table
// ends (1e-3 / 1e4 MeV), starved-stack at-rest deferral; non-zero primary times on the dyadic,
// table-end, at-rest and two-primary roots.
#include "corecel/sys/VerifHooks.hh"
#include "harness/loop_explore.hh"

using namespace celeritas;
using namespace vf;

// RNG seam (hook H2): every 32-bit word drawn by the core RNG of the running event passes
// through rng_filter(); the explorer may replace the i-th word (i < word_cap) by one of the
// letters below (choice 0 = keep the generator's own word).
static Choices* g_rng_choices = nullptr;
static unsigned g_rng_words = 0;
static unsigned const g_rng_word_cap = 384;
static unsigned const rng_letters[] = {0x00000001u, 0x40000000u, 0x80000000u, 0xc0000000u, 0xffffff00u};
static unsigned int rng_filter(unsigned int w)
{
    if (!g_rng_choices || g_rng_words >= g_rng_word_cap)
    {
        ++g_rng_words;
        return w;
    }
    ++g_rng_words;
    int k = g_rng_choices->choose(6);
    return k == 0 ? w : rng_letters[k - 1];
}

int main(int argc, char** argv)
{
    // the driver passes --part; peek at it to name the property
    std::string part = "energy";
    for (int i = 1; i + 1 < argc; ++i)
        if (std::string(argv[i]) == "--part")
            part = argv[i + 1];
    bool const steps_part = (part == "steps" || part == "steps-rng");
    bool const rng_part = (part == "rng" || part == "steps-rng");
    vf::Run R(argc, argv, steps_part ? "C05" : "C01", "c01_energy");
    bool const thorough = R.thorough();
    int const bound = rng_part ? 1 : (thorough ? 3 : 2);
    auto configs = config_lattice(thorough);
    auto prims = primary_lattice(thorough, /*extended=*/true);
    // A BOUNDARY-limited step that arrives on the surface with a kinetic energy below the
    // tracking cut (0.02 MeV; dE/dx 2 MeV/cm: 0.13 MeV, 0.0625 cm from the +x face of the inner
    // box -> 0.005 MeV left), and one just above it (0.15 MeV -> 0.025 MeV): the cut must not
    // be applied on a boundary step, the track crosses and is cut (or ranges out) beyond
    for (int k = 1; k < 3; ++k)
        for (double e : {0.13, 0.15})
            prims.push_back({k, e, {1.4375, 0.125, 0.0}, {1, 0, 0}, fmt("k%d.eb%g.q2.a0", k, e)});
    // A primary that is AT REST at birth (E = 0 e+; only the 2 m c^2 budget enters): alone, and as
    // the second primary next to a 1 MeV e- (with one slot it takes a slot a moving track used)
    prims.push_back({2, 0.0, {0.2, 0.1, 0.05}, {1, 0, 0}, "k2.e00.p0.d0"});
    {
        PrimaryCase pr{1, 1.0, {0.2, 0.1, 0.05}, {1, 0, 0}, "k1.e1.p0.d0+k2.e00"};
        pr.kind2 = 2;
        pr.energy2 = 0.0;
        pr.pos2 = {0.3, -0.2, 0.1};
        pr.dir2 = {0, 1, 0};
        prims.push_back(pr);
    }
    // Primaries exactly AT the ends of the scripted tables ([1e-3, 1e4] MeV; value == front /
    // value == back of the energy grids): 1e4 MeV gamma / e- / e+, and a 1e-3 MeV gamma
    // (gammas have no tracking cut)
    for (int k = 0; k < 3; ++k)
        prims.push_back({k, 1e4, {0.2, 0.1, 0.05}, {1, 0, 0}, fmt("k%d.emax.p0.d0", k)});
    prims.push_back({0, 1e-3, {0.2, 0.1, 0.05}, {1, 0, 0}, "k0.emin.p0.d0"});
    {
        // Starved secondary stack WITH multiple scattering, two slots, and an e+ that stops
        // while another track allocates in the same step: the annihilation at rest fails and is
        // deferred, so the e+ starts its next step AT REST (step limit 0) in a slot whose last
        // MSC step is still recorded.  Roots: (e+, gamma) in both orders.
        for (auto a : {AlongStep::linear_msc, AlongStep::linear_msc_fluct})
        {
            if (!thorough && a != AlongStep::linear_msc)
                continue;
            LoopConfig c;
            c.geometry = 1;
            c.geo_variant = 1;
            c.along = a;
            c.slots = 2;
            c.secondary_stack_factor = 2.5 / 2;  // capacity 2
            c.xs_gamma = 0.7;
            c.xs_electron = 1.0;
            c.dedx = 2.0;
            c.bookkeeping = false;
            configs.push_back({c, fmt("g1.%s.s2.o0.x0.cap2.rest", along_name(a))});
        }
        for (int order = 0; order < 2; ++order)
        {
            PrimaryCase ep{2, 0.1, {0.2, 0.1, 0.05}, {0, 0, 1}, order ? "k0+k2.rest" : "k2+k0.rest"};
            ep.kind2 = 0;
            ep.energy2 = 100.0;
            ep.pos2 = {0.3, -0.2, 0.1};
            ep.dir2 = {1, 0, 0};
            if (order)
            {
                std::swap(ep.kind, ep.kind2);
                std::swap(ep.energy, ep.energy2);
                std::swap(ep.pos, ep.pos2);
                std::swap(ep.dir, ep.dir2);
            }
            prims.push_back(ep);
        }
    }
    // Non-zero primary times (dyadic, native units: 2^-31 s ~ 0.47 ns, 3 * 2^-32 s ~ 0.70 ns) on
    // the dyadic, table-end, at-rest-at-birth and every two-primary root (different times for
    // the two primaries): a birth time taken from the slot / from 0 is then not accidentally right
    for (auto& p : prims)
        if (p.kind2 >= 0 || p.id.find(".q") != std::string::npos
            || p.id.find(".e00") != std::string::npos || p.id.find(".em") != std::string::npos)
        {
            p.time = std::ldexp(1.0, -31);
            p.time2 = std::ldexp(3.0, -32);
        }
    if (rng_part)
    {
        // forced random words: the interaction outcomes stay at their defaults; a thinner
        // root lattice (every 3rd configuration, 1 MeV and 100 MeV primaries from the centre)
        celeritas::verif::g_rng = &rng_filter;
        std::vector<ConfigCase> c2;
        for (size_t i = 0; i < configs.size(); ++i)
            if (has_msc(configs[i].cfg.along) || has_fluct(configs[i].cfg.along) || i % 3 == 0)
                if (configs[i].cfg.slots != 8 && (thorough || configs[i].cfg.slots == 1 || i % 2 == 0))
                    c2.push_back(configs[i]);
        configs.swap(c2);
        std::vector<PrimaryCase> p2;
        for (auto const& p : prims)
            if ((p.id.find(".e1.") != std::string::npos || p.id.find(".e2.") != std::string::npos)
                && p.id.find(".p0.d0") != std::string::npos)
                p2.push_back(p);
        prims.swap(p2);
    }
    // thorough: first the complete lattice at bound 2, then bound 3 for as many roots as the
    // deadline allows (the completed bound is reported; a cut bound-3 pass is a declared cap)
    std::vector<int> passes = {bound};
    if (thorough && !rng_part)
        passes = {2, 3};
    ExploreStats total;
    for (int pass_bound : passes)
    {
    uint64_t outer = 0;
    bool pass_complete = true;
    for (auto& cc : configs)
    {
        std::unique_ptr<LoopProblem> P;
        for (auto const& pc : prims)
        {
            if (needs_proton(pc) != cc.cfg.with_proton)
                continue;
            if ((pc.id.find(".rest") != std::string::npos) != (cc.id.find(".rest") != std::string::npos))
                continue;
            uint64_t idx = outer++;
            if (!R.mine(idx))
                continue;
            if (R.expired())
            {
                pass_complete = false;
                break;
            }
            std::string root = cc.id + ":" + pc.id;
            if (R.replay() && R.replay_case().compare(0, root.size() + 1, root + "|") != 0)
                continue;
            if (!P)
            {
                LoopConfig cfg = cc.cfg;
                if (steps_part)
                    cfg.probes = {StepActionOrder::user_start, StepActionOrder::user_pre,
                                  StepActionOrder::sort_along, StepActionOrder::sort_pre_post,
                                  StepActionOrder::user_post, StepActionOrder::end};
                P = make_loop_problem(cfg);
                R.tag("config:" + cc.id);
            }
            R.begin_case(root, 600);
            ExploreStats st;
            auto body_result = std::make_shared<EventRun>();
            auto body = [&](Choices& c) {
                unsigned const horizon = 3000;
                if (rng_part)
                {
                    // the explorer owns the random words; the interaction outcomes are a fixed
                    // function of (event, track, step, particle, energy)
                    Choices none({});
                    HashedOutcomeChooser hc;
                    g_rng_choices = &c;
                    g_rng_words = 0;
                    *body_result = run_event(*P, pc, none, horizon, &hc);
                    g_rng_choices = nullptr;
                    R.maxi("max_words_per_event", g_rng_words);
                }
                else
                    *body_result = run_event(*P, pc, c, horizon);
            };
            auto on_exec = [&](Choices const& c) {
                R.count("evaluations");
                R.count("transitions", body_result->calls);
                std::string cid = root + "|" + choices_to_string(c.chosen());
                if (!body_result->exception.empty())
                {
                    R.violation("loop:exception", cid, body_result->exception);
                    return true;
                }
                if (!body_result->completed)
                {
                    // A charged track circling in the vacuum of a uniform field and crossing a
                    // volume boundary on every turn never trips the propagator's looping flag
                    // and loses ~1e-9 of its energy per turn: a physical looper, which the
                    // transport loop (like Geant4 without a step cap) follows indefinitely.
                    // Not a livelock: every one of the last steps has a positive length and
                    // moves the track.  Anything else that does not finish is a violation.
                    auto const& st = P->recorder->steps;
                    bool progressing = st.size() > 200;
                    for (size_t i = st.size() > 200 ? st.size() - 200 : 0; i < st.size() && progressing; ++i)
                        progressing = st[i].step_length > 1e-6 && st[i].pre.pos != st[i].post.pos
                                      && has_field(P->cfg.along);
                    if (progressing)
                    {
                        R.tag("loop:horizon-reached-by-physical-looper(field,vacuum)");
                        R.count("skipped_loopers");
                        return true;
                    }
                    R.violation("loop:does-not-terminate", cid,
                                fmt("event still has tracks after %u Stepper calls", body_result->calls));
                    return true;
                }
                Verdict v = steps_part ? check_steps(*P, P->recorder->steps, P->probe_log.get(), R, &pc)
                                       : check_energy(*P, pc, P->recorder->steps);
                if (v)
                    R.violation(v.sig, cid, cc.id + " " + pc.id + ": " + v.msg);
                // coverage: which step-limiting actions occurred, how many tracks
                uint64_t h = 1469598103934665603ull;
                std::set<int> acts;
                unsigned max_track = 0;
                for (auto const& s : P->recorder->steps)
                {
                    acts.insert(s.action);
                    max_track = std::max(max_track, s.track);
                    h = hash_mix(h, hash_pod(s.action) ^ hash_pod(s.track) ^ hash_pod(s.post.energy));
                }
                for (int a : acts)
                    R.tag("action:" + P->action_labels.at(a));
                R.outcome(h);
                R.state(h);
                if (c.deviations() > 0 && (max_track > 0 || rng_part))
                    R.nontrivial(hash_mix(hash_str(root), h));
                R.maxi("max_tracks", max_track + 1);
                R.maxi("max_steps", P->recorder->steps.size());
                return !((st.executions & 63) == 0 && R.expired());
            };
            std::vector<int> prefix;
            if (R.replay())
            {
                // replay exactly one choice list
                std::string rc = R.replay_case();
                prefix = choices_from_string(rc.substr(root.size() + 1));
                Choices c(prefix);
                body(c);
                on_exec(c);
                for (auto const& s : P->recorder->steps)
                    fprintf(stderr,
                            "  ev%u trk%u par%d n%u part%d %s len %.17g edep %.17g E %.17g->%.17g vol "
                            "%d->%d pos [%.17g,%.17g,%.17g]->[%.17g,%.17g,%.17g]\n",
                            s.event, s.track, int(s.parent), s.step_count, s.particle,
                            P->action_labels.at(s.action).c_str(), s.step_length, s.edep,
                            s.pre.energy, s.post.energy, s.pre.volume, s.post.volume,
                            s.pre.pos[0], s.pre.pos[1], s.pre.pos[2], s.post.pos[0],
                            s.post.pos[1], s.post.pos[2]);
            }
            else
            {
                explore(body, on_exec, pass_bound, &st);
                if (st.stopped)
                    pass_complete = false;
            }
            total.executions += st.executions;
            R.count("choice_points", st.choice_points);
            R.maxi("max_choice_points", st.max_points);
            R.count("roots");
            R.end_case();
        }
        if (R.expired())
        {
            pass_complete = false;
            break;
        }
    }
    if (pass_complete)
    {
        R.note("bound_completed", std::to_string(pass_bound));
        R.count(fmt("pass_bound_%d_completed_shards", pass_bound));
    }
    else if (passes.size() > 1 && pass_bound == passes.back())
    {
        R.tag("bound-3-pass-cut-by-deadline");
    }
    if (R.replay())
        break;
    }
    R.note("deviation_bound", std::to_string(bound));
    R.sample("g1.linear.s3.o0.x1:k0.e2.p0.d0|3.0.4 = 100 MeV gamma from the centre along +x, 3 "
             "slots: 1st interaction 'absorb_two', 2nd default, 3rd 'absorb_pair', rest default");
    R.sample("g1.fieldfluct.s1.o1.x0:k2.e1.p1.d2|1 = 1 MeV positron near the box wall, uniform "
             "field + fluctuations, 1 slot, first interaction 'scatter_half'");
    return R.finish();
}
