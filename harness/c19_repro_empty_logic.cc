// Minimal reproduction for the proposed C19 finding "roundtrip:empty-logic-volume-not-readable".
//
//   g++ -std=c++17 -O2 -I/repo/src -I/verif/build/rel/celeritas/include \
//       -isystem /root/miniconda/include harness/c19_repro_empty_logic.cc -o /tmp/c19_repro_el \
//       -L/verif/build/rel/celeritas/lib -Wl,-rpath,/verif/build/rel/celeritas/lib \
//       -lorange -lgeocel -lcorecel && CELER_LOG=error /tmp/c19_repro_el
//
// VolumeInput::operator bool (orange/OrangeInput.hh) accepts a volume with EMPTY logic when
// `flags & VolumeRecord::implicit_vol` is set, and to_json(VolumeInput) has a branch for it
// (`if (!value.logic.empty()) j["logic"] = ...`: the key is omitted).  from_json(VolumeInput),
// however, reads `j.at("logic")` unconditionally for every volume that is not a background
// volume, so the text the writer has just produced cannot be read back:
//   nlohmann::json out_of_range.403 "key 'logic' not found".
// Expected: the input reads back with the same (empty) logic, e.g. in from_json(VolumeInput)
//     if (auto iter = j.find("logic"); iter != j.end())
//         value.logic = detail::string_to_logic(iter->get<std::string>());
//     else
//         value.logic = {};
// (or: the writer emits "logic": "" and string_to_logic("") returns an empty vector - it does).
// Reach: no producer inside Celeritas emits such a volume today (UnitProto writes "* ~" for its
// implicit volumes, and UnitInserter rejects empty logic), so only hand-made / external inputs
// are affected.
#include <iostream>
#include <nlohmann/json.hpp>

#include "orange/OrangeData.hh"
#include "orange/OrangeInput.hh"
#include "orange/OrangeInputIO.json.hh"
#include "orange/surf/PlaneAligned.hh"

using namespace celeritas;

int main()
{
    UnitInput u;
    u.label = Label{"u"};
    u.bbox = BBox{{-1, -1, -1}, {1, 1, 1}};
    u.surfaces.push_back(PlaneX(0.25));
    u.surface_labels.push_back(Label{"mid"});
    VolumeInput v;
    v.label = Label{"implicit"};
    v.faces = {LocalSurfaceId{0}};
    v.logic = {};  // empty ...
    v.flags = VolumeRecord::implicit_vol;  // ... but valid through the flag
    v.zorder = ZOrder::media;
    v.bbox = BBox::from_infinite();
    u.volumes.push_back(v);
    VolumeInput w;
    w.label = Label{"right"};
    w.faces = {LocalSurfaceId{0}};
    w.logic = {0};
    w.zorder = ZOrder::media;
    w.bbox = BBox::from_infinite();
    u.volumes.push_back(w);
    OrangeInput in;
    in.universes.push_back(u);
    in.tol = Tolerance<>::from_default();

    std::cout << "VolumeInput valid: " << bool(v) << ", OrangeInput valid: " << bool(in) << std::endl;
    nlohmann::json j = in;
    std::cout << "written volume 0: " << j["universes"][0]["volumes"][0].dump() << std::endl;
    try
    {
        OrangeInput back;
        j.get_to(back);
        auto const& vb = std::get<UnitInput>(back.universes[0]).volumes[0];
        std::cout << "read back, logic size " << vb.logic.size() << std::endl;
        return vb.logic.empty() ? 0 : 1;
    }
    catch (std::exception const& e)
    {
        std::cout << "DEFECT: reading back what to_json wrote threw: " << e.what() << std::endl;
        return 1;
    }
}
