// C12 part "inv": involutes (sense / intersection self-consistency).
//
// ORACLE, from the documented definition (Involute.hh): points of the surface are
//   P(t) = r_b (cos(t+a) + t sin(t+a), sin(t+a) - t cos(t+a)) + origin,  tmin <= t <= tmax,
// mirrored in x for clockwise involutes.  A point at distance r >= r_b from the origin lies on
// exactly one involute of the family, with t = sqrt(r^2/r_b^2 - 1) and displacement
//   a1 = atan2(y, x) + atan(t) - t            (polar angle of P(t) is t + a1 - atan t).
// Involutes of one circle are parallel curves with normal spacing r_b * (a1 - a), therefore
//   r_b * (a1 - a  mod 2 pi)  is the signed normal distance to the surface's curve.
// "inside" (documented) = an involute through the point with t inside the bounds and a1 > a,
// cut (code) where the tangent point angle t + a1 reaches tmax + a.
//  sense     calc_sense == oracle for points farther than 1e-6 (r_b + r) from every boundary
//            (acos near +-1 costs the code ~1e-8 in angle; 1e-6 is two orders above that)
//  hit       every returned distance is > 0 and x + d u lies on the curve inside the bounds:
//            the solver iterates until the curve point is within r_b * 1e-8 of the line, so
//            normal distance <= 3e-8 r_b + rounding
//  self hit  with state on (start points on the curve to 1 ulp) no in-plane distance below 1e-7 r_b
//            is reported (documented cut: 1e-6 r_b)
//  flip      calc_sense differs at x + (d -+ h) u for transversal crossings away from the ends
//  missed    marching along the ray in steps of r_b/16: a sign change of (a1 - a) between two
//            consecutive samples, both clearly inside the annulus and with |a1 - a| < 1, proves
//            a crossing in that step (|grad a1| = 1/r_b, so a1 moves by <= 1/16 per step); it
//            must not end before the nearest returned distance.  Attribution of a proven miss:
//            "involute:missed-nearer-crossing" (recorded known finding) only if a double-precision
//            copy of the DOCUMENTED bracketing scheme loses the crossing as well, otherwise
//            "involute:missed-crossing-that-documented-scheme-finds"
//  normal    unit, equals (sin(t+a), -cos(t+a)) (mirrored for clockwise)
//  translate SurfaceTranslator(Involute): sense at x + t equals the oracle at x
#include "oracle/c12_quadric.hh"

namespace
{
struct InvO
{
    ld ox, oy, rb, a, tmin, tmax, rmin, rmax;
    bool right;
};
static InvO derive_inv(Involute const& s)
{
    auto d = s.data();  // {origin x, origin y, r_b (negative if clockwise), a, tmin, tmax}
    InvO o;
    o.ox = d[0];
    o.oy = d[1];
    o.right = d[2] < 0;
    o.rb = fabsl(ld(d[2]));
    o.a = d[3];
    o.tmin = d[4];
    o.tmax = d[5];
    o.rmin = o.rb * sqrtl(1 + o.tmin * o.tmin);
    o.rmax = o.rb * sqrtl(1 + o.tmax * o.tmax);
    return o;
}
struct InvEval
{
    ld r, t, dsym, dfull;  // dsym: a1 - a in (-pi, pi]; dfull: a1 - a with code's branch
    bool defined;  // r > r_b
};
static InvEval inv_eval(InvO const& o, ld px, ld py)
{
    InvEval e{};
    ld X = px - o.ox, Y = py - o.oy;
    if (o.right)
        X = -X;
    e.r = sqrtl(X * X + Y * Y);
    e.defined = e.r > o.rb;
    if (!e.defined)
        return e;
    e.t = sqrtl(e.r * e.r / (o.rb * o.rb) - 1);
    ld theta0 = atan2l(Y, X) + atanl(e.t);
    ld D0 = theta0 - e.t - o.a;
    e.dsym = remainderl(D0, 2 * PI_L);
    ld width = o.tmax - e.t;
    e.dfull = D0 - 2 * PI_L * ceill((D0 - width) / (2 * PI_L));  // in (width - 2 pi, width]
    return e;
}
//! +1 outside, -1 inside, 0 too close to a boundary
static int inv_sense(InvO const& o, ld px, ld py, InvEval* out = nullptr)
{
    InvEval e = inv_eval(o, px, py);
    if (out)
        *out = e;
    ld tau = 1e-6L * (o.rb + e.r);
    if (e.r < o.rmin - tau || e.r > o.rmax + tau)
        return 1;
    if (e.r < o.rmin + tau || e.r > o.rmax - tau || !e.defined)
        return 0;
    ld width = o.tmax - e.t;
    if (o.rb * fabsl(e.dfull) < tau || o.rb * (width - e.dfull) < tau
        || o.rb * (e.dfull - (width - 2 * PI_L)) < tau)
        return 0;
    return e.dfull > 0 ? -1 : 1;
}
static void inv_point(InvO const& o, ld t, ld out[2], ld nrm[2])
{
    ld ang = t + o.a;
    ld X = o.rb * (cosl(ang) + t * sinl(ang));
    ld Y = o.rb * (sinl(ang) - t * cosl(ang));
    ld nx = sinl(ang), ny = -cosl(ang);
    if (o.right)
    {
        X = -X;
        nx = -nx;
    }
    out[0] = X + o.ox;
    out[1] = Y + o.oy;
    nrm[0] = nx;
    nrm[1] = ny;
}

struct ICtx
{
    vf::Run& R;
    std::map<std::string, uint64_t> tags;
    uint64_t evals = 0;
    std::unordered_set<std::string> seen;
    explicit ICtx(vf::Run& r) : R(r) {}
    template<class F>
    void viol(std::string const& sig, std::string const& cid, F&& msg)
    {
        if (seen.insert(sig).second || R.verbose())
            R.violation(sig, cid, msg());
        else
            R.violation(sig, cid, "");
    }
};

static std::string inv_str(Involute const& s)
{
    return "involute data=" + data_str(s);
}

//! Label the cause of a missed crossing by replaying the solver's *documented* bracketing scheme
//! (InvoluteSolver::operator(): brackets 0, beta-a (+k pi), beta = atan(-v/u); a bracket is only
//! searched, for one root, when the root function has different signs at its ends; after a
//! same-sign bracket the next one is pi/i long) in long double.  Used for the signature only.
//!  0: the crossing lies in a bracket that is never searched (same sign at both ends)
//!  1: it lies in a searched bracket that holds several roots (regula falsi returns one)
//!  2: the classification is numerically uncertain
//!  3: it lies in a searched bracket that holds exactly this root  -> a different defect
static int classify_missed(InvO const& o, double const p[3], double const u3[3], ld tlo, ld thi)
{
    ld x = ld(p[0]) - o.ox, y = ld(p[1]) - o.oy, u = u3[0], v = u3[1];
    if (o.right)
    {
        x = -x;
        u = -u;
    }
    ld n = sqrtl(u * u + v * v);
    u /= n;
    v /= n;
    auto f = [&](ld t) {
        ld th = t + o.a;
        return o.rb * ((u * sinl(th) - v * cosl(th)) - t * (u * cosl(th) + v * sinl(th))) + x * v - y * u;
    };
    ld small = 1e-9L * (o.rb * (2 + o.tmax) + fabsl(x) + fabsl(y));
    ld beta = (u != 0) ? atanl(-v / u) : (-v < 0 ? -PI_L / 2 : PI_L / 2);
    ld t_lower = 0, t_upper = beta - o.a;
    t_upper += std::max<ld>(0, -floorl(t_upper / PI_L)) * PI_L;
    int i = 1;
    if (tlo > thi)
        std::swap(tlo, thi);
    for (int it = 0; it < 10000 && t_lower < o.tmax; ++it)
    {
        ld fl = f(t_lower), fu = f(t_upper);
        bool searched = (fl > 0) != (fu > 0) || fl == 0 || fu == 0;
        bool contains_lo = tlo >= t_lower && tlo <= t_upper, contains_hi = thi >= t_lower && thi <= t_upper;
        if (contains_lo || contains_hi)
        {
            if (!(contains_lo && contains_hi))
                return 2;  // straddles a bracket end
            if (fabsl(fl) < small || fabsl(fu) < small)
                return 2;
            if (!searched)
                return 0;
            int changes = 0;
            ld prev = fl;
            for (int k = 1; k <= 256; ++k)
            {
                ld cur = f(t_lower + (t_upper - t_lower) * k / 256);
                if ((cur > 0) != (prev > 0))
                    ++changes;
                prev = cur;
            }
            return changes >= 3 ? 1 : 3;
        }
        if (searched)
        {
            t_lower = t_upper;
            t_upper += PI_L;
        }
        else
        {
            t_lower = t_upper;
            t_upper += PI_L / i;
            ++i;
        }
    }
    return 2;
}

//! Reference copy of the DOCUMENTED root search of InvoluteSolver::operator() (comment block in
//! InvoluteSolver.hh: brackets 0, beta - a (+ k pi), pi/i refinement after a same-sign bracket, one
//! Illinois regula-falsi root per sign-changing bracket, tolerance r_b 1e-8, hit kept when tmin <= t
//! <= tmax and it lies ahead), in double and with the same operation order, so that it takes the
//! same sign decisions as the shipped code.  It is NOT an oracle: it carries the recorded defect
//! (brackets that are not extrema of the root function).  Its only use is attribution of a miss
//! that the independent marching oracle has already proven: a crossing that this scheme loses as
//! well is the recorded known finding; a crossing that this scheme finds but the code under test
//! does not is a different failure and gets its own signature.
//! Returns the smallest 3-D distance the documented scheme reports (infinity if none); hits closer
//! than `drop` (2-D) are ignored, as the documented on-surface rule does.
static double documented_scheme_nearest(InvO const& o, Involute const& s, double const p[3], double const u3[3],
                                        bool on)
{
    auto dat = s.data();
    double const rb = std::fabs(dat[2]), a = dat[3], tmin = dat[4], tmax = dat[5];
    double const pi = constants::pi;
    double x = p[0] - dat[0], y = p[1] - dat[1], u = u3[0], v = u3[1];
    if (o.right)
    {
        x = -x;
        u = -u;
    }
    if (u == 0 && v == 0)
        return INFINITY;
    double convert = 1 / std::sqrt(v * v + u * u);
    u *= convert;
    v *= convert;
    double beta = (u != 0) ? std::atan(-v / u) : (-v < 0 ? pi * -0.5 : pi * 0.5);
    double t_lower = 0, t_upper = beta - a;
    t_upper += std::max(0.0, -std::floor(t_upper / pi)) * pi;
    int i = 1;
    auto f = [&](double t) {
        double al = u * std::sin(t + a) - v * std::cos(t + a);
        double be = t * (u * std::cos(t + a) + v * std::sin(t + a));
        return rb * (al - be) + x * v - y * u;
    };
    auto sgn = [](double z) { return (0 < z) - (z < 0); };
    double const tolr = rb * 1e-8;
    double const drop = on ? rb * 1e-8 * 100 : 0;
    double best = INFINITY;
    int guard = 0;
    while (t_lower < tmax && ++guard < 100000)
    {
        double fl = f(t_lower), fu = f(t_upper);
        if (sgn(fl) != sgn(fu))
        {
            double left = t_lower, right = t_upper, f_left = fl, f_right = fu, f_root = 1, root = 0;
            int side = 0, remaining = 50;
            do
            {
                root = (left * f_right - right * f_left) / (f_right - f_left);
                f_root = f(root);
                if (sgn(f_left) == sgn(f_root))
                {
                    left = root;
                    f_left = f_root;
                    if (side == -1)
                        f_right *= 0.5;
                    side = -1;
                }
                else
                {
                    right = root;
                    f_right = f_root;
                    if (side == 1)
                        f_left *= 0.5;
                    side = 1;
                }
            } while (std::fabs(f_root) > tolr && --remaining > 0);
            double t = root;
            if (t >= tmin && t <= tmax)
            {
                double tt = std::max(t, 0.0);
                double ang = tt + a;
                double px = rb * (std::cos(ang) + tt * std::sin(ang));
                double py = rb * (std::sin(ang) - tt * std::cos(ang));
                double up = px - x, vp = py - y;
                double dot = u * up + v * vp;
                double dist = std::sqrt(up * up + vp * vp) * sgn(dot);
                if (dist > drop)
                    best = std::min(best, convert * dist);
            }
            t_lower = t_upper;
            t_upper += pi;
        }
        else
        {
            t_lower = t_upper;
            t_upper += pi / i;
            ++i;
        }
    }
    return best;
}

static void check_inv_ray(ICtx& cx, Involute const& s, InvO const& o, std::string const& cid,
                          double const p[3], double const u[3], bool on)
{
    ++cx.evals;
    auto res = s.calc_intersections(R3(p), R3(u), on ? SurfaceState::on : SurfaceState::off);
    ld u2 = sqrtl(ld(u[0]) * u[0] + ld(u[1]) * u[1]);
    ld dmin = INFINITY;
    int nf = 0;
    for (int k = 0; k < 3; ++k)
    {
        double d = res[k];
        if (d == no_intersection())
            continue;
        ++nf;
        if (!(d > 0) || !std::isfinite(d))
        {
            cx.viol("involute:distance-not-positive", cid, [&] {
                return inv_str(s) + fmt(" pos=%s dir=%s state=%d distance[%d]=%s", p3(p).c_str(), p3(u).c_str(),
                                        int(on), k, vf::dstr(d).c_str());
            });
            continue;
        }
        dmin = std::min<ld>(dmin, d);
        // documented (InvoluteSolver.hh, tol_point): started ON the curve, hits whose in-plane distance
        // is below 100 tol r_b = 1e-6 r_b are the start point itself and are dropped.  The start points
        // used with state 'on' are on the curve to 1 ulp and the curve does not come back within
        // 2 pi r_b of itself, so an in-plane distance below 1e-7 r_b (ten times under the documented
        // cut, far above the 1e-16 rounding of the product) can only be the start point's own root
        if (on && ld(d) * u2 < 1e-7L * o.rb)
        {
            cx.tags["inv:on-surface-self-hit"]++;
            cx.viol("involute:on-surface-self-hit", cid, [&] {
                return inv_str(s)
                       + fmt(" pos=%s dir=%s state=on distance[%d]=%s: in-plane distance %Lg is below 1e-7 r_b "
                             "(documented: hits within 1e-6 r_b of an on-surface start are not reported)",
                             p3(p).c_str(), p3(u).c_str(), k, vf::dstr(d).c_str(), ld(d) * u2);
            });
            continue;
        }
        ld hx = ld(p[0]) + ld(d) * u[0], hy = ld(p[1]) + ld(d) * u[1];
        InvEval e = inv_eval(o, hx, hy);
        ld scale = fabsl(ld(p[0]) - o.ox) + fabsl(ld(p[1]) - o.oy) + d + o.rb * (1 + o.tmax);
        ld tau = 3e-8L * o.rb + KT * EPS * scale;
        bool onc = e.defined ? (o.rb * fabsl(e.dsym) <= tau) : (o.rb - e.r <= tau && o.tmin == 0);
        bool inb = e.r >= o.rmin - 2 * tau && e.r <= o.rmax + 2 * tau;
        if (!e.defined)
        {
            // inside the base circle by rounding: only the curve start t = 0 can be there
            ld st[2], nn[2];
            inv_point(o, 0, st, nn);
            onc = hypotl(hx - st[0], hy - st[1]) <= tau;
        }
        if (!onc || !inb)
        {
            cx.viol("involute:intersection-not-on-surface", cid, [&] {
                return inv_str(s)
                       + fmt(" pos=%s dir=%s state=%s distance[%d]=%s: point (%.17Lg,%.17Lg) has r=%.17Lg "
                             "(bounds %.17Lg..%.17Lg) t=%Lg normal distance to curve %Lg (tol %Lg)",
                             p3(p).c_str(), p3(u).c_str(), on ? "on" : "off", k, vf::dstr(d).c_str(), hx, hy,
                             e.r, o.rmin, o.rmax, e.t, o.rb * e.dsym, tau);
            });
            continue;
        }
        cx.tags["inv:hit-on-curve"]++;
        // --- flip
        ld cp[2], nn[2];
        inv_point(o, e.t, cp, nn);
        ld cosn = fabsl(u[0] * nn[0] + u[1] * nn[1]);  // per unit 3-D path length
        ld taus = 1e-6L * (o.rb + e.r);
        if (cosn > 0.05L * u2 && cosn > 0 && e.r > o.rmin + 50 * taus && e.r < o.rmax - 50 * taus)
        {
            ld h = 4 * taus / cosn;
            double pm[3] = {double(ld(p[0]) + (d - h) * u[0]), double(ld(p[1]) + (d - h) * u[1]),
                            double(ld(p[2]) + (d - h) * u[2])};
            double pp[3] = {double(ld(p[0]) + (d + h) * u[0]), double(ld(p[1]) + (d + h) * u[1]),
                            double(ld(p[2]) + (d + h) * u[2])};
            int om = inv_sense(o, pm[0], pm[1]), op = inv_sense(o, pp[0], pp[1]);
            if (om != 0 && op != 0 && om != op)
            {
                int cm = int(s.calc_sense(R3(pm))), cp2 = int(s.calc_sense(R3(pp)));
                cx.evals += 2;
                cx.tags["inv:flip-checked"]++;
                if (cm != om || cp2 != op)
                    cx.viol("involute:sense-does-not-flip", cid, [&] {
                        return inv_str(s)
                               + fmt(" pos=%s dir=%s distance[%d]=%s: calc_sense before/after=%d/%d expected %d/%d",
                                     p3(p).c_str(), p3(u).c_str(), k, vf::dstr(d).c_str(), cm, cp2, om, op);
                    });
            }
            else
                cx.tags["inv:flip-skipped"]++;
        }
        else
            cx.tags["inv:flip-skipped"]++;
    }
    cx.tags[on ? (nf ? "inv:on-surface-roots" : "inv:on-surface-none")
               : (nf == 0   ? "inv:no-root"
                  : nf == 1 ? "inv:one-root"
                  : nf == 2 ? "inv:two-roots"
                            : "inv:three-roots")]++;
    if (u2 == 0)
    {
        cx.tags["inv:along-z"]++;
        return;
    }
    // --- marching search for a crossing before the nearest returned distance
    {
        ld step = o.rb / 16 / u2;  // 3-D path length giving r_b/16 in the plane
        // distance at which the ray leaves the outer circle for good
        ld X0 = ld(p[0]) - o.ox, Y0 = ld(p[1]) - o.oy;
        ld ux = u[0] / u2, uy = u[1] / u2;
        ld bq = X0 * ux + Y0 * uy, cq = X0 * X0 + Y0 * Y0 - o.rmax * o.rmax;
        ld disc = bq * bq - cq;
        if (disc <= 0)
            return;
        ld s_end = (-bq + sqrtl(disc)) / u2;
        if (!(s_end > 0))
            return;
        ld s_begin = std::max<ld>(0, (-bq - sqrtl(disc)) / u2);
        long k0 = (long)ceill(s_begin / step);
        if (on)
            k0 = std::max<long>(k0, 1);
        long k1 = (long)floorl(std::min<ld>(s_end, dmin) / step);
        if (k1 - k0 > 4000)
            k1 = k0 + 4000;
        ld taum = 1e-3L * o.rb;
        bool prev_ok = false;
        ld prev_g = 0, prev_t = 0;
        for (long k = k0; k <= k1; ++k)
        {
            ld sk = k * step;
            InvEval e = inv_eval(o, ld(p[0]) + sk * u[0], ld(p[1]) + sk * u[1]);
            bool ok = e.defined && e.r > o.rmin + taum && e.r < o.rmax - taum && fabsl(e.dsym) < 1
                      && o.rb * fabsl(e.dsym) > 1e-6L * (o.rb + e.r);
            if (ok && prev_ok && (e.dsym > 0) != (prev_g > 0))
            {
                cx.tags["inv:march-crossing-found"]++;
                // self-consistency: the real calc_sense must itself flip between the two samples
                double qa[3] = {double(ld(p[0]) + (sk - step) * u[0]), double(ld(p[1]) + (sk - step) * u[1]),
                                double(ld(p[2]) + (sk - step) * u[2])};
                double qb[3] = {double(ld(p[0]) + sk * u[0]), double(ld(p[1]) + sk * u[1]),
                                double(ld(p[2]) + sk * u[2])};
                int oa = inv_sense(o, qa[0], qa[1]), ob = inv_sense(o, qb[0], qb[1]);
                int ca = int(s.calc_sense(R3(qa))), cb = int(s.calc_sense(R3(qb)));
                cx.evals += 2;
                bool confirmed = oa != 0 && ob != 0 && oa != ob && ca == oa && cb == ob;
                if (!confirmed)
                    cx.tags["inv:march-crossing-unconfirmed"]++;
                if (confirmed && sk < dmin - 1e-6L * (o.rb + e.r))
                {
                    cx.tags["inv:march-crossing-missed-by-solver"]++;
                    // "involute:missed-nearer-crossing" is reserved for the recorded cause: the
                    // bracketing points are not the extrema of the root function, so a bracket can
                    // hold two roots (same sign at its ends: never searched) or three (one found)
                    ld tstar = e.t;
                    {
                        // bisect the path length for a1 - a == 0 to get the crossing's parameter
                        ld slo = sk - step, shi = sk, glo = prev_g;
                        for (int it = 0; it < 40; ++it)
                        {
                            ld sm = (slo + shi) / 2;
                            InvEval em = inv_eval(o, ld(p[0]) + sm * u[0], ld(p[1]) + sm * u[1]);
                            if ((em.dsym > 0) == (glo > 0))
                                slo = sm;
                            else
                                shi = sm;
                            tstar = em.t;
                        }
                    }
                    (void)prev_t;
                    int cause = classify_missed(o, p, u, tstar, tstar);
                    static char const* const cause_tag[] = {"inv:missed:bracket-not-searched(same-sign-ends)",
                                                            "inv:missed:bracket-with-several-roots",
                                                            "inv:missed:cause-uncertain",
                                                            "inv:missed:single-root-bracket"};
                    cx.tags[cause_tag[cause]]++;
                    // attribution (see documented_scheme_nearest): "involute:missed-nearer-crossing" is
                    // kept for crossings that the documented bracketing scheme itself loses
                    double dref = documented_scheme_nearest(o, s, p, u, on);
                    bool scheme_loses_it_too = sk < ld(dref) - 1e-6L * (o.rb + e.r);
                    cx.tags[scheme_loses_it_too ? "inv:missed:documented-scheme-loses-it-too"
                                                : "inv:missed:documented-scheme-finds-it"]++;
                    char const* sig = !scheme_loses_it_too ? "involute:missed-crossing-that-documented-scheme-finds"
                                      : cause == 3         ? "involute:missed-crossing-inside-searched-bracket"
                                                           : "involute:missed-nearer-crossing";
                    cx.viol(sig,
                            cid, [&] {
                        return inv_str(s)
                               + fmt(" pos=%s dir=%s state=%s: a1-a changes sign between path lengths %.12Lg and "
                                     "%.12Lg (%.3Lg -> %.3Lg, t=%.6Lg inside bounds %.6Lg..%.6Lg) and calc_sense "
                                     "flips %d -> %d there, but the nearest returned distance is %Lg",
                                     p3(p).c_str(), p3(u).c_str(), on ? "on" : "off", sk - step, sk, prev_g,
                                     e.dsym, e.t, o.tmin, o.tmax, ca, cb, dmin);
                    });
                }
                break;
            }
            prev_ok = ok;
            prev_g = e.dsym;
            prev_t = e.t;
        }
        cx.tags["inv:march-done"]++;
    }
}

static void check_involute(ICtx& cx, Involute const& s, std::string const& cid, bool thorough)
{
    InvO o = derive_inv(s);
    // ---- directions
    std::vector<Dir> dirs;
    {
        int const ij[][2] = {{1, 0}, {0, 1}, {-1, 0}, {0, -1}, {1, 1}, {-1, 1}, {1, -1}, {-1, -1},
                             {1, 2}, {2, 1}, {-1, 2}, {-2, 1}, {1, -2}, {2, -1}, {-1, -2}, {-2, -1}};
        for (auto const& d : ij)
            for (ld w : {0.0L, 0.5L})
            {
                if (w != 0 && !thorough && (d[0] + 2 * d[1]) % 3 == 0)
                    continue;
                ld v[3] = {ld(d[0]), ld(d[1]), w * sqrtl(ld(d[0] * d[0] + d[1] * d[1]))};
                Dir dd;
                normalize(v, dd.u);
                dirs.push_back(dd);
            }
        dirs.push_back(Dir{{0, 0, 1}});
    }
    // ---- off-curve lattice points (relative to the origin, scaled with r_b)
    std::vector<double> lat = thorough ? std::vector<double>{-6, -4, -2.5, -1.5, -0.75, -0.25, 0, 0.5, 1, 1.5, 3, 5}
                                       : std::vector<double>{-6, -2.5, -1.5, -0.5, 0, 0.75, 1.5, 3};
    for (double lx : lat)
        for (double ly : lat)
        {
            double p[3] = {double(o.ox + lx * o.rb), double(o.oy + ly * o.rb), 0.25};
            InvEval e;
            int want = inv_sense(o, p[0], p[1], &e);
            if (want == 0)
            {
                cx.tags["inv:pos-ambiguous"]++;
                continue;
            }
            ++cx.evals;
            int code = int(s.calc_sense(R3(p)));
            cx.tags[want < 0 ? "inv:sense-inside" : "inv:sense-outside"]++;
            if (code != want)
            {
                cx.viol("involute:sense", cid, [&] {
                    return inv_str(s)
                           + fmt(" pos=%s calc_sense=%d expected %d (r=%Lg t=%Lg a1-a=%Lg, bounds t in [%Lg,%Lg])",
                                 p3(p).c_str(), code, want, e.r, e.t, e.dfull, o.tmin, o.tmax);
                });
            }
            for (Dir const& d : dirs)
                check_inv_ray(cx, s, o, cid, p, d.u, false);
        }
    // ---- on-curve points
    int const nk = thorough ? 16 : 8;
    for (int k = 1; k < nk; ++k)
    {
        ld t = o.tmin + (o.tmax - o.tmin) * k / nk;
        ld c[2], n[2];
        inv_point(o, t, c, n);
        double p[3] = {double(c[0]), double(c[1]), -0.5};
        // normal
        if (t > 0.1L)
        {
            ++cx.evals;
            Real3 nn = s.calc_normal(R3(p));
            // expected normal at the *rounded* point (its own t from r), so that only the code's
            // rounding remains: t is recomputed from r, dt = eps (1+t^2)/t ; angle t + a
            {
                InvEval er = inv_eval(o, p[0], p[1]);
                ld cc[2];
                inv_point(o, er.t, cc, n);
            }
            ld tol = 16 * EPS * ((1 + t * t) / t + t + fabsl(o.a) + 1);
            ld len = sqrtl(ld(nn[0]) * nn[0] + ld(nn[1]) * nn[1] + ld(nn[2]) * nn[2]);
            cx.tags["inv:normal-checked"]++;
            if (!(fabsl(len - 1) <= 8 * EPS) || !(fabsl(nn[0] - n[0]) <= tol) || !(fabsl(nn[1] - n[1]) <= tol)
                || nn[2] != 0)
                cx.viol("involute:normal", cid, [&] {
                    return inv_str(s)
                           + fmt(" pos=%s (t=%Lg) calc_normal=(%.17g,%.17g,%.17g) expected (%.17Lg,%.17Lg,0)",
                                 p3(p).c_str(), t, nn[0], nn[1], nn[2], n[0], n[1]);
                });
        }
        // either side of the curve
        for (int sgn : {1, -1})
        {
            ld del = 1e-3L * o.rb * sgn;
            double q[3] = {double(c[0] + del * n[0]), double(c[1] + del * n[1]), 2.0};
            int want = inv_sense(o, q[0], q[1]);
            if (want == 0)
                continue;
            ++cx.evals;
            cx.tags["inv:sense-near-curve"]++;
            int code = int(s.calc_sense(R3(q)));
            if (code != want || want != sgn)
                cx.viol("involute:sense", cid, [&] {
                    return inv_str(s)
                           + fmt(" pos=%s is 1e-3 r_b on the %s side of P(t=%Lg): calc_sense=%d oracle=%d",
                                 p3(q).c_str(), sgn > 0 ? "outward-normal" : "inward", t, code, want);
                });
        }
        for (Dir const& d : dirs)
            check_inv_ray(cx, s, o, cid, p, d.u, true);
    }
    // ---- translation
    for (auto const& tv : std::vector<std::array<double, 3>>{{1, -2, 0.5}, {-0.25, 0, 3}, {1e3, 1e3, 0}})
    {
        Translation tr{Real3{tv[0], tv[1], tv[2]}};
        Involute s2 = ::celeritas::detail::SurfaceTranslator{tr}(s);
        for (double lx : lat)
            for (double ly : lat)
            {
                double p[3] = {double(o.ox + lx * o.rb), double(o.oy + ly * o.rb), 0.25};
                int want = inv_sense(o, p[0], p[1]);
                Real3 x2 = tr.transform_up(R3(p));
                // the translated point is rounded: recompute the oracle there with the shifted origin
                InvO o2 = o;
                o2.ox += tv[0];
                o2.oy += tv[1];
                int want2 = inv_sense(o2, x2[0], x2[1]);
                if (want == 0 || want2 != want)
                    continue;
                ++cx.evals;
                cx.tags["inv:translated-sense"]++;
                int code = int(s2.calc_sense(x2));
                // "involute:translated-surface-has-different-point-set" is reserved for the recorded
                // cause: a clockwise involute whose stored displacement angle is changed by the
                // translator (pi - a applied twice); anything else gets another signature
                bool recorded_cause = o.right && s2.data()[3] != s.data()[3];
                if (code != want)
                    cx.viol(recorded_cause ? "involute:translated-surface-has-different-point-set"
                                           : "involute:translation-changes-point-set",
                            cid, [&] {
                        return inv_str(s)
                               + fmt(" translation=(%g,%g,%g) -> data'=%s: x=%s sense %d, translated sense %d", tv[0],
                                     tv[1], tv[2], data_str(s2).c_str(), p3(p).c_str(), want, code);
                    });
            }
    }
}
}  // namespace

int part_inv(vf::Run& R)
{
    bool const th = R.thorough();
    ICtx cx(R);
    double const pi = double(PI_L);
    std::vector<std::array<double, 2>> origins = {{0, 0}, {1, -0.5}};
    std::vector<double> rbs = {0.5, 1, 2};
    std::vector<std::array<double, 2>> tb
        = {{0, 1.5}, {0, 1.99 * pi}, {0.5, 4}, {1, 3}, {2, 4}, {1.732050808, 1.732050808 + 1.99 * pi}};
    if (th)
    {
        origins.push_back({-1e2, 3e1});
        rbs.push_back(0.125);
        rbs.push_back(10);
        tb.push_back({0, 0.25});
        tb.push_back({3, 9});
        tb.push_back({6, 6.5});
    }
    uint64_t g = 0;
    for (auto const& org : origins)
        for (double rb : rbs)
            for (int chir = 0; chir < 2; ++chir)
            {
                // clockwise involutes store pi - a, and InvolutePoint expects a >= 0: a <= pi
                std::vector<double> as = {0, 0.2 * pi, 0.5 * pi, pi};
                if (chir == 0)
                    as.push_back(1.5 * pi);
                if (th)
                {
                    as.push_back(0.9 * pi);
                    if (chir == 0)
                        as.push_back(2 * pi);
                }
                for (double a : as)
                    for (auto const& b : tb)
                    {
                        uint64_t idx = g++;
                        if (!R.mine(idx))
                            continue;
                        std::string cid = fmt("inv#%llu", (unsigned long long)idx);
                        if (!R.want(cid))
                            continue;
                        if (R.expired())
                            break;
                        R.begin_case(cid, 120);
                        Involute inv{{org[0], org[1]}, rb, a, chir ? Chirality::right : Chirality::left, b[0], b[1]};
                        check_involute(cx, inv, cid, th);
                        R.nontrivial(vf::hash_str(cid));
                        R.count("surfaces:involute");
                        R.end_case();
                    }
            }
    for (auto const& kv : cx.tags)
        R.tag(kv.first, kv.second);
    R.count("evaluations", cx.evals);
    R.sample("involute origin (1,-0.5) r_b=2 a=pi/2 ccw t in [1,3]: 8x8 lattice x 25 directions + 7 on-curve points");
    R.sample("involute r_b=0.5 a=0.2pi cw t in [0,1.99pi]: rays from on-curve points with state=on");
    return 0;
}
