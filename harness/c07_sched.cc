// C07 part "sched" - exhaustive exploration of thread schedules (engine E3).
//
// T in {2,3} threads, each: construct its Stepper (stream t) on ONE shared CoreParams (step
// collector + recorder or SimpleCalo, ActionDiagnostic, StepDiagnostic attached; variants with
// re-indexing by particle type / by action, a field+MSC along-step and the StatusChecker, see
// c07_common.hh), then transport its events.
// Exactly one thread runs at a time (engine/sched.hh); at every scheduling point - the
// CELERITAS_VERIF yield hooks before each begin-run / step action, around the lazy
// StreamStore allocation, inside host "atomic" read-modify-writes, and every pthread mutex
// operation - the explorer decides who continues.  ALL schedules with at most B deviations
// (preemptions) from "run the current thread on" are executed, for every assignment of the
// events to the streams.  Oracle: per-event step histories and the shared tallies equal the
// serial single-stream run; no deadlock, livelock, exception or crash.
// The atomic read-modify-writes are budgeted per thread AND per kind: the hook is re-tagged
// "atomic-rmw@<action>" while a tallying action (ActionDiagnostic, StepDiagnostic, the
// post-step gather that feeds SimpleCalo) runs, so that the thread-private atomics (track-id
// counter, secondary stack) cannot use up the scheduling points of the shared tallies.
#include <thread>

#include "corecel/sys/VerifHooks.hh"
#include "engine/sched.hh"
#include "harness/c07_common.hh"

// Which step action a thread is executing: the "step-action" hook fires before every action
// of the (identical, never skipping: slots >= 2) sequence, so counting them modulo the
// sequence length gives the index.
static std::vector<char const*> g_step_action_tag;  // per step action: nullptr or re-tag
static thread_local long tl_step_actions = -1;
static thread_local bool tl_in_step = false;

static void hook(char const* tag)
{
    if (tag[0] == 's' && std::strcmp(tag, "step-action") == 0)
    {
        ++tl_step_actions;
        tl_in_step = true;
    }
    else if (tl_in_step && !g_step_action_tag.empty() && std::strcmp(tag, "atomic-rmw") == 0)
    {
        if (char const* t = g_step_action_tag[size_t(tl_step_actions) % g_step_action_tag.size()])
            tag = t;
    }
    vf::sched::point(tag);
}

// the step-action sequence of a problem in execution order (order(), then action id), as
// ActionSequence builds it; entries: the re-tag for atomics inside tallying actions
static std::vector<char const*> step_action_tags(LoopProblem const& P)
{
    auto const& reg = *P.core->action_reg();
    std::vector<std::tuple<int, unsigned, std::string>> seq;
    for (auto aid : range(ActionId{reg.num_actions()}))
        if (auto const* a = dynamic_cast<CoreStepActionInterface const*>(reg.action(aid).get()))
            seq.emplace_back(int(a->order()), aid.unchecked_get(), std::string(reg.id_to_label(aid)));
    std::sort(seq.begin(), seq.end());
    std::vector<char const*> out;
    for (auto const& t : seq)
    {
        std::string const& l = std::get<2>(t);
        out.push_back(l == "action-diagnostic" ? "atomic-rmw@action-diagnostic"
                      : l == "step-diagnostic" ? "atomic-rmw@step-diagnostic"
                      : l == "step-gather-post" ? "atomic-rmw@step-gather-post"
                                                : nullptr);
    }
    return out;
}

struct Case
{
    unsigned T;
    std::vector<unsigned> assign;
};

struct ExecResult
{
    std::vector<uint64_t> hashes;
    std::vector<char> ok;
    std::vector<std::string> errs;
    Tallies tal;
    bool deadlock{false}, livelock{false};
    uint64_t points{0}, switches{0};
};

static ExecResult execute(Variant const& v, Case const& cs, unsigned slots, Choices& c)
{
    ExecResult out;
    auto P = make_problem(v, cs.T, slots);
    out.hashes.assign(cs.assign.size(), 0);
    out.ok.assign(cs.assign.size(), 1);
    out.errs.resize(cs.T);
    vf::sched::begin(int(cs.T), &c);
    g_step_action_tag = step_action_tags(*P);
    auto body = [&](unsigned t) {
        tl_step_actions = -1;
        tl_in_step = false;
        vf::sched::thread_begin(int(t));
        try
        {
            auto st = P->make_stepper(t);
            for (unsigned e = 0; e < cs.assign.size(); ++e)
                if (cs.assign[e] == t)
                {
                    bool ok;
                    out.hashes[e] = transport(*P, *st, t, e, &ok);
                    out.ok[e] = ok;
                }
        }
        catch (std::exception const& ex)
        {
            out.errs[t] = ex.what();
        }
        vf::sched::thread_end();
    };
    std::vector<std::thread> th;
    for (unsigned t = 0; t < cs.T; ++t)
        th.emplace_back(body, t);
    vf::sched::run_all();
    out.deadlock = vf::sched::g.deadlock;
    out.livelock = vf::sched::g.livelock;
    out.points = vf::sched::g.total_points;
    out.switches = vf::sched::g.switches;
    if (out.deadlock)
    {
        // parked threads cannot be joined: this execution is reported and the process ends
        for (auto& t : th)
            t.detach();
        return out;
    }
    for (auto& t : th)
        t.join();
    out.tal = tallies(*P);
    return out;
}

int main(int argc, char** argv)
{
    vf::Run R(argc, argv, "C07", "c07_sched");
    bool const thorough = R.thorough();
    celeritas::verif::g_yield = &hook;
    auto& budget = vf::sched::g.tag_budget;
    // per-thread budgets of the hot scheduling points; "small" = quick tier
    auto set_budgets = [&](bool large) {
        budget["begin-run-action"] = 1000;
        budget["streamstore-state-check"] = 6;
        budget["streamstore-state-alloc"] = 6;
        budget["mutex-lock"] = 40;
        budget["mutex-unlock"] = 40;
        budget["step-action"] = large ? 60 : 30;
        budget["atomic-rmw"] = large ? 16 : 8;
        // shared tallies: their own budgets (see hook())
        budget["atomic-rmw@action-diagnostic"] = large ? 8 : 4;
        budget["atomic-rmw@step-diagnostic"] = large ? 8 : 4;
        budget["atomic-rmw@step-gather-post"] = large ? 8 : 4;
    };
    // passes: quick    = <= 1 preemption, small budgets
    //         thorough = <= 2 preemptions with the small budgets for the two-thread roots,
    //                    and <= 1 preemption with the doubled budgets for all roots
    struct Pass
    {
        int bound;
        bool large;
        bool only_two_threads;
    };
    std::vector<Pass> passes;
    if (thorough)
        passes = {{2, false, true}, {1, true, false}};
    else
        passes = {{1, false, false}};
    set_budgets(false);

    std::vector<Variant> variants = all_variants();
    std::vector<Case> cases;
    for (unsigned T : {2u, 3u})
    {
        unsigned nev = T == 2 ? 3 : 3;
        unsigned n = 1;
        for (unsigned i = 0; i < nev; ++i)
            n *= T;
        for (unsigned code = 0; code < n; ++code)
        {
            std::vector<unsigned> a;
            unsigned c = code;
            std::set<unsigned> used;
            for (unsigned i = 0; i < nev; ++i)
            {
                a.push_back(c % T);
                used.insert(c % T);
                c /= T;
            }
            if (used.size() < 2)
                continue;  // a single busy stream has nothing to interleave with
            if (!thorough && T == 3 && used.size() < 3)
                continue;
            cases.push_back({T, a});
        }
    }
    unsigned const slots = 2;
    // serial warm-up: initialise every function-local static before scheduling threads
    for (auto const& v : variants)
    {
        auto Ps = make_problem(v, 1, slots);
        auto st = Ps->make_stepper(0);
        bool ok;
        transport(*Ps, *st, 0, 0, &ok);
        for (char const* t : step_action_tags(*Ps))
            if (t)
                R.tag(std::string("variant-has:") + v.name + ":" + t);
    }
    uint64_t outer = 0;
    for (auto const& pass : passes)
    for (auto const& v : variants)
        for (auto const& cs : cases)
        {
            if (pass.only_two_threads && cs.T != 2)
                continue;
            if (!R.mine(outer++))
                continue;
            if (R.expired())
                break;
            int const bound = pass.bound;
            set_budgets(pass.large);
            std::string aid;
            for (unsigned s : cs.assign)
                aid += std::to_string(s);
            std::string root = fmt("sched:%s:T=%u:assign=%s:B%d%s", v.name, cs.T, aid.c_str(),
                                   bound, pass.large ? "L" : "S");
            if (R.replay() && R.replay_case().compare(0, root.size() + 1, root + "|") != 0)
                continue;
            // serial reference
            std::vector<uint64_t> ref(cs.assign.size());
            Tallies ser;
            {
                auto Ps = make_problem(v, 1, slots);
                auto st = Ps->make_stepper(0);
                for (unsigned e = 0; e < cs.assign.size(); ++e)
                {
                    bool ok;
                    ref[e] = transport(*Ps, *st, 0, e, &ok);
                    if (!ok)
                        R.harness_error("serial reference does not complete");
                }
                ser = tallies(*Ps);
            }
            // watchdog per execution (one schedule), not per root: a root with bound 2 and
            // three threads is a long enumeration, a single schedule is milliseconds
            ExploreStats st;
            ExecResult er;
            auto body = [&](Choices& c) {
                R.begin_case(root + "|" + choices_to_string(c.prefix()), 120);
                er = execute(v, cs, slots, c);
                R.end_case();
            };
            auto on_exec = [&](Choices const& c) {
                R.count("evaluations");
                R.count("transitions", er.switches + 1);
                R.count("scheduling_points", er.points);
                std::string cid = root + "|" + choices_to_string(c.chosen());
                if (er.deadlock)
                {
                    R.violation("sched:deadlock", cid, "no enabled thread while some are unfinished");
                    return false;  // parked threads: stop this shard cleanly
                }
                if (er.livelock)
                    R.violation("sched:livelock", cid, "scheduling-point horizon exceeded");
                for (unsigned t = 0; t < cs.T; ++t)
                    if (!er.errs[t].empty())
                        R.violation("sched:exception", cid, er.errs[t]);
                for (unsigned e = 0; e < cs.assign.size(); ++e)
                {
                    if (!er.ok[e])
                        R.violation("sched:event-does-not-complete", cid, fmt("event %u", e));
                    else if (!v.calo && er.hashes[e] != ref[e])
                        R.violation("sched:event-differs-from-serial", cid,
                                    fmt("%s: event %u on stream %u differs from the serial run under "
                                        "schedule [%s]",
                                        root.c_str(), e, cs.assign[e],
                                        choices_to_string(c.chosen()).c_str()));
                }
                if (er.tal.actions != ser.actions)
                    R.violation("sched:action-diagnostic-differs-from-serial", cid,
                                fmt("%s schedule [%s]", root.c_str(), choices_to_string(c.chosen()).c_str()));
                if (er.tal.steps != ser.steps)
                    R.violation("sched:step-diagnostic-differs-from-serial", cid,
                                fmt("%s schedule [%s]", root.c_str(), choices_to_string(c.chosen()).c_str()));
                for (size_t d = 0; d < er.tal.calo.size(); ++d)
                    if (std::fabs(er.tal.calo[d] - ser.calo[d]) > 1e-11 * (1 + std::fabs(ser.calo[d])))
                        R.violation("sched:calorimeter-differs-from-serial", cid,
                                    fmt("detector %zu: %.17g vs %.17g", d, er.tal.calo[d], ser.calo[d]));
                uint64_t h = hash_str(root);
                for (int x : c.chosen())
                    h = hash_mix(h, uint64_t(x) + 1);
                R.state(h);
                R.outcome(hash_mix(er.hashes.empty() ? 0 : er.hashes[0], er.tal.actions.size()));
                if (c.deviations() > 0)
                    R.nontrivial(h);
                R.maxi("max_choice_points", c.points().size());
                for (unsigned t = 0; t < cs.T; ++t)
                    for (auto const& kv : vf::sched::g.tag_seen[t])
                        if (kv.first.find('@') != std::string::npos)
                            R.maxi(("per_thread_points_seen:" + kv.first).c_str(), kv.second);
                return !((st.executions & 15) == 0 && R.expired());
            };
            if (R.replay())
            {
                std::string rc = R.replay_case();
                Choices c(choices_from_string(rc.substr(root.size() + 1)));
                vf::sched::g.keep_trace = true;
                body(c);
                on_exec(c);
                for (auto const& s : vf::sched::g.trace)
                    fprintf(stderr, "  %s\n", s.c_str());
            }
            else
                explore(body, on_exec, bound, &st);
            R.count("roots");
        }
    R.note("preemption_bound", thorough ? "2 (two threads, small budgets) / 1 (all roots, doubled budgets)"
                                        : "1");
    R.sample("sched:rec:T=2:assign=010:B1S|0.0.0.1 = two streams (<= 1 preemption, small budgets); events 0,2 on stream 0, event 1 on "
             "stream 1; schedule: run thread 0, preempt it at its 4th scheduling point in favour of "
             "thread 1, then run to completion");
    return R.finish();
}
