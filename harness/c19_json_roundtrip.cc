// C19 - Geometry input survives a JSON round trip unchanged.
//
// Enumerated inputs (every one is a complete OrangeInput "a"):
//   file:*   every bundled *.org.json under test/geocel/data and test/orange/data (read with the
//            real reader; legacy SCALE-format files included)
//   ib:*     geometries built through the construction API (orangeinp::UnitProto/InputBuilder):
//            leaf solid x object transform x placement (global explicit / background / daughter
//            at depth 1..3 under each daughter transform) x tolerance x label style
//   row:*    hand-written global unit containing EVERY surface type (one slab per type, split by
//            the surface) x numeric-value variant x volume-bbox kind
//   arr:*    hand-written RectArrayInput universes (nx,ny,nz in {1,2,3}^3, non-uniform grids,
//            distinct daughters per cell, direct / via intermediate unit / nested array)
//   lat:*    hand-written VolumeInput field lattice: zorder x bbox kind, and inside each unit
//            flags x logic-token strings x labels, plus a daughter map with every transform type
//            (structure-only: no navigation because such units are not consistent geometries)
//            volume bbox kinds include half spaces; unit bbox kinds finite / unbounded along one
//            axis / half space / infinite; lat:empty-logic,* = one volume with empty logic that is
//            valid through implicit_vol
//   ext:*    extreme doubles (denormal, -0.0, 1e+-300, 17 significant digits) in surface data,
//            bboxes, grids, transforms, tolerances; array cells with tiny NON-zero translations
//            (all components tiny / one tiny / denormal) next to exact and negative zero
//            (structure-only)
//   legacy:* literal JSON texts in the legacy spellings that only the reader knows (see
//            problems/c19_legacy.hh): decoded by cmp_raw and compared with the reader's result,
//            then round trip + navigation; four patched copies of text 1 for the envelope:
//            "_units" native (reads like the original), "_units" foreign (the reader must throw),
//            "_format": "orange", and no cell_names / surface_names keys at all
//
// Oracles on every input:
//   (a) a -> json -> dump() -> parse -> from_json -> b; own deep comparison of a and b on the
//       fields the JSON schema carries (doubles bit-equal). Reader normalisations that are
//       written down in OrangeInputIO.json.cc are applied to the expectation:
//         - background volumes (zorder B): logic := {true,not}, bbox := null
//         - a rect-array daughter with Translation{0,0,0} reads back as NoTransformation
//       NOT compared because the schema does not carry them: VolumeInput::obz.
//   (b) dump(json(b)) == dump(json(a)) (textual fixpoint); b -> c is exactly equal to b;
//       operator<< / operator>> (dump(0) path) gives the same b.
//   (c) OrangeParams(a) and OrangeParams(b): same labels/ids/bbox/depth, and on a deterministic
//       ray set (jittered lattice of start points in the world bbox x direction set) identical
//       volume / surface / level sequences and bit-identical distances, positions and safeties.
//   (e) families file, row, arr, legacy: the text stored as <tmp>/<name>.org.json and loaded with
//       OrangeParams("<name>.org.json") / OrangeParams("<name>.gdml") (fallback without Geant4)
//       navigates exactly like OrangeParams(a) (signatures "file-entry/..."); the same for a
//       plain "<other>.json" name (not ".org.json").
//   (f) the written text carries "_format": "ORANGE", an integer "_version" and "_units" == the
//       unit system of this build (signatures "writer:header-*").
#include <cmath>
#include <cstring>
#include <filesystem>
#include <fstream>
#include <functional>
#include <limits>
#include <memory>
#include <set>
#include <sstream>
#include <string>
#include <unordered_map>
#include <variant>
#include <vector>
#include <nlohmann/json.hpp>

#include "corecel/Config.hh"
#include "corecel/cont/Range.hh"
#include "corecel/data/CollectionStateStore.hh"
#include "corecel/io/Label.hh"
#include "corecel/math/ArrayUtils.hh"
#include "orange/MatrixUtils.hh"
#include "orange/OrangeData.hh"
#include "orange/OrangeInput.hh"
#include "orange/OrangeInputIO.json.hh"
#include "orange/OrangeParams.hh"
#include "orange/OrangeTrackView.hh"
#include "orange/OrangeTypes.hh"
#include "orange/orangeinp/CsgObject.hh"
#include "orange/orangeinp/InputBuilder.hh"
#include "orange/orangeinp/Shape.hh"
#include "orange/orangeinp/Solid.hh"
#include "orange/orangeinp/Transformed.hh"
#include "orange/orangeinp/UnitProto.hh"
#include "orange/surf/VariantSurface.hh"
#include "orange/transform/VariantTransform.hh"
#include "engine/harness.hh"
#include "problems/c19_programs.hh"

#if __has_include("problems/solid_programs.hh") && defined(C19_USE_SOLID_PROGRAMS)
#    include "problems/solid_programs.hh"
#    define C19_HAVE_SOLID_PROGRAMS 1
#endif

using namespace celeritas;
using vf::fmt;

namespace
{
//---------------------------------------------------------------------------//
// Small helpers
//---------------------------------------------------------------------------//
uint64_t bits(double v)
{
    uint64_t u;
    std::memcpy(&u, &v, sizeof u);
    return u;
}
bool beq(double a, double b)
{
    return bits(a) == bits(b);
}
std::string dd(double v)
{
    return vf::dstr(v) + "(" + vf::hexd(v) + ")";
}

struct Reporter
{
    vf::Run* R;
    std::string cid;
    std::string prefix{};  // prepended to every signature (e.g. "file-entry/")
    void fail(std::string const& sig, std::string const& msg) const
    {
        R->violation(prefix + sig, cid, msg);
    }
};

// Flattened, library-independent views of variants
struct FlatSurface
{
    int type;
    std::vector<double> data;
};
FlatSurface flat(VariantSurface const& s)
{
    return std::visit(
        [](auto const& surf) {
            FlatSurface f;
            f.type = static_cast<int>(surf.surface_type());
            auto d = surf.data();
            f.data.assign(d.begin(), d.end());
            return f;
        },
        s);
}
struct FlatTransform
{
    int index;  // variant index: 0 none, 1 translation, 2 transformation
    std::vector<double> data;
};
FlatTransform flat(VariantTransform const& t)
{
    FlatTransform f;
    f.index = static_cast<int>(t.index());
    std::visit(
        [&f](auto const& tr) {
            auto d = tr.data();
            f.data.assign(d.begin(), d.end());
        },
        t);
    return f;
}
char const* const surf_names[] = {"px", "py", "pz", "cxc", "cyc", "czc", "sc", "cx", "cy",
                                  "cz", "p",  "s",  "kx",  "ky",  "kz",  "sq", "gq", "inv"};
char const* const xform_names[] = {"none", "translation", "transformation"};

std::string vstr(std::vector<double> const& v)
{
    std::string s = "[";
    for (size_t i = 0; i < v.size(); ++i)
        s += (i ? "," : "") + vf::dstr(v[i]);
    return s + "]";
}
bool vec_beq(std::vector<double> const& a, std::vector<double> const& b)
{
    if (a.size() != b.size())
        return false;
    for (size_t i = 0; i < a.size(); ++i)
        if (!beq(a[i], b[i]))
            return false;
    return true;
}

//---------------------------------------------------------------------------//
// (a) deep comparison.  "a" is the original, "b" what was read back.  With strict=true no
// reader normalisation is applied to the expectation (used for b -> c).
//---------------------------------------------------------------------------//
void cmp_label(Reporter const& rp, std::string const& where, Label const& a, Label const& b)
{
    if (a.name != b.name || a.ext != b.ext)
        rp.fail("roundtrip:label",
                fmt("%s: label {'%s','%s'} read back as {'%s','%s'}", where.c_str(),
                    a.name.c_str(), a.ext.c_str(), b.name.c_str(), b.ext.c_str()));
}
std::string bbstr(BBox const& b)
{
    if (!b)
        return "null";
    return fmt("{%s,%s,%s}-{%s,%s,%s}", vf::dstr(b.lower()[0]).c_str(),
               vf::dstr(b.lower()[1]).c_str(), vf::dstr(b.lower()[2]).c_str(),
               vf::dstr(b.upper()[0]).c_str(), vf::dstr(b.upper()[1]).c_str(),
               vf::dstr(b.upper()[2]).c_str());
}
bool bbox_beq(BBox const& a, BBox const& b)
{
    if (bool(a) != bool(b))
        return false;
    if (!a)
        return true;
    for (int k = 0; k < 3; ++k)
        if (!beq(a.lower()[k], b.lower()[k]) || !beq(a.upper()[k], b.upper()[k]))
            return false;
    return true;
}
void cmp_transform(Reporter const& rp,
                   std::string const& where,
                   VariantTransform const& a,
                   VariantTransform const& b,
                   bool array_normalise)
{
    FlatTransform fa = flat(a), fb = flat(b);
    if (array_normalise && fa.index == 1 && fa.data[0] == 0 && fa.data[1] == 0 && fa.data[2] == 0)
    {
        // RectArrayInput reader: make_transform() maps a zero translation to NoTransformation
        fa.index = 0;
        fa.data.clear();
    }
    if (fa.index != fb.index)
        rp.fail("roundtrip:transform-type",
                fmt("%s: transform type %s read back as %s", where.c_str(),
                    xform_names[fa.index], xform_names[fb.index]));
    else if (!vec_beq(fa.data, fb.data))
        rp.fail("roundtrip:transform-data",
                fmt("%s: %s data %s read back as %s", where.c_str(), xform_names[fa.index],
                    vstr(fa.data).c_str(), vstr(fb.data).c_str()));
}

void cmp_unit(Reporter const& rp, size_t ui, UnitInput const& a, UnitInput const& b, bool strict)
{
    std::string const u = fmt("universe %zu ('%s')", ui, a.label.name.c_str());
    cmp_label(rp, u + " unit", a.label, b.label);

    // Unit bbox: written unless null/infinite; absent reads as infinite
    {
        BBox expect = a.bbox;
        if (!strict && !a.bbox)
            expect = BBox::from_infinite();
        if (!bbox_beq(expect, b.bbox))
            rp.fail("roundtrip:unit-bbox",
                    fmt("%s: bbox %s read back as %s", u.c_str(), bbstr(expect).c_str(),
                        bbstr(b.bbox).c_str()));
    }
    // Surfaces
    if (a.surfaces.size() != b.surfaces.size())
        rp.fail("roundtrip:surface-count",
                fmt("%s: %zu surfaces read back as %zu", u.c_str(), a.surfaces.size(),
                    b.surfaces.size()));
    else
        for (size_t i = 0; i < a.surfaces.size(); ++i)
        {
            FlatSurface fa = flat(a.surfaces[i]), fb = flat(b.surfaces[i]);
            if (fa.type != fb.type)
                rp.fail("roundtrip:surface-type",
                        fmt("%s surface %zu: type %s read back as %s", u.c_str(), i,
                            surf_names[fa.type], surf_names[fb.type]));
            else if (!vec_beq(fa.data, fb.data))
                rp.fail(fmt("roundtrip:surface-data[%s]", surf_names[fa.type]),
                        fmt("%s surface %zu (%s): data %s read back as %s", u.c_str(), i,
                            surf_names[fa.type], vstr(fa.data).c_str(), vstr(fb.data).c_str()));
        }
    // Surface labels
    if (a.surface_labels.size() != b.surface_labels.size())
        rp.fail("roundtrip:surface-label-count",
                fmt("%s: %zu surface labels read back as %zu", u.c_str(),
                    a.surface_labels.size(), b.surface_labels.size()));
    else
        for (size_t i = 0; i < a.surface_labels.size(); ++i)
            cmp_label(rp, fmt("%s surface %zu", u.c_str(), i), a.surface_labels[i],
                      b.surface_labels[i]);
    // Volumes
    if (a.volumes.size() != b.volumes.size())
    {
        rp.fail("roundtrip:volume-count",
                fmt("%s: %zu volumes read back as %zu", u.c_str(), a.volumes.size(),
                    b.volumes.size()));
    }
    else
        for (size_t i = 0; i < a.volumes.size(); ++i)
        {
            VolumeInput const& va = a.volumes[i];
            VolumeInput const& vb = b.volumes[i];
            std::string const w = fmt("%s volume %zu", u.c_str(), i);
            cmp_label(rp, w, va.label, vb.label);
            if (va.faces.size() != vb.faces.size()
                || !std::equal(va.faces.begin(), va.faces.end(), vb.faces.begin()))
                rp.fail("roundtrip:faces", fmt("%s: faces differ (%zu vs %zu entries)",
                                               w.c_str(), va.faces.size(), vb.faces.size()));
            if (va.zorder != vb.zorder)
                rp.fail("roundtrip:zorder",
                        fmt("%s: zorder %d read back as %d", w.c_str(), int(va.zorder),
                            int(vb.zorder)));
            if (va.flags != vb.flags)
                rp.fail("roundtrip:flags", fmt("%s: flags %u read back as %u", w.c_str(),
                                               unsigned(va.flags), unsigned(vb.flags)));
            std::vector<logic_int> elogic = va.logic;
            BBox ebbox = va.bbox;
            if (!strict && va.zorder == ZOrder::background)
            {
                // documented in from_json(VolumeInput): background volumes are "nowhere"
                elogic = {logic::ltrue, logic::lnot};
                ebbox = BBox{};
            }
            if (elogic != vb.logic)
            {
                std::string sa, sb;
                for (auto l : elogic)
                    sa += fmt("%u ", unsigned(l));
                for (auto l : vb.logic)
                    sb += fmt("%u ", unsigned(l));
                rp.fail("roundtrip:logic", fmt("%s: logic [%s] read back as [%s]", w.c_str(),
                                               sa.c_str(), sb.c_str()));
            }
            if (!bbox_beq(ebbox, vb.bbox))
                rp.fail("roundtrip:volume-bbox",
                        fmt("%s: bbox %s read back as %s", w.c_str(), bbstr(ebbox).c_str(),
                            bbstr(vb.bbox).c_str()));
        }
    // Daughters
    if (a.daughter_map.size() != b.daughter_map.size())
        rp.fail("roundtrip:daughter-count",
                fmt("%s: %zu daughters read back as %zu", u.c_str(), a.daughter_map.size(),
                    b.daughter_map.size()));
    else
    {
        auto ia = a.daughter_map.begin();
        auto ib = b.daughter_map.begin();
        for (; ia != a.daughter_map.end(); ++ia, ++ib)
        {
            std::string const w = fmt("%s daughter in volume %u", u.c_str(),
                                      unsigned(ia->first.unchecked_get()));
            if (ia->first != ib->first)
                rp.fail("roundtrip:daughter-parent",
                        fmt("%s: parent volume read back as %u", w.c_str(),
                            unsigned(ib->first.unchecked_get())));
            if (ia->second.universe_id != ib->second.universe_id)
                rp.fail("roundtrip:daughter-universe",
                        fmt("%s: universe %u read back as %u", w.c_str(),
                            unsigned(ia->second.universe_id.unchecked_get()),
                            unsigned(ib->second.universe_id.unchecked_get())));
            cmp_transform(rp, w, ia->second.transform, ib->second.transform, false);
        }
    }
}

void cmp_array(Reporter const& rp,
               size_t ui,
               RectArrayInput const& a,
               RectArrayInput const& b,
               bool strict)
{
    std::string const u = fmt("universe %zu (array '%s')", ui, a.label.name.c_str());
    cmp_label(rp, u, a.label, b.label);
    for (int ax = 0; ax < 3; ++ax)
        if (!vec_beq(a.grid[ax], b.grid[ax]))
            rp.fail("roundtrip:array-grid",
                    fmt("%s: grid %c %s read back as %s", u.c_str(), "xyz"[ax],
                        vstr(a.grid[ax]).c_str(), vstr(b.grid[ax]).c_str()));
    if (a.daughters.size() != b.daughters.size())
    {
        rp.fail("roundtrip:array-daughter-count",
                fmt("%s: %zu daughters read back as %zu", u.c_str(), a.daughters.size(),
                    b.daughters.size()));
        return;
    }
    for (size_t i = 0; i < a.daughters.size(); ++i)
    {
        std::string const w = fmt("%s cell %zu", u.c_str(), i);
        if (a.daughters[i].universe_id != b.daughters[i].universe_id)
            rp.fail("roundtrip:array-daughter-universe",
                    fmt("%s: universe %u read back as %u", w.c_str(),
                        unsigned(a.daughters[i].universe_id.unchecked_get()),
                        unsigned(b.daughters[i].universe_id.unchecked_get())));
        cmp_transform(rp, w, a.daughters[i].transform, b.daughters[i].transform, !strict);
    }
}

void cmp_input(Reporter const& rp, OrangeInput const& a, OrangeInput const& b, bool strict)
{
    if (!beq(a.tol.rel, b.tol.rel) || !beq(a.tol.abs, b.tol.abs))
        rp.fail("roundtrip:tolerance",
                fmt("tol {rel=%s,abs=%s} read back as {rel=%s,abs=%s}", dd(a.tol.rel).c_str(),
                    dd(a.tol.abs).c_str(), dd(b.tol.rel).c_str(), dd(b.tol.abs).c_str()));
    if (a.universes.size() != b.universes.size())
    {
        rp.fail("roundtrip:universe-count", fmt("%zu universes read back as %zu",
                                                a.universes.size(), b.universes.size()));
        return;
    }
    for (size_t i = 0; i < a.universes.size(); ++i)
    {
        if (a.universes[i].index() != b.universes[i].index())
        {
            rp.fail("roundtrip:universe-type", fmt("universe %zu changed type", i));
            continue;
        }
        if (auto const* ua = std::get_if<UnitInput>(&a.universes[i]))
            cmp_unit(rp, i, *ua, std::get<UnitInput>(b.universes[i]), strict);
        else
            cmp_array(rp, i, std::get<RectArrayInput>(a.universes[i]),
                      std::get<RectArrayInput>(b.universes[i]), strict);
    }
}

//---------------------------------------------------------------------------//
// (d) independent decoding of a JSON document (current schema as emitted by to_json, plus the
// legacy SCALE spellings found in the bundled files) compared with an OrangeInput.  Used twice:
// writer output vs the input it was written from, and bundled file text vs what the reader
// made of it.  Nothing from OrangeInputIO is used here.
//---------------------------------------------------------------------------//
using Json = nlohmann::json;

bool raw_logic(std::string const& s, std::vector<logic_int>& out)
{
    out.clear();
    for (size_t i = 0; i < s.size();)
    {
        char c = s[i];
        if (c == ' ')
        {
            ++i;
            continue;
        }
        if (c >= '0' && c <= '9')
        {
            unsigned long v = 0;
            while (i < s.size() && s[i] >= '0' && s[i] <= '9')
                v = 10 * v + (s[i++] - '0');
            out.push_back(static_cast<logic_int>(v));
            continue;
        }
        ++i;
        if (c == '*')
            out.push_back(logic::ltrue);
        else if (c == '|')
            out.push_back(logic::lor);
        else if (c == '&')
            out.push_back(logic::land);
        else if (c == '~')
            out.push_back(logic::lnot);
        else
            return false;
    }
    return true;
}
Label raw_label(Json const& j)
{
    std::string s = j.get<std::string>();
    auto pos = s.rfind('@');
    if (pos == std::string::npos)
        return Label{s};
    return Label{s.substr(0, pos), s.substr(pos + 1)};
}
// bbox: absent -> infinite, null -> null, +-DBL_MAX stands for +-inf
BBox raw_bbox(Json const& parent)
{
    auto it = parent.find("bbox");
    if (it == parent.end())
        return BBox::from_infinite();
    if (it->is_null())
        return BBox{};
    Real3 lo, hi;
    for (int k = 0; k < 3; ++k)
    {
        lo[k] = (*it)[0][k].get<double>();
        hi[k] = (*it)[1][k].get<double>();
        for (double* v : {&lo[k], &hi[k]})
            if (std::fabs(*v) == std::numeric_limits<double>::max())
                *v = std::copysign(std::numeric_limits<double>::infinity(), *v);
    }
    return BBox{lo, hi};
}
Json const* raw_find(Json const& j, std::initializer_list<char const*> keys)
{
    for (char const* k : keys)
        if (auto it = j.find(k); it != j.end())
            return &*it;
    return nullptr;
}
void raw_transform(Reporter const& rp,
                   std::string const& sig,
                   std::string const& where,
                   std::vector<double> const& data,
                   bool zero_is_none,
                   VariantTransform const& t)
{
    FlatTransform f = flat(t);
    int index = data.empty() ? 0 : data.size() == 3 ? 1 : 2;
    std::vector<double> d = data;
    if (zero_is_none && index == 1 && d[0] == 0 && d[1] == 0 && d[2] == 0)
    {
        index = 0;
        d.clear();
    }
    if (index != f.index || !vec_beq(d, f.data))
        rp.fail(sig + ":transform", fmt("%s: text has %s %s, input has %s %s", where.c_str(),
                                        xform_names[index], vstr(d).c_str(),
                                        xform_names[f.index], vstr(f.data).c_str()));
}

void cmp_raw(Reporter const& rp, std::string const& sig, Json const& j, OrangeInput const& in)
{
    try
    {
        Tolerance<> tol = Tolerance<>::from_default();
        if (auto it = j.find("tol"); it != j.end())
        {
            tol.rel = it->at("rel").get<double>();
            tol.abs = it->at("abs").get<double>();
        }
        if (!beq(tol.rel, in.tol.rel) || !beq(tol.abs, in.tol.abs))
            rp.fail(sig + ":tolerance",
                    fmt("text has tol {%s,%s}, input has {%s,%s}", vf::dstr(tol.rel).c_str(),
                        vf::dstr(tol.abs).c_str(), vf::dstr(in.tol.rel).c_str(),
                        vf::dstr(in.tol.abs).c_str()));
        if (sig == "writer")
        {
            // (d2) envelope written by to_json: format name, integer version and the unit system
            // of this build (the reader refuses a foreign one - without the key it cannot)
            auto fi = j.find("_format");
            auto vi = j.find("_version");
            auto ui = j.find("_units");
            if (fi == j.end() || !fi->is_string() || fi->get<std::string>() != "ORANGE")
                rp.fail("writer:header-format", "the written text has no \"_format\": \"ORANGE\"");
            if (vi == j.end() || !vi->is_number_integer())
                rp.fail("writer:header-version", "the written text has no integer \"_version\"");
            if (ui == j.end() || !ui->is_string()
                || ui->get<std::string>() != celeritas::to_cstring(celeritas::UnitSystem::native))
                rp.fail("writer:header-units",
                        fmt("the written text does not record the unit system of this build (\"_units\": \"%s\")",
                            celeritas::to_cstring(celeritas::UnitSystem::native)));
        }
        Json const& unis = j.at("universes");
        if (unis.size() != in.universes.size())
        {
            rp.fail(sig + ":universe-count", "number of universes differs");
            return;
        }
        for (size_t ui = 0; ui < unis.size(); ++ui)
        {
            Json const& ju = unis[ui];
            std::string const type = ju.at("_type").get<std::string>();
            std::string const u = fmt("universe %zu", ui);
            Label const lab = raw_label(ju.at("md").at("name"));
            if (type == "unit" || type == "simple unit")
            {
                auto const* unit = std::get_if<UnitInput>(&in.universes[ui]);
                if (!unit)
                {
                    rp.fail(sig + ":universe-type", u + " is a unit in the text only");
                    continue;
                }
                if (lab.name != unit->label.name || lab.ext != unit->label.ext)
                    rp.fail(sig + ":label", u + ": unit label differs");
                if (!bbox_beq(raw_bbox(ju), unit->bbox))
                    rp.fail(sig + ":unit-bbox",
                            fmt("%s: text bbox %s, input %s", u.c_str(),
                                bbstr(raw_bbox(ju)).c_str(), bbstr(unit->bbox).c_str()));
                // surfaces
                Json const& js = ju.at("surfaces");
                auto const types = js.at("types").get<std::vector<std::string>>();
                auto const sizes = js.at("sizes").get<std::vector<size_t>>();
                auto const data = js.at("data").get<std::vector<double>>();
                if (types.size() != unit->surfaces.size() || sizes.size() != types.size())
                    rp.fail(sig + ":surface-count", u + ": number of surfaces differs");
                else
                {
                    size_t off = 0;
                    for (size_t si = 0; si < types.size(); ++si)
                    {
                        FlatSurface f = flat(unit->surfaces[si]);
                        if (off + sizes[si] > data.size())
                        {
                            rp.fail(sig + ":surface-data", u + ": surface data too short");
                            break;
                        }
                        std::vector<double> d(data.begin() + off, data.begin() + off + sizes[si]);
                        off += sizes[si];
                        if (types[si] != surf_names[f.type] || !vec_beq(d, f.data))
                            rp.fail(sig + ":surface",
                                    fmt("%s surface %zu: text has %s %s, input has %s %s",
                                        u.c_str(), si, types[si].c_str(), vstr(d).c_str(),
                                        surf_names[f.type], vstr(f.data).c_str()));
                    }
                    if (off != data.size())
                        rp.fail(sig + ":surface-data", u + ": surface data has extra entries");
                }
                // surface labels
                {
                    std::vector<Label> sl;
                    if (auto const* jl = raw_find(ju, {"surface_labels", "surface_names"}))
                        for (auto const& x : *jl)
                            sl.push_back(raw_label(x));
                    if (sl.size() != unit->surface_labels.size())
                        rp.fail(sig + ":surface-label-count", u + ": surface label count differs");
                    else
                        for (size_t i = 0; i < sl.size(); ++i)
                            if (sl[i].name != unit->surface_labels[i].name
                                || sl[i].ext != unit->surface_labels[i].ext)
                                rp.fail(sig + ":label",
                                        fmt("%s surface label %zu differs", u.c_str(), i));
                }
                // volumes
                Json const* jvols = raw_find(ju, {"volumes", "cells"});
                Json const* jvl = raw_find(ju, {"volume_labels", "cell_names"});
                if (!jvols || jvols->size() != unit->volumes.size())
                    rp.fail(sig + ":volume-count", u + ": number of volumes differs");
                else
                    for (size_t vi = 0; vi < jvols->size(); ++vi)
                    {
                        Json const& jv = (*jvols)[vi];
                        VolumeInput const& v = unit->volumes[vi];
                        std::string const w = fmt("%s volume %zu", u.c_str(), vi);
                        if (jvl && jvl->size() == jvols->size())
                        {
                            Label l = raw_label((*jvl)[vi]);
                            if (l.name != v.label.name || l.ext != v.label.ext)
                                rp.fail(sig + ":label", w + ": volume label differs");
                        }
                        else if (!v.label.name.empty() || !v.label.ext.empty())
                            rp.fail(sig + ":label", w + ": label absent in the text");
                        auto faces = jv.at("faces").get<std::vector<unsigned>>();
                        bool same = faces.size() == v.faces.size();
                        for (size_t k = 0; same && k < faces.size(); ++k)
                            same = faces[k] == v.faces[k].unchecked_get();
                        if (!same)
                            rp.fail(sig + ":faces", w + ": faces differ");
                        unsigned flags = jv.value("flags", 0u);
                        if (flags != v.flags)
                            rp.fail(sig + ":flags", fmt("%s: text flags %u, input %u", w.c_str(),
                                                        flags, unsigned(v.flags)));
                        ZOrder zo = ZOrder::media;
                        if (auto it = jv.find("zorder"); it != jv.end())
                        {
                            if (it->is_string())
                            {
                                std::string z = it->get<std::string>();
                                zo = z == "B"   ? ZOrder::background
                                     : z == "M" ? ZOrder::media
                                     : z == "A" ? ZOrder::array
                                     : z == "H" ? ZOrder::hole
                                     : z == "x" ? ZOrder::implicit_exterior
                                     : z == "X" ? ZOrder::exterior
                                                : ZOrder::invalid;
                            }
                            else
                            {
                                // legacy SCALE export: 16-bit integers, -2/-1 are the exteriors
                                unsigned long z = it->get<unsigned long>();
                                zo = z == 65534ul   ? ZOrder::implicit_exterior
                                     : z == 65535ul ? ZOrder::exterior
                                                    : static_cast<ZOrder>(z);
                            }
                        }
                        if (zo != v.zorder)
                            rp.fail(sig + ":zorder",
                                    fmt("%s: text zorder %d, input %d", w.c_str(), int(zo),
                                        int(v.zorder)));
                        std::vector<logic_int> logic;
                        BBox bb;
                        if (zo == ZOrder::background)
                        {
                            logic = {logic::ltrue, logic::lnot};
                            bb = BBox{};
                            // (the writer may emit whatever the input had: not compared)
                            if (sig == "writer")
                            {
                                logic = v.logic;
                                bb = v.bbox;
                                if (jv.contains("logic"))
                                    raw_logic(jv["logic"].get<std::string>(), logic);
                                bb = raw_bbox(jv);
                            }
                        }
                        else
                        {
                            // writer: "logic" is omitted for an empty logic vector
                            if (jv.contains("logic")
                                && !raw_logic(jv.at("logic").get<std::string>(), logic))
                                rp.fail(sig + ":logic", w + ": unexpected character in logic");
                            bb = raw_bbox(jv);
                        }
                        if (logic != v.logic)
                            rp.fail(sig + ":logic",
                                    fmt("%s: logic string '%s' does not match the input",
                                        w.c_str(),
                                        jv.value("logic", std::string("<absent>")).c_str()));
                        if (!bbox_beq(bb, v.bbox))
                            rp.fail(sig + ":volume-bbox",
                                    fmt("%s: text bbox %s, input %s", w.c_str(),
                                        bbstr(bb).c_str(), bbstr(v.bbox).c_str()));
                    }
                // daughters
                Json const* jp = raw_find(ju, {"parent_cells", "parent_volumes"});
                size_t const ndau = jp ? jp->size() : 0;
                if (ndau != unit->daughter_map.size())
                    rp.fail(sig + ":daughter-count", u + ": number of daughters differs");
                else if (ndau)
                {
                    auto parents = jp->get<std::vector<unsigned>>();
                    auto dau = ju.at("daughters").get<std::vector<unsigned>>();
                    for (size_t k = 0; k < ndau; ++k)
                    {
                        auto it = unit->daughter_map.find(LocalVolumeId{parents[k]});
                        std::string const w = fmt("%s daughter of volume %u", u.c_str(), parents[k]);
                        if (it == unit->daughter_map.end())
                        {
                            rp.fail(sig + ":daughter-parent", w + ": not in the input");
                            continue;
                        }
                        if (dau.at(k) != it->second.universe_id.unchecked_get())
                            rp.fail(sig + ":daughter-universe",
                                    fmt("%s: text universe %u, input %u", w.c_str(), dau[k],
                                        unsigned(it->second.universe_id.unchecked_get())));
                        std::vector<double> td;
                        bool zero_none = false;
                        if (auto jt = ju.find("transforms"); jt != ju.end())
                            td = jt->at(k).get<std::vector<double>>();
                        else
                        {
                            auto tr = ju.at("translations").get<std::vector<double>>();
                            td.assign(tr.begin() + 3 * k, tr.begin() + 3 * k + 3);
                            zero_none = true;  // legacy flat translations
                        }
                        raw_transform(rp, sig, w, td, zero_none, it->second.transform);
                    }
                }
            }
            else
            {
                auto const* arr = std::get_if<RectArrayInput>(&in.universes[ui]);
                if (!arr)
                {
                    rp.fail(sig + ":universe-type", u + " is an array in the text only");
                    continue;
                }
                if (lab.name != arr->label.name || lab.ext != arr->label.ext)
                    rp.fail(sig + ":label", u + ": array label differs");
                char const* const axes[] = {"x", "y", "z"};
                for (int ax = 0; ax < 3; ++ax)
                    if (!vec_beq(ju.at(axes[ax]).get<std::vector<double>>(), arr->grid[ax]))
                        rp.fail(sig + ":array-grid", fmt("%s: grid %s differs", u.c_str(), axes[ax]));
                auto dau = ju.at("daughters").get<std::vector<unsigned>>();
                auto tr = ju.at("translations").get<std::vector<double>>();
                std::vector<unsigned> parents;
                if (auto it = ju.find("parent_cells"); it != ju.end())
                    parents = it->get<std::vector<unsigned>>();
                if (dau.size() != arr->daughters.size() || tr.size() != 3 * dau.size())
                    rp.fail(sig + ":array-daughter-count", u + ": number of cells differs");
                else
                    for (size_t k = 0; k < dau.size(); ++k)
                    {
                        size_t cell = parents.empty() ? k : parents[k];
                        std::string const w = fmt("%s cell %zu", u.c_str(), cell);
                        auto const& d = arr->daughters.at(cell);
                        if (dau[k] != d.universe_id.unchecked_get())
                            rp.fail(sig + ":array-daughter-universe",
                                    fmt("%s: text universe %u, input %u", w.c_str(), dau[k],
                                        unsigned(d.universe_id.unchecked_get())));
                        std::vector<double> td(tr.begin() + 3 * k, tr.begin() + 3 * k + 3);
                        // writer: NoTransformation is emitted as 0,0,0; reader: zero -> none
                        FlatTransform f = flat(d.transform);
                        bool const both_zero = td[0] == 0 && td[1] == 0 && td[2] == 0
                                               && (f.index == 0
                                                   || (f.index == 1 && f.data[0] == 0
                                                       && f.data[1] == 0 && f.data[2] == 0));
                        if (!both_zero)
                            raw_transform(rp, sig, w, td, false, d.transform);
                    }
            }
        }
    }
    catch (std::exception const& e)
    {
        rp.fail(sig + ":undecodable",
                fmt("the JSON text does not have the documented structure: %.400s", e.what()));
    }
}

// Whether the reader's documented normalisations leave the input unchanged
bool normal_form(OrangeInput const& a)
{
    for (auto const& vu : a.universes)
    {
        if (auto const* u = std::get_if<UnitInput>(&vu))
        {
            if (!u->bbox)
                return false;
            for (auto const& v : u->volumes)
                if (v.zorder == ZOrder::background
                    && (v.logic != std::vector<logic_int>{logic::ltrue, logic::lnot} || v.bbox))
                    return false;
        }
        else
        {
            for (auto const& d : std::get<RectArrayInput>(vu).daughters)
            {
                FlatTransform f = flat(d.transform);
                if (f.index == 1 && f.data[0] == 0 && f.data[1] == 0 && f.data[2] == 0)
                    return false;
            }
        }
    }
    return true;
}

//---------------------------------------------------------------------------//
// Structure-class tagging of an input
//---------------------------------------------------------------------------//
int universe_depth(OrangeInput const& in, size_t u, int guard = 0)
{
    if (guard > 16 || u >= in.universes.size())
        return 0;
    int best = 0;
    if (auto const* unit = std::get_if<UnitInput>(&in.universes[u]))
    {
        for (auto const& kv : unit->daughter_map)
            best = std::max(best, 1 + universe_depth(in, kv.second.universe_id.unchecked_get(),
                                                     guard + 1));
    }
    else
    {
        auto const& arr = std::get<RectArrayInput>(in.universes[u]);
        std::set<size_t> seen;
        for (auto const& d : arr.daughters)
            if (seen.insert(d.universe_id.unchecked_get()).second)
                best = std::max(
                    best, 1 + universe_depth(in, d.universe_id.unchecked_get(), guard + 1));
    }
    return best;
}

std::set<std::string> classify(OrangeInput const& in)
{
    std::set<std::string> t;
    auto bbkind = [](BBox const& b) -> char const* {
        if (!b)
            return "null";
        bool anyinf = false, allinf = true;
        for (int k = 0; k < 3; ++k)
        {
            for (double v : {b.lower()[k], b.upper()[k]})
            {
                anyinf = anyinf || std::isinf(v);
                allinf = allinf && std::isinf(v);
            }
        }
        return allinf ? "infinite" : anyinf ? "semi-infinite" : "finite";
    };
    t.insert(fmt("tol:%s", (beq(in.tol.rel, Tolerance<>::from_default().rel)
                            && beq(in.tol.abs, Tolerance<>::from_default().abs))
                               ? "default"
                               : "custom"));
    t.insert(fmt("depth:%d", universe_depth(in, 0)));
    for (auto const& vu : in.universes)
    {
        if (auto const* u = std::get_if<UnitInput>(&vu))
        {
            t.insert("universe:unit");
            t.insert(fmt("unitbbox:%s", bbkind(u->bbox)));
            if (!u->label.ext.empty())
                t.insert("label:unit-ext");
            for (auto const& s : u->surfaces)
                t.insert(fmt("surf:%s", surf_names[flat(s).type]));
            for (auto const& l : u->surface_labels)
                t.insert(l.ext.empty() ? "label:surface-plain" : "label:surface-ext");
            if (u->surface_labels.empty() && !u->surfaces.empty())
                t.insert("label:surface-absent");
            for (auto const& v : u->volumes)
            {
                t.insert(fmt("zorder:%c", to_char(v.zorder)));
                t.insert(fmt("flags:%u", unsigned(v.flags)));
                t.insert(fmt("volbbox:%s", bbkind(v.bbox)));
                t.insert(v.label.ext.empty() ? "label:volume-plain" : "label:volume-ext");
                if (v.obz)
                    t.insert("obz:present(not serialised)");
                for (auto l : v.logic)
                {
                    if (l == logic::ltrue)
                        t.insert("logic:true");
                    else if (l == logic::lor)
                        t.insert("logic:or");
                    else if (l == logic::land)
                        t.insert("logic:and");
                    else if (l == logic::lnot)
                        t.insert("logic:not");
                    else
                        t.insert(l >= 10 ? "logic:face-multidigit" : "logic:face");
                }
            }
            for (auto const& kv : u->daughter_map)
                t.insert(fmt("xform:%s", xform_names[kv.second.transform.index()]));
            if (auto const* tr = [&]() -> Transformation const* {
                    for (auto const& kv : u->daughter_map)
                        if (auto const* p = std::get_if<Transformation>(&kv.second.transform))
                            if (determinant(p->rotation()) < 0)
                                return p;
                    return nullptr;
                }())
            {
                (void)tr;
                t.insert("xform:reflection");
            }
        }
        else
        {
            auto const& a = std::get<RectArrayInput>(vu);
            t.insert("universe:rectarray");
            t.insert(fmt("array:%zux%zux%zu", a.grid[0].size() - 1, a.grid[1].size() - 1,
                         a.grid[2].size() - 1));
            for (auto const& d : a.daughters)
                t.insert(fmt("arrayxform:%s", xform_names[d.transform.index()]));
        }
    }
    return t;
}

//---------------------------------------------------------------------------//
// (c) navigation comparison
//---------------------------------------------------------------------------//
struct RaySet
{
    int n;  // lattice points per axis
    std::vector<Real3> dirs;
};

RaySet make_rays(bool thorough)
{
    RaySet rs;
    rs.n = thorough ? 6 : 4;
    auto add = [&rs](double x, double y, double z) {
        rs.dirs.push_back(make_unit_vector(Real3{x, y, z}));
    };
    for (int s : {-1, 1})
    {
        add(s, 0, 0);
        add(0, s, 0);
        add(0, 0, s);
    }
    for (int sx : {-1, 1})
        for (int sy : {-1, 1})
            for (int sz : {-1, 1})
                add(sx, sy, sz);
    // generic directions (no rational relation between the components)
    add(0.3141592653589793, 0.2718281828459045, 0.5772156649015329);
    add(-0.1414213562373095, 0.7320508075688772, -0.2360679774997897);
    if (thorough)
    {
        for (int s : {-1, 1})
            for (int q : {-1, 1})
            {
                add(s, q, 0);
                add(s, 0, q);
                add(0, s, q);
            }
        add(0.9, -0.01, 0.02);
        add(-0.003, 0.004, -0.99);
    }
    return rs;
}

struct Tracker
{
    using Store = CollectionStateStore<OrangeStateData, MemSpace::host>;
    OrangeParams const& params;
    Store store;
    explicit Tracker(OrangeParams const& p) : params(p), store(p.host_ref(), 1) {}
    OrangeTrackView view()
    {
        return OrangeTrackView(params.host_ref(), store.ref(), TrackSlotId{0});
    }
};

struct NavStats
{
    uint64_t rays = 0, crossings = 0, capped = 0, started_outside = 0, failed = 0, deepest = 0;
};

// Returns false after the first mismatch (reported)
bool nav_compare(Reporter const& rp,
                 OrangeParams const& pa,
                 OrangeParams const& pb,
                 RaySet const& rs,
                 NavStats& st,
                 uint64_t& outcome_hash)
{
    // Metadata
    auto cmp_map = [&](char const* what, auto const& ma, auto const& mb) {
        if (ma.size() != mb.size())
        {
            rp.fail(fmt("nav:%s-count", what),
                    fmt("%u vs %u %ss", unsigned(ma.size()), unsigned(mb.size()), what));
            return false;
        }
        using IdT = std::decay_t<decltype(ma.find_all(std::string{}).front())>;
        for (auto i : range(IdT{ma.size()}))
        {
            Label const& la = ma.at(i);
            Label const& lb = mb.at(i);
            if (la.name != lb.name || la.ext != lb.ext)
            {
                rp.fail(fmt("nav:%s-label", what),
                        fmt("%s %u: '%s@%s' vs '%s@%s'", what, unsigned(i.get()),
                            la.name.c_str(), la.ext.c_str(), lb.name.c_str(), lb.ext.c_str()));
                return false;
            }
        }
        return true;
    };
    if (!cmp_map("volume", pa.volumes(), pb.volumes())
        || !cmp_map("surface", pa.surfaces(), pb.surfaces())
        || !cmp_map("universe", pa.universes(), pb.universes()))
        return false;
    if (!bbox_beq(pa.bbox(), pb.bbox()))
    {
        rp.fail("nav:world-bbox", fmt("world bbox %s vs %s", bbstr(pa.bbox()).c_str(),
                                      bbstr(pb.bbox()).c_str()));
        return false;
    }
    if (pa.max_depth() != pb.max_depth() || pa.supports_safety() != pb.supports_safety())
    {
        rp.fail("nav:params-scalars",
                fmt("max_depth %u vs %u, supports_safety %d vs %d", unsigned(pa.max_depth()),
                    unsigned(pb.max_depth()), pa.supports_safety(), pb.supports_safety()));
        return false;
    }
    {
        auto const& sa = pa.host_ref().scalars;
        auto const& sb = pb.host_ref().scalars;
        if (sa.max_faces != sb.max_faces || sa.max_intersections != sb.max_intersections
            || sa.max_logic_depth != sb.max_logic_depth || !beq(sa.tol.rel, sb.tol.rel)
            || !beq(sa.tol.abs, sb.tol.abs))
        {
            rp.fail("nav:params-scalars", "max_faces/max_intersections/logic depth/tol differ");
            return false;
        }
    }

    BBox const& world = pa.bbox();
    Real3 lo = world.lower(), hi = world.upper();
    for (int k = 0; k < 3; ++k)
    {
        // An infinite world box cannot be sampled: clamp (does not occur for valid inputs)
        if (std::isinf(lo[k]))
            lo[k] = -10;
        if (std::isinf(hi[k]))
            hi[k] = 10;
    }
    // irrational jitter so that no start point or ray lies on a surface, edge or symmetry
    // plane except by coincidence (both runs would anyway see the same coincidence)
    double const jit[3] = {0.013716049382716049, -0.027182818284590452, 0.038196601125010515};

    Tracker ta(pa), tb(pb);
    constexpr int max_cross = 1000;
    uint64_t h = 1469598103934665603ull;
    for (int i = 0; i < rs.n; ++i)
        for (int j = 0; j < rs.n; ++j)
            for (int k = 0; k < rs.n; ++k)
            {
                Real3 pos;
                int const idx[3] = {i, j, k};
                for (int ax = 0; ax < 3; ++ax)
                    pos[ax] = lo[ax] + (idx[ax] + 0.5 + jit[ax]) * (hi[ax] - lo[ax]) / rs.n;
                for (size_t d = 0; d < rs.dirs.size(); ++d)
                {
                    auto where = [&](int step) {
                        return fmt("ray from {%s,%s,%s} along {%s,%s,%s} step %d",
                                   vf::dstr(pos[0]).c_str(), vf::dstr(pos[1]).c_str(),
                                   vf::dstr(pos[2]).c_str(), vf::dstr(rs.dirs[d][0]).c_str(),
                                   vf::dstr(rs.dirs[d][1]).c_str(),
                                   vf::dstr(rs.dirs[d][2]).c_str(), step);
                    };
                    auto va = ta.view();
                    auto vb = tb.view();
                    va = GeoTrackInitializer{pos, rs.dirs[d]};
                    vb = GeoTrackInitializer{pos, rs.dirs[d]};
                    ++st.rays;
                    auto same_place = [&](int step) {
                        if (va.volume_id() != vb.volume_id() || va.failed() != vb.failed()
                            || va.is_outside() != vb.is_outside()
                            || va.level() != vb.level()
                            || va.is_on_boundary() != vb.is_on_boundary()
                            || (va.is_on_boundary() && va.surface_id() != vb.surface_id()))
                        {
                            rp.fail("nav:volume-sequence",
                                    fmt("%s: volume %d (failed=%d, level %d) from the original "
                                        "input, volume %d (failed=%d, level %d) after the round "
                                        "trip",
                                        where(step).c_str(), int(va.volume_id().unchecked_get()),
                                        va.failed(), int(va.level().unchecked_get()),
                                        int(vb.volume_id().unchecked_get()), vb.failed(),
                                        int(vb.level().unchecked_get())));
                            return false;
                        }
                        for (int ax = 0; ax < 3; ++ax)
                            if (!beq(va.pos()[ax], vb.pos()[ax]))
                            {
                                rp.fail("nav:position",
                                        fmt("%s: position differs (%s vs %s)",
                                            where(step).c_str(), dd(va.pos()[ax]).c_str(),
                                            dd(vb.pos()[ax]).c_str()));
                                return false;
                            }
                        h = vf::hash_mix(h, va.volume_id().unchecked_get());
                        return true;
                    };
                    if (!same_place(0))
                        return false;
                    st.deepest = std::max<uint64_t>(st.deepest, va.level().unchecked_get());
                    if (va.failed())
                    {
                        ++st.failed;
                        continue;
                    }
                    if (va.is_outside())
                    {
                        ++st.started_outside;
                        continue;
                    }
                    {
                        double sa = va.find_safety();
                        double sb = vb.find_safety();
                        if (!beq(sa, sb))
                        {
                            rp.fail("nav:safety", fmt("%s: safety %s vs %s", where(0).c_str(),
                                                      dd(sa).c_str(), dd(sb).c_str()));
                            return false;
                        }
                    }
                    int step = 0;
                    for (; step < max_cross; ++step)
                    {
                        Propagation na = va.find_next_step();
                        Propagation nb = vb.find_next_step();
                        if (!beq(na.distance, nb.distance) || na.boundary != nb.boundary)
                        {
                            rp.fail("nav:distance",
                                    fmt("%s: distance %s (boundary %d) vs %s (boundary %d)",
                                        where(step).c_str(), dd(na.distance).c_str(),
                                        na.boundary, dd(nb.distance).c_str(), nb.boundary));
                            return false;
                        }
                        h = vf::hash_mix(h, bits(na.distance));
                        if (!na.boundary)
                            break;
                        va.move_to_boundary();
                        vb.move_to_boundary();
                        va.cross_boundary();
                        vb.cross_boundary();
                        ++st.crossings;
                        if (!same_place(step + 1))
                            return false;
                        st.deepest
                            = std::max<uint64_t>(st.deepest, va.level().unchecked_get());
                        if (va.failed())
                        {
                            ++st.failed;
                            break;
                        }
                        if (va.is_outside())
                            break;
                    }
                    if (step == max_cross)
                        ++st.capped;
                }
            }
    outcome_hash = h;
    return true;
}

using c19::Program;
using namespace c19;

#ifdef C19_HAVE_SOLID_PROGRAMS
// FAMILY sp: C09's program zoo (problems/solid_programs.hh): every program is pushed through
// the structural oracles; navigation is run on the first programs of each structure class.
void add_solid_programs(std::vector<Program>& out, bool thorough)
{
    namespace sp = vf::sprog;
    for (auto const& key : sp::enumerate(thorough))
    {
        // quick tier: a fixed 1-in-5 selection by a hash of the key (declared sub-sampling of
        // C09's zoo; every kind/placement/leaf class stays represented, see the sp:* tags);
        // thorough tier: the complete zoo
        if (!thorough && vf::hash_str(key.id()) % 5 != 0)
            continue;
        Program p;
        p.id = "sp:" + key.id();
        p.nav_per_class = 2;
        p.extra_tags = {fmt("sp:kind=%c", key.kind),
                        fmt("sp:placement=%s", sp::placement_name(key.place)),
                        "sp:leaf=" + sp::leaves()[key.a].name};
        p.make = [key] { return sp::build_input(sp::build(key)); };
        out.push_back(std::move(p));
    }
}
#endif

//---------------------------------------------------------------------------//
// (e) file-name entry points: OrangeParams(std::string const&) -> input_from_file ->
// input_from_json.  The text written for `a` is stored as <tmp>/<name>.org.json; geometry built
// from "<name>.org.json" and - with Geant4 conversion disabled in this build - from
// "<name>.gdml" (documented fallback: the suffix is replaced by .org.json) must navigate
// exactly like the geometry built from the in-memory input.
//---------------------------------------------------------------------------//
void check_file_entry(vf::Run& R, Program const& prog, OrangeInput const& a, OrangeParams const& pa,
                      RaySet const& rs)
{
    namespace fs = std::filesystem;
    Reporter rp{&R, prog.id, "file-entry/"};
    char const* tmp = getenv("TMPDIR");
    fs::path dir = fs::path(tmp && *tmp ? tmp : "/tmp")
                   / fmt("c19_%ld_%016llx", long(getpid()), (unsigned long long)vf::hash_str(prog.id));
    std::error_code ec;
    fs::create_directories(dir, ec);
    // a base name with dots and a "json" inside, so that suffix arithmetic matters
    fs::path const base = dir / "geo.v1.json-like";
    std::string const json_name = base.string() + ".org.json";
    std::string const gdml_name = base.string() + ".gdml";
    // (d2) a plain "<name>.json" (not ".org.json") is a documented JSON name as well; its base
    // differs so that the .gdml fallback cannot pick it up
    std::string const plain_name = (dir / "plain.v2").string() + ".json";
    for (std::string const& n : {json_name, plain_name})
    {
        std::ofstream f(n);
        f << a;  // operator<< (dump(0))
        if (!f)
        {
            R.harness_error("cannot write " + n);
            return;
        }
    }
    R.count("file_entry_programs");
    for (std::string const& name : {json_name, gdml_name, plain_name})
    {
        bool const gdml = (name == gdml_name);
        if (gdml && CELERITAS_USE_GEANT4)
        {
            R.tag("file-entry:gdml-fallback-not-applicable(geant4 enabled)");
            continue;
        }
        std::unique_ptr<OrangeParams> pf;
        try
        {
            pf = std::make_unique<OrangeParams>(name);
        }
        catch (std::exception const& e)
        {
            rp.fail(gdml ? "throws(gdml-name)" : name == plain_name ? "throws(plain-json-name)" : "throws(json-name)",
                    fmt("OrangeParams(\"%s\") threw although %s exists and OrangeParams(input) "
                        "succeeds: %.400s", name.c_str(), json_name.c_str(), e.what()));
            continue;
        }
        R.tag(gdml ? "file-entry:gdml-name-fallback" : name == plain_name ? "file-entry:plain-json-name" : "file-entry:json-name");
        NavStats st;
        uint64_t oh = 0;
        nav_compare(rp, pa, *pf, rs, st, oh);
        R.count("file_entry_rays", st.rays);
    }
    fs::remove_all(dir, ec);
}

//---------------------------------------------------------------------------//
void run_program(vf::Run& R, Program const& prog, RaySet const& rs_default, RaySet const& rs_small)
{
    Reporter rp{&R, prog.id};
    std::string const family = prog.id.substr(0, prog.id.find(':'));

    OrangeInput a;
    if (prog.expect_throw)
    {
        // a text the reader is documented to refuse (foreign unit system)
        R.count("evaluations");
        R.count("programs:" + family);
        for (auto const& t : prog.extra_tags)
            R.tag(t);
        R.nontrivial(vf::hash_str(prog.id));
        try
        {
            a = prog.make();
            rp.fail("reader:accepts-foreign-units",
                    fmt("from_json accepted a text whose \"_units\" is not the unit system of this build (%s): "
                        "lengths would be misread silently",
                        celeritas::to_cstring(celeritas::UnitSystem::native)));
        }
        catch (std::exception const&)
        {
            R.tag("r:refused-as-documented");
        }
        return;
    }
    try
    {
        a = prog.make();
    }
    catch (UnreadableInvolute const& e)
    {
        // bundled file with an involute surface and a reader that cannot take "inv"
        R.count("evaluations");
        R.count("programs:" + family);
        R.count("programs_involute_not_readable");
        R.tag("skip:" + family + ":involute-not-readable");
        R.tag("surf:inv");
        if (involute_reader_status() == 2)
            rp.fail("reader:involute-crash",
                    fmt("%s contains surface type 'inv' (as written by to_json for an Involute); "
                        "from_json(OrangeInput) on such input runs into CELER_ASSERT_UNREACHABLE "
                        "in visit_surface_type (SurfaceTypeTraits.hh) called from "
                        "SurfaceEmplacer (OrangeInputIOImpl.json.cc): undefined behaviour in a "
                        "release build (observed SIGSEGV in a forked probe). File skipped.",
                        e.what()));
        return;
    }
    catch (std::exception const& e)
    {
        if (family == "file" || family == "legacy")
        {
            // these inputs are produced by the READER under test from a text that is valid by
            // construction (bundled with the code / written in the documented legacy spellings)
            R.count("evaluations");
            R.count("programs:" + family);
            rp.fail("reader:throws", fmt("from_json refused a valid text: %.600s", e.what()));
            return;
        }
        // The construction API refused this combination (C09's domain, not ours)
        R.count("programs_not_constructible");
        R.tag("skip:" + family + ":construction-threw");
        if (R.verbose())
            fprintf(stderr, "%s: construction threw: %s\n", prog.id.c_str(), e.what());
        return;
    }
    if (!a)
    {
        R.harness_error("program " + prog.id + " produced an incomplete OrangeInput");
    }
    R.count("evaluations");
    R.count("programs:" + family);

    auto tags = classify(a);
    for (auto const& t : prog.extra_tags)
        tags.insert(t);
    uint64_t class_hash = 1469598103934665603ull;
    for (auto const& t : tags)
    {
        R.tag(t);
        class_hash = vf::hash_str(t, class_hash);
    }
    // non-trivial: a distinct structure class (set of structural tags)
    R.nontrivial(class_hash);

    if (tags.count("surf:inv") && involute_reader_status() != 0)
    {
        // The writer emits type "inv" but the reader cannot take it.  Check the writer's
        // output with our own decoding of the zipped surface block, then stop.
        R.count("programs_involute_not_readable");
        R.tag("skip:" + family + ":involute-not-readable");
        try
        {
            nlohmann::json j1 = a;
            for (size_t ui = 0; ui < a.universes.size(); ++ui)
                if (auto const* unit = std::get_if<UnitInput>(&a.universes[ui]))
                {
                    auto const& js = j1.at("universes").at(ui).at("surfaces");
                    auto data = js.at("data").get<std::vector<double>>();
                    size_t off = 0;
                    for (size_t si = 0; si < unit->surfaces.size(); ++si)
                    {
                        FlatSurface f = flat(unit->surfaces[si]);
                        size_t n = js.at("sizes").at(si).get<size_t>();
                        std::vector<double> d(data.begin() + off, data.begin() + off + n);
                        off += n;
                        if (js.at("types").at(si).get<std::string>() != surf_names[f.type]
                            || !vec_beq(d, f.data))
                            rp.fail("writer:surface", fmt("universe %zu surface %zu written "
                                                          "differently from its data", ui, si));
                    }
                }
        }
        catch (std::exception const& e)
        {
            rp.fail("roundtrip:throws", fmt("writing the input threw: %.600s", e.what()));
        }
        if (involute_reader_status() == 2)
            rp.fail("reader:involute-crash",
                    "to_json writes an Involute as surface type 'inv', but from_json on that "
                    "text runs into CELER_ASSERT_UNREACHABLE in visit_surface_type "
                    "(SurfaceTypeTraits.hh) called from SurfaceEmplacer "
                    "(OrangeInputIOImpl.json.cc): undefined behaviour in a release build "
                    "(observed SIGSEGV in a forked probe); the round trip was not attempted.");
        return;
    }

    // (d) bundled file: the text, decoded independently, must describe what the reader produced
    if (!prog.source_file.empty())
    {
        std::ifstream f(prog.source_file);
        Json jf = Json::parse(f, nullptr, false);
        if (jf.is_discarded())
            R.harness_error("cannot re-parse " + prog.source_file);
        cmp_raw(rp, "reader", jf, a);
        R.count("raw_decodes");
    }
    if (!prog.source_text.empty())
    {
        // (d) literal legacy text: same independent decoding
        Json jf = Json::parse(prog.source_text, nullptr, false);
        if (jf.is_discarded())
            R.harness_error("cannot parse the literal text of " + prog.id);
        cmp_raw(rp, "reader", jf, a);
        R.count("raw_decodes");
    }

    // (a) + (b)
    std::string s1, s2;
    OrangeInput b;
    try
    {
        nlohmann::json j1 = a;
        s1 = j1.dump();
        nlohmann::json p1 = nlohmann::json::parse(s1);
        p1.get_to(b);
        R.count("bytes_json", s1.size());
        // (d) the emitted text, decoded independently, must describe a
        cmp_raw(rp, "writer", p1, a);
        R.count("raw_decodes");
        // writer branch tags, read off the emitted text
        for (auto const& ju : j1.at("universes"))
        {
            if (ju.at("_type") == "unit")
            {
                R.tag(ju.contains("bbox") ? "w:unit-bbox-written" : "w:unit-bbox-omitted");
                R.tag(ju.contains("parent_cells") ? "w:daughters-written"
                                                  : "w:daughters-omitted");
                for (auto const& jv : ju.at("volumes"))
                {
                    R.tag(jv.contains("bbox") ? (jv.at("bbox").is_null()
                                                     ? "w:volume-bbox-null"
                                                     : "w:volume-bbox-written")
                                              : "w:volume-bbox-omitted(infinite)");
                    R.tag(jv.contains("flags") ? "w:flags-written" : "w:flags-omitted(0)");
                    R.tag(jv.contains("zorder") ? "w:zorder-written"
                                                : "w:zorder-omitted(media)");
                }
            }
        }
    }
    catch (std::exception const& e)
    {
        // A volume with EMPTY logic (valid through its implicit_vol flag; the writer omits the
        // "logic" key for it) that the reader then cannot find: its own signature, so that any
        // other exception on the round trip stays distinguishable
        bool empty_logic = false;
        for (auto const& vu : a.universes)
            if (auto const* u = std::get_if<UnitInput>(&vu))
                for (auto const& v : u->volumes)
                    empty_logic = empty_logic || (v.logic.empty() && v.zorder != ZOrder::background);
        bool const key_missing = dynamic_cast<nlohmann::json::out_of_range const*>(&e)
                                 && std::string(e.what()).find("'logic'") != std::string::npos;
        if (empty_logic && key_missing && !s1.empty())
            rp.fail("roundtrip:empty-logic-volume-not-readable",
                    fmt("a VolumeInput with empty logic and flags & implicit_vol (valid by "
                        "VolumeInput::operator bool) is written without a \"logic\" key, and "
                        "from_json(VolumeInput) then throws: %.300s", e.what()));
        else
            rp.fail("roundtrip:throws",
                    fmt("writing/re-reading the input threw: %.600s", e.what()));
        return;
    }
    cmp_input(rp, a, b, false);
    R.count("struct_compares");

    try
    {
        nlohmann::json j2 = b;
        s2 = j2.dump();
        // The first dump can only be a fixpoint if a is already in the reader's normal form
        // (hand-written lattice inputs are deliberately not); the second always must be.
        if (!normal_form(a))
        {
            R.tag("fixpoint:checked-from-second-dump(input not in reader normal form)");
            OrangeInput c0;
            nlohmann::json::parse(s2).get_to(c0);
            s1 = nlohmann::json(c0).dump();
        }
        else
            R.tag("fixpoint:checked-from-first-dump");
        if (s1 != s2)
        {
            size_t p = 0;
            while (p < s1.size() && p < s2.size() && s1[p] == s2[p])
                ++p;
            size_t from = p > 60 ? p - 60 : 0;
            rp.fail("fixpoint:text",
                    fmt("second dump differs at byte %zu: '...%s' vs '...%s'", p,
                        s1.substr(from, 120).c_str(), s2.substr(from, 120).c_str()));
        }
        OrangeInput c;
        nlohmann::json::parse(s2).get_to(c);
        // b is already normalised: the second trip must be exact (except that a zero
        // translation cannot occur in b's arrays any more, so strict is fine)
        Reporter rp2{&R, prog.id};
        cmp_input(rp2, b, c, true);
        R.count("struct_compares");

        // stream helpers (dump(0) path)
        std::stringstream ss;
        ss << a;
        OrangeInput b2;
        ss >> b2;
        cmp_input(rp, b, b2, true);
        R.count("struct_compares");
    }
    catch (std::exception const& e)
    {
        rp.fail("fixpoint:throws", fmt("second round trip threw: %.600s", e.what()));
        return;
    }
    R.outcome(vf::hash_str(s1));

    // (c)
    if (prog.navigate && prog.nav_per_class > 0)
    {
        // large zoo: navigate only the first few programs of each structure class (per shard;
        // the enumeration order and the sharding are fixed, so this is deterministic)
        static std::unordered_map<uint64_t, int> seen;
        if (++seen[class_hash] > prog.nav_per_class && !R.replay())
        {
            R.count("programs_nav_subsampled_by_class");
            return;
        }
    }
    if (!prog.navigate)
    {
        R.count("programs_structure_only");
        return;
    }
    std::unique_ptr<OrangeParams> pa, pb;
    std::string ea, eb;
    try
    {
        pa = std::make_unique<OrangeParams>(OrangeInput(a));
    }
    catch (std::exception const& e)
    {
        ea = e.what();
    }
    try
    {
        pb = std::make_unique<OrangeParams>(OrangeInput(b));
    }
    catch (std::exception const& e)
    {
        eb = e.what();
    }
    if (bool(pa) != bool(pb))
    {
        rp.fail("nav:params-construction",
                fmt("OrangeParams from the original %s, from the re-read input %s: %.400s",
                    pa ? "succeeds" : "throws", pb ? "succeeds" : "throws",
                    (pa ? eb : ea).c_str()));
        return;
    }
    if (!pa)
    {
        R.count("programs_params_rejected");
        R.tag("skip:" + family + ":params-rejected-both");
        if (R.verbose())
            fprintf(stderr, "%s: OrangeParams rejected both: %s\n", prog.id.c_str(), ea.c_str());
        return;
    }
    // C09's zoo is large and is probed densely by C09 itself: the differential navigation
    // uses the small ray set there in both tiers
    RaySet const& rs = family == "sp" ? rs_small : rs_default;
    NavStats st;
    uint64_t oh = 0;
    if (nav_compare(rp, *pa, *pb, rs, st, oh))
        R.outcome(oh);
    if (prog.file_entry)
        check_file_entry(R, prog, a, *pa, rs_small);
    R.count("nav_programs");
    R.count("nav_rays", st.rays);
    R.count("nav_crossings", st.crossings);
    R.count("nav_rays_started_outside", st.started_outside);
    R.count("nav_rays_failed_identically", st.failed);
    if (st.failed)
        R.tag("nav:some-rays-failed-identically:" + family, st.failed);
    R.count("transitions", st.crossings + st.rays);
    R.maxi("nav_deepest_level", st.deepest);
    if (st.capped)
    {
        R.count("nav_rays_capped", st.capped);
    }
    if (st.crossings > 0)
        R.tag("nav:crossed-boundaries");
    if (st.deepest > 0)
        R.tag(fmt("nav:reached-level-%d", int(st.deepest)));
}

}  // namespace

//---------------------------------------------------------------------------//
int main(int argc, char** argv)
{
    vf::Run R(argc, argv, "C19", "c19_json_roundtrip");
    bool const thorough = R.thorough();
    RaySet const rs = make_rays(thorough);
    RaySet const rs_small = make_rays(false);

    std::vector<Program> programs;
    add_file_programs(programs, R);
    add_row_programs(programs, thorough);
    add_array_programs(programs, thorough);
    add_lattice_programs(programs, thorough);
    add_extreme_programs(programs);
    add_legacy_programs(programs);
    add_builder_programs(programs, thorough);
#ifdef C19_HAVE_SOLID_PROGRAMS
    add_solid_programs(programs, thorough);
    R.note("solid_programs", "C09 zoo (problems/solid_programs.hh) included as family sp");
#else
    R.note("solid_programs", "C09 zoo not compiled in");
#endif

    {
        std::set<std::string> ids;
        for (auto const& p : programs)
            if (!ids.insert(p.id).second)
                R.harness_error("duplicate program id " + p.id);
    }

    for (uint64_t i = 0; i < programs.size(); ++i)
    {
        if (!R.mine(i))
            continue;
        if (R.expired())
            break;
        Program const& prog = programs[i];
        if (!R.want(prog.id))
            continue;
        R.begin_case(prog.id, 120);
        run_program(R, prog, rs, rs_small);
        R.end_case();
        if (i % 97 == 0)
            R.sample(prog.id);
    }
    // Rays are compared for at most 1000 crossings (declared bound "max_crossings"); a ray that
    // is still inside after that many crossings is a tracking loop in both geometries alike.
    if (R.counter("nav_rays_capped"))
        R.note("max_crossings", "some rays were compared up to the declared 1000-crossing bound");
    R.note("enumeration", fmt("%zu programs in total", programs.size()));
    return R.finish();
}
