// Standalone reproduction: celeritas::eumod returns the denominator itself (not a value in
// [0, denom)) for a tiny negative numerator, and a SolidEnclosedAngle with such a start angle
// cannot be built.
//   g++ -std=c++17 -I$REPO/src -I$BUILD/include eumod_repro.cc -L$BUILD/lib -Wl,-rpath,$BUILD/lib -lorange -lgeocel -lcorecel
#include <cstdio>
#include <exception>
#include "corecel/math/Algorithms.hh"
#include "orange/orangeinp/Solid.hh"
int main()
{
    using namespace celeritas;
    double r = eumod(-1e-20, 1.0);
    std::printf("eumod(-1e-20, 1.0)  = %.17g   (%s)\n", r, r < 1.0 ? "in [0,1)" : "NOT in [0,1)");
    float rf = eumod(-1e-10f, 1.0f);
    std::printf("eumod(-1e-10f, 1.f) = %.9g   (%s)\n", rf, rf < 1.0f ? "in [0,1)" : "NOT in [0,1)");
    double r360 = eumod(-1e-15, 360.0);
    std::printf("eumod(-1e-15, 360.) = %.17g   (%s)\n", r360, r360 < 360.0 ? "in [0,360)" : "NOT in [0,360)");
    try
    {
        // a start angle of -1e-20 turns (e.g. the result of a rounded subtraction) is a valid input
        orangeinp::SolidEnclosedAngle sea{Turn{-1e-20}, Turn{0.25}};
        auto sw = sea.make_wedge();
        std::printf("make_wedge ok\n");
    }
    catch (std::exception const& e)
    {
        std::printf("SolidEnclosedAngle{Turn{-1e-20}, Turn{0.25}}.make_wedge() threw:\n%s\n", e.what());
        return 1;
    }
    return r < 1.0 ? 0 : 1;
}
