// C12 - Surface primitives are self-consistent; transforms preserve their point sets.
//
// Engine E4 (lattice enumerator).  Three parts of one executable (selected with --part):
//
//  surf   every surface type x coefficient alphabet x positions (dyadic lattice, far points,
//         exactly-on-surface points, near-surface points, tangent start points) x directions
//         (26 lattice, near-axis tilts, null directions of the quadratic form, tangents, aimed):
//         calc_sense / calc_intersections / calc_normal against a long double re-derivation of
//         the implicit function from surface.data().
//  xform  Translation / Transformation / SignedPermutation algebra against an own long double
//         matrix model; SurfaceTranslator / SurfaceTransformer / SurfaceSimplifier outputs have
//         the same point set (sense at T(x) == sense of the original at x); TransformSimplifier.
//  inv    involutes: sense oracle from the documented definition, intersections land on the
//         curve inside the parameter bounds, sense flips across reported crossings, normal.
//
// ORACLE (quadrics).  Every surface is brought to f(p) = Q(p - o) with
//   Q(r) = sum A_i r_i^2 + C_xy r_x r_y + C_yz r_y r_z + C_zx r_z r_x + sum F_i r_i + K
// using only surface.data() and the equation documented in each class (derive_* below).  The
// factored form (origin o kept apart) is the one the code evaluates, so the rounding model is
// relative to M(p) = sum of |terms| of that form.
//
// ROUNDING MODEL (eps = 2^-52, KT = 64).  A double evaluation of a sum of n<=20 products
// nested <= 8 deep is within 8 eps M of the exact value; KT = 64 leaves a factor 8.
//   * "clearly off-surface":  |f| > KT eps M            (sense claims only there)
//   * "on the surface":       |f| <= 4 eps M            (the only points called with state on)
//   * along a ray x + t u:  f(t) = a t^2 + 2 hb t + c with magnitudes am, hbm, cm (sums of
//     |terms|; am additionally contains 1 for spheres/cylinders because the code replaces
//     u.u by 1).  A returned distance d must satisfy
//        |f(d)| <= KT eps (am d^2 + 2 hbm d + cm + hbm^2/|a|)        [+ |a| d^2 when |a| is
//     below the documented "along surface" threshold 1e-10, where the code linearises].
//     hbm^2/|a| is the documented loss of QuadraticSolver (x = -b/2a -+ sqrt((b/2a)^2 - c/a)
//     carries an absolute error eps |b/2a|, i.e. a residual 2|hb| eps |hb/a|).
//   * missed root: exact roots from the long double coefficients; a root t_k is "clearly
//     positive" when t_k > 2 dt_k, dt_k = tol(t_k)/|f'(t_k)| + 4 eps t_k.  The claim is skipped
//     when the discriminant is not clearly signed, in the along/edge regimes for the far root
//     (documented to be dropped), and for cylinders when 1 - u_T^2 is not clearly >= 1e-10.
//
//   * state on: the start point's own root is never reported.  At most one distance comes back and
//     it equals the other root -2 hb / a within KT eps (2 hbm/|a| + 2|hb| am/a^2) + 8 eps |d|
//     (nothing for planes, for |a| below the along-surface threshold, for axis-parallel cylinder
//     rays); signature <type>:on-surface-self-hit.
//
// API contract respected: SurfaceState::on is passed exactly for points that are on the surface
// to rounding; SurfaceState::off only for clearly-off points; directions are unit vectors to
// 1 ulp; constructor preconditions (radius > 0, unit normals, tangent > 0, involute parameter
// ranges) are honoured because CELER_EXPECT is compiled out.
#include <algorithm>
#include <array>
#include <cmath>
#include <cstdint>
#include "oracle/c12_quadric.hh"
#include "problems/c12_surfaces.hh"

//---------------------------------------------------------------------------//
static int part_surf(vf::Run& R)
{
    bool const th = R.thorough();
    Ctx cx(R);
    auto latd = lattice_dirs();
    auto tiltd = tilt_dirs(true);
    auto tiltd_small = tilt_dirs(false);

    Budget big, mid, small;
    if (!th)
    {
        big = Budget{{-2, -0.5, 0, 1, 1.5}, 6, 16, 6, 4, true};
        mid = Budget{{-2, -0.5, 0, 1.5}, 2, 8, 3, 2, true};
        small = Budget{{-1, 0, 1.5}, 2, 6, 2, 2, false};
    }
    else
    {
        big = Budget{{-3, -2, -0.5, 0, 0.25, 1, 1.5}, 10, 40, 12, 8, true};
        mid = Budget{{-2, -0.5, 0, 1, 1.5}, 6, 16, 6, 4, true};
        small = Budget{{-2, -0.5, 0, 1.5}, 4, 10, 4, 2, true};
    }
    bool expired = false;
    enumerate_surfaces(R, 2, th ? 2 : 1, th ? 2 : 1, [&](auto const& s, std::string const& cid) {
        if (expired || R.expired())
        {
            expired = true;
            return;
        }
        R.begin_case(cid, 120);
        bool is_gq = cid.compare(0, 3, "gq#") == 0;
        bool is_sq = cid.compare(0, 3, "sq#") == 0;
        Budget const& b = is_gq ? small : is_sq ? mid : big;
        check_surface(cx, s, cid, b, latd, (is_gq && !th) ? tiltd_small : tiltd);
        R.end_case();
    });
    cx.flush();
    R.sample("sphere data=[0.5,-1,1,4] pos=(-2,-0.5,0) dir=(1,0,0)/26 lattice dirs state=off: roots vs long double");
    R.sample("cone kz tsq=1 origin (0,0,0): null direction (1,0,1)/sqrt2 -> along-surface branch");
    R.sample("cylinder cz r=2: direction tilted 1e-6 / 1e-5 / 2e-5 / 1e-3 off the axis (a = 1-w^2 around 1e-10)");
    R.sample("gq#k: coefficients in {-1,0,1}^10, lattice + generated on-surface + far points");
    R.sample("far point (1e6,1e6,-1e6) aimed at an on-surface point: cancellation regime");
    return 0;
}

//---------------------------------------------------------------------------//
int part_xform(vf::Run& R);
int part_inv(vf::Run& R);

int main(int argc, char** argv)
{
    vf::Run R(argc, argv, "C12", "c12_surfaces");
    std::string part = R.part();
    if (part.empty() || part == "surf")
        part_surf(R);
    if (part.empty() || part == "xform")
        part_xform(R);
    if (part.empty() || part == "inv")
        part_inv(R);
    return R.finish();
}
