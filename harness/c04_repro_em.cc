// Stand-alone reproductions of what the C04 "em" check reports on the unchanged tree.
//   1 (EPlusGG momentum), 3 (relativistic brems never terminates near the cut) and 4 (SB e+
//   acceptance -> 0 near the cut) fire as violations; 2 (Bhabha NaN within a few ulp of the cut)
//   needs a measure-zero incident energy and is recorded by the check as an observation only;
//   5 (rotate() sign loss near +-z) fires as kn/moller/bhabha:momentum-balance@near-pole.
// Not part of ./check; build by hand:
//   B=/verif/build/rel/celeritas; g++ -std=c++17 -O2 -w -I/verif -I/repo/src -I$B/include \
//     -isystem /root/miniconda/include harness/c04_repro_em.cc -o /tmp/c04_repro_em \
//     -L$B/lib -Wl,-rpath,$B/lib -lceleritas -lorange -lgeocel -lcorecel && /tmp/c04_repro_em
// Uses std::mt19937 (as the unit tests do) except where a specific canonical is needed.
#include <cmath>
#include <cstdio>
#include <random>

#include "celeritas/em/interactor/EPlusGGInteractor.hh"
#include "celeritas/em/interactor/MollerBhabhaInteractor.hh"
#include "celeritas/em/interactor/RelativisticBremInteractor.hh"
#include "celeritas/em/interactor/SeltzerBergerInteractor.hh"
#include "celeritas/em/model/SeltzerBergerModel.hh"
#include "celeritas/io/SeltzerBergerReader.hh"
#include "celeritas/em/model/RelativisticBremModel.hh"
#include "celeritas/em/xs/RBDiffXsCalculator.hh"
#include "corecel/math/ArrayUtils.hh"
#include "problems/interactor_env.hh"

using namespace celeritas;
using MevEnergy = units::MevEnergy;

// Engine that stops after a number of words (to show a non-terminating rejection loop)
struct Limited
{
    using result_type = unsigned int;
    static constexpr result_type min() { return 0u; }
    static constexpr result_type max() { return 0xffffffffu; }
    std::mt19937 g{12345};
    unsigned long n = 0, limit = 10000000;
    result_type operator()()
    {
        if (++n > limit)
            throw n;
        return g();
    }
};

int main()
{
    vf::InteractorEnv env;  // default particles, materials
    using namespace units;
    MaterialParams::Input mi;
    mi.elements = {{AtomicNumber{82}, AmuMass{207.2}, {}, Label{"Pb"}}};
    mi.materials = {{native_value_from(MolCcDensity{0.05477}), 293.15, MatterState::solid,
                     {{ElementId{0}, 1.0}}, Label{"Pb"}}};
    env.set_material_params(mi);
    env.resize_secondaries(16);
    ParticleId e = env.pid(pdg::electron()), p = env.pid(pdg::positron()),
               g = env.pid(pdg::gamma());
    double const m = env.particle_params()->get(e).mass().value();

    // ------------------------------------------------------------------ //
    printf("== 1. EPlusGGInteractor: in-flight annihilation does not conserve momentum\n");
    {
        EPlusGGData data;
        data.positron = p;
        data.gamma = g;
        data.electron_mass = MevMass{m};
        env.set_inc_particle(p, MevEnergy{1.0});
        env.set_inc_direction({0, 0, 1});
        env.set_free_slots(16);
        EPlusGGInteractor interact(data, env.particle_track(), env.direction(),
                                   env.secondary_allocator());
        std::mt19937 rng(1);
        for (int i = 0; i < 3; ++i)
        {
            Interaction r = interact(rng);
            auto const& a = r.secondaries[0];
            auto const& b = r.secondaries[1];
            double pin = std::sqrt(1.0 * (1.0 + 2 * m));
            double res[3];
            for (int k = 0; k < 3; ++k)
                res[k] = pin * env.direction()[k] - a.energy.value() * a.direction[k]
                         - b.energy.value() * b.direction[k];
            printf("   gamma1 E=%.6f dir=(%.4f,%.4f,%.4f)  gamma2 E=%.6f dir=(%.4f,%.4f,%.4f)"
                   "  p_in - p_out = (%.4f,%.4f,%.4f) MeV/c   [expected (0,0,0)]\n",
                   a.energy.value(), a.direction[0], a.direction[1], a.direction[2],
                   b.energy.value(), b.direction[0], b.direction[1], b.direction[2], res[0],
                   res[1], res[2]);
        }
        printf("   gamma2 is always emitted along the incident direction: EPlusGGInteractor.hh "
               "passes {inc_energy_, inc_direction_} instead of {gamma_energy, "
               "secondaries[0].direction} to calc_exiting_direction\n");
    }

    // ------------------------------------------------------------------ //
    printf("== 2. MollerBhabhaInteractor (e+): NaN directions just above the electron cut\n");
    {
        MollerBhabhaData data;
        data.ids.electron = e;
        data.ids.positron = p;
        data.electron_mass = MevMass{m};
        double const cut = 0.01;
        env.set_cutoffs({{pdg::electron(), MevEnergy{cut}}});
        auto cutoffs = env.cutoff_view();
        for (int ulps : {1, 2, 1000, 1000000})
        {
            double E = cut;
            for (int i = 0; i < ulps && i < 4; ++i)
                E = std::nextafter(E, 1.0);
            if (ulps > 4)
                E = cut * (1 + ulps * 2.220446049250313e-16);
            env.set_inc_particle(p, MevEnergy{E});
            env.set_free_slots(16);
            MollerBhabhaInteractor interact(data, env.particle_track(), cutoffs, env.direction(),
                                            env.secondary_allocator());
            std::mt19937 rng(1);
            int bad = 0, n = 1000;
            Interaction last;
            for (int i = 0; i < n; ++i)
            {
                env.set_free_slots(16);
                Interaction r = interact(rng);
                bool nan = std::isnan(r.direction[0]) || std::isnan(r.secondaries[0].direction[0]);
                if (nan)
                {
                    ++bad;
                    last = r;
                }
            }
            printf("   cut=%g E=cut*(1+%d ulp): %d of %d mt19937 samples have a NaN direction",
                   cut, ulps, bad, n);
            if (bad)
                printf("  e.g. E'=%.17g dir'=(%g,%g,%g) delta E=%.17g dir=(%g,%g,%g)",
                       last.energy.value(), last.direction[0], last.direction[1],
                       last.direction[2], last.secondaries[0].energy.value(),
                       last.secondaries[0].direction[0], last.secondaries[0].direction[1],
                       last.secondaries[0].direction[2]);
            printf("\n");
        }
        env.set_cutoffs({});
    }

    // ------------------------------------------------------------------ //
    printf("== 3. RelativisticBremInteractor: rejection loop never terminates when the photon "
           "cut is close to (or above) the incident energy in lead\n");
    {
        auto ip_e = env.make_import_process(
            pdg::electron(), pdg::gamma(), ImportProcessClass::e_brems,
            {ImportModelClass::e_brems_sb, ImportModelClass::e_brems_lpm});
        auto ip_p = ip_e;
        ip_p.particle_pdg = pdg::positron().get();
        auto imported = env.make_imported({ip_e, ip_p});
        RelativisticBremModel model(ActionId{0}, *env.particle_params(), *env.material_params(),
                                    imported, false);
        auto const& ref = model.host_ref();
        env.set_material("Pb");
        auto material = env.material_view();
        double const E = 5000;  // 5 GeV electron
        env.set_inc_particle(e, MevEnergy{E});
        // where does the differential cross section vanish?
        {
            RBDiffXsCalculator dxs(ref, env.particle_track(), material, ElementComponentId{0});
            double ylast = 0;
            for (double y = 0.5; y < 1; y += (1 - y) / 64)
            {
                if (dxs(MevEnergy{y * E}) > 0)
                    ylast = y;
                else
                    break;
            }
            printf("   Pb, E=%g MeV: dxsec(k) > 0 up to k/E = %.6f, exactly 0 above\n", E, ylast);
        }
        for (double cut : {0.9 * E, 0.99 * E, 0.999 * E, 2 * E})
        {
            env.set_cutoffs({{pdg::gamma(), MevEnergy{cut}}});
            auto cutoffs = env.cutoff_view();
            env.set_free_slots(16);
            RelativisticBremInteractor interact(ref, env.particle_track(), env.direction(),
                                                cutoffs, env.secondary_allocator(), material,
                                                ElementComponentId{0});
            Limited rng;
            try
            {
                Interaction r = interact(rng);
                printf("   cut=%g: photon %.6g MeV after %lu words\n", cut,
                       r.secondaries[0].energy.value(), rng.n);
            }
            catch (unsigned long)
            {
                printf("   cut=%g: still rejecting after 10^7 random words  [expected: "
                       "termination]\n",
                       cut);
            }
        }
    }
    // ------------------------------------------------------------------ //
    printf("== 4. SeltzerBergerInteractor (e+): acceptance -> 0 as E -> cut+ (positron xs "
           "correction), draws unbounded\n");
    {
        vf::InteractorEnv cu;
        MaterialParams::Input mc;
        mc.elements = {{AtomicNumber{29}, AmuMass{63.546}, {}, Label{"Cu"}}};
        mc.materials = {{native_value_from(MolCcDensity{0.141}), 293.0, MatterState::solid,
                         {{ElementId{0}, 1.0}}, Label{"Cu"}}};
        cu.set_material_params(mc);
        cu.resize_secondaries(16);
        char const* repo = getenv("VERIF_REPO");
        std::string path = std::string(repo && *repo ? repo : "/repo") + "/test/celeritas/data/";
        SeltzerBergerReader read_sb(path.c_str());
        auto ip_e = cu.make_import_process(
            pdg::electron(), pdg::gamma(), ImportProcessClass::e_brems,
            {ImportModelClass::e_brems_sb, ImportModelClass::e_brems_lpm});
        auto ip_p = ip_e;
        ip_p.particle_pdg = pdg::positron().get();
        auto imported = cu.make_imported({ip_e, ip_p});
        SeltzerBergerModel model(ActionId{0}, *cu.particle_params(), *cu.material_params(),
                                 imported, read_sb);
        auto const& ref = model.host_ref();
        auto material = cu.material_view();
        double const cut = 0.02;
        cu.set_cutoffs({{pdg::gamma(), MevEnergy{cut}}});
        auto cutoffs = cu.cutoff_view();
        for (double rel : {1e-1, 1e-3, 2e-5, 1e-7, 1e-9})
        {
            for (bool positron : {false, true})
            {
                cu.set_inc_particle(positron ? cu.pid(pdg::positron()) : cu.pid(pdg::electron()),
                                    MevEnergy{cut * (1 + rel)});
                Limited rng;
                rng.limit = 400000000ul;
                unsigned long maxw = 0, tot = 0;
                int n = 200, done = 0;
                try
                {
                    for (int i = 0; i < n; ++i)
                    {
                        cu.set_free_slots(16);
                        SeltzerBergerInteractor interact(ref, cu.particle_track(), cu.direction(),
                                                         cutoffs, cu.secondary_allocator(),
                                                         material, ElementComponentId{0});
                        unsigned long n0 = rng.n;
                        interact(rng);
                        ++done;
                        tot += rng.n - n0;
                        if (rng.n - n0 > maxw)
                            maxw = rng.n - n0;
                    }
                }
                catch (unsigned long)
                {
                }
                printf("   %s E=cut*(1+%g): %d/%d interactions finished, mean %.0f words, max %lu "
                       "words\n",
                       positron ? "e+" : "e-", rel, done, n, done ? double(tot) / done : 0.0,
                       maxw);
            }
        }
    }
    // ------------------------------------------------------------------ //
    printf("== 5. rotate() (corecel/math/ArrayUtils.hh) loses the sign of the y component for an "
           "incident direction within 0.005 rad of +-z: exiting directions are built around "
           "the mirror image (x,-y,z)\n");
    {
        for (double y : {8e-4, -8e-4})
        {
            env.set_inc_direction({6e-4, y, 1.0});
            Real3 const rot = env.direction();
            double worst = 0;
            for (double ct : {-0.5, 0.0, 0.5})
                for (double phi : {0.3, 1.3, 2.3, 4.0})
                {
                    Real3 r = rotate(from_spherical(ct, phi), rot);
                    worst = std::fmax(worst, std::fabs(dot_product(r, rot) - ct));
                }
            printf("   incident (6e-4,%g,1)/|.|: max |cos(result, incident) - cos(theta)| = %.3g"
                   "   [expected ~1e-14]\n",
                   y, worst);
        }
        printf("   seen by C04 as kn/moller/bhabha:momentum-balance@near-pole; fix: sinphi = "
               "rot[Y] / hyp instead of sqrt(1 - cosphi^2)\n");
    }
    return 0;
}
