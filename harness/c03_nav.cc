// C03 - geometry navigation matches true point location along every ray and under every
// documented interleaving of find-next-step / move / cross / set-direction.
//
// part "rays" (E4 lattice): geometry zoo (+ hex-array, g6, g7 = x-/y-aligned cylinders and cones,
//   ra* arrays, two of them with a non-zero grid origin and alternating widths) x {start lattice, one oracle-placed start
//   inside every distinct volume chain (oracle/geo_samples.hh)} x direction set; every ray is
//   traced with the real OrangeTrackView until it leaves the world; each segment, crossing, the
//   position after move_to_boundary (= start + distance x direction, on a surface of some level)
//   and the distance-limited search are judged by the independent oracle (oracle/geo_oracle.hh).
//   Plus an initialise-only lattice (15^3 / 25^3): volume chain and per-level positions.
// part "ops" (E2 explicit-state search over operation histories): depth-bounded DFS over the
//   real transition functions with state snapshot/restore and sharing of identical states;
//   invariants I1..I5 (see DESIGN.md C03) evaluated on every transition, plus
//     I6 the global position after move_internal / move_to_boundary is start + distance x
//        direction (the harness keeps its own account of the remaining step), and a point
//        flagged on-boundary lies within 2 tol of a surface of some level;
//     I7 re-initialising the used slot (from ANY reached state) reproduces the root state.
//   Roots: start lattice + one oracle-placed point inside every volume chain (so that surfaces
//   of nesting level 1 and 2, e.g. of the twice rotated leaf of g4, are two operations away),
//   visited round-robin over the geometries.  On a surface of a nested level the set_dir
//   alphabet also contains directions a few degrees off the tangent plane of the oracle's normal.
//
// Signatures of the two recorded coincident-surface findings carry the geometry name
// ("...@<geometry>"): a finding recorded for one input does not swallow the symptom elsewhere.
//
// Soundness notes
//  * the oracle makes no claim within eps_amb = 10 tol of any surface; probes along the ray
//    are placed eps_probe = 10 eps_amb off a crossing, so a boundary displaced by less than
//    ~1e-6 x scale is not reported (the property allows the geometry tolerance).
//  * operation sequences follow the documented call order (class comment of OrangeTrackView
//    and its CELER_EXPECTs, which are compiled out here): see enabled_ops().
#include <algorithm>
#include <cmath>
#include <cstring>
#include <functional>
#include <string>
#include <unordered_set>
#include <vector>

#include "corecel/math/ArrayUtils.hh"
#include "orange/detail/LevelStateAccessor.hh"
#include "engine/harness.hh"
#include "oracle/geo_oracle.hh"
#include "oracle/geo_samples.hh"
#include "problems/geo_zoo.hh"

using namespace celeritas;
using vf::fmt;
using vf::GeoEnv;
using vf::OLocation;
using D3 = std::array<double, 3>;

//---------------------------------------------------------------------------//
static std::string d3s(D3 const& a)
{
    return fmt("[%.17g,%.17g,%.17g]", a[0], a[1], a[2]);
}
static D3 r3(Real3 const& r)
{
    return {r[0], r[1], r[2]};
}
static D3 axpy3(D3 const& p, double t, D3 const& d)
{
    return {p[0] + t * d[0], p[1] + t * d[1], p[2] + t * d[2]};
}
static D3 unit3(D3 v)
{
    double n = std::sqrt(v[0] * v[0] + v[1] * v[1] + v[2] * v[2]);
    return {v[0] / n, v[1] / n, v[2] / n};
}

//! chain of (universe, local volume) of an oracle location as a string key
static std::string chain_of(OLocation const& l)
{
    std::string s;
    for (auto const& lv : l.levels)
        s += fmt("%d:%d/", lv.universe, lv.local_volume);
    return s;
}

struct Ctx
{
    vf::Run& R;
    GeoEnv& env;
    double scale, eps_amb, eps_probe, tol_len;

    //! chain reported by the real navigator state (slot)
    std::string real_chain(size_type slot = 0) const
    {
        auto const& st = env.state.ref();
        std::string s;
        int level = st.level[TrackSlotId{slot}].unchecked_get();
        for (int l = 0; l <= level; ++l)
        {
            detail::LevelStateAccessor lsa(&st, TrackSlotId{slot}, LevelId(l));
            s += fmt("%d:%d/", int(lsa.universe().unchecked_get()), int(lsa.vol().unchecked_get()));
        }
        return s;
    }
    OLocation locate(D3 const& p) const { return env.oracle->locate(p, eps_amb); }
    //! The point p (start of a search) lies, within 2 tol, on surfaces of >= 2 universe levels
    bool coincident_start(D3 const& p, D3 const& d) const
    {
        OLocation ahead = locate(axpy3(p, eps_probe, d));
        if (ahead.status != OLocation::ok)
            return false;
        return env.oracle->levels_touching_surface(p, ahead, 2 * tol_len) >= 2;
    }
};

//---------------------------------------------------------------------------//
// Checks shared by both parts
//---------------------------------------------------------------------------//

//! I1 + I5: off-boundary state agrees with the oracle at every level
static bool check_located(Ctx& c, OrangeTrackView& v, std::string const& cid, char const* when)
{
    D3 p = r3(v.pos());
    OLocation loc = c.locate(p);
    if (loc.status != OLocation::ok)
    {
        c.R.count(loc.status == OLocation::ambiguous ? "skipped_ambiguous" : "skipped_invalid");
        return true;
    }
    c.R.count("oracle_located");
    std::string want = chain_of(loc), got = c.real_chain();
    if (want != got || int(v.volume_id().unchecked_get()) != loc.global_volume
        || v.is_outside() != loc.outside)
    {
        c.R.violation("nav:volume-desync", cid,
                      fmt("%s: geometry %s pos %s dir %s: navigator reports %s (%s, outside=%d) "
                          "oracle locates %s (%s, outside=%d)",
                          when, c.env.name.c_str(), d3s(p).c_str(), d3s(r3(v.dir())).c_str(),
                          got.c_str(),
                          c.env.oracle->volume_name(v.volume_id().unchecked_get()).c_str(),
                          int(v.is_outside()), want.c_str(),
                          c.env.oracle->volume_name(loc.global_volume).c_str(), int(loc.outside)));
        return false;
    }
    // I5: per-level positions are the transformed global position
    auto const& st = c.env.state.ref();
    for (size_t l = 0; l < loc.levels.size(); ++l)
    {
        detail::LevelStateAccessor lsa(&st, TrackSlotId{0}, LevelId(l));
        for (int k = 0; k < 3; ++k)
        {
            if (std::fabs(double(loc.levels[l].pos[k]) - lsa.pos()[k]) > 1e-9 * c.scale)
            {
                c.R.violation("nav:level-position-drift", cid,
                              fmt("%s: geometry %s level %zu local pos %s but transformed global "
                                  "pos is [%.17Lg,%.17Lg,%.17Lg]",
                                  when, c.env.name.c_str(), l, d3s(r3(lsa.pos())).c_str(),
                                  loc.levels[l].pos[0], loc.levels[l].pos[1], loc.levels[l].pos[2]));
                return false;
            }
        }
    }
    return true;
}

//! The global position after a move equals the position before + distance * direction.
//! Tolerance 1e-9 x scale: the move itself is one axpy per level (a few ulp of the coordinates,
//! ~1e-15 x scale); everything above that is a displaced track.
static bool check_moved_to(Ctx& c, OrangeTrackView& v, D3 const& want, std::string const& cid,
                           char const* when)
{
    D3 p = r3(v.pos());
    double err = 0;
    for (int k = 0; k < 3; ++k)
        err = std::max(err, std::fabs(p[k] - want[k]));
    c.R.count("position_checks");
    if (!(err <= 1e-9 * c.scale))
    {
        c.R.violation("nav:position-displaced", cid,
                      fmt("%s: geometry %s: position %s but start + distance x direction is %s "
                          "(off by %.3g)",
                          when, c.env.name.c_str(), d3s(p).c_str(), d3s(want).c_str(), err));
        return false;
    }
    return true;
}

//! A point flagged "on boundary" lies (within 2 tol, first order) on a surface of at least one
//! level of the chain it is heading into; no claim when the oracle cannot locate the point ahead.
static bool check_on_some_surface(Ctx& c, OrangeTrackView& v, std::string const& cid, char const* when)
{
    D3 p = r3(v.pos()), d = r3(v.dir());
    OLocation ahead = c.locate(axpy3(p, c.eps_probe, d));
    if (ahead.status != OLocation::ok)
    {
        c.R.count("skipped_ambiguous");
        return true;
    }
    c.R.count("oracle_on_surface");
    if (c.env.oracle->levels_touching_surface(p, ahead, 2 * c.tol_len) < 1)
    {
        // the chain behind may own the surface (leaving a daughter: the surface belongs to a level
        // that the chain ahead does not have)
        OLocation behind = c.locate(axpy3(p, -c.eps_probe, d));
        if (behind.status != OLocation::ok)
        {
            c.R.count("skipped_ambiguous");
            return true;
        }
        if (c.env.oracle->levels_touching_surface(p, behind, 2 * c.tol_len) >= 1)
            return true;
        c.R.violation("nav:on-boundary-off-every-surface", cid,
                      fmt("%s: geometry %s: the track is flagged on a boundary at %s (direction %s) "
                          "but no surface of any level passes within 2 tol of that point",
                          when, c.env.name.c_str(), d3s(p).c_str(), d3s(d).c_str()));
        return false;
    }
    return true;
}

//! An internal move ended within the oracle's ambiguity distance (10 tol) of some surface of some
//! level - typically EXACTLY on an internal surface of the current volume (midpoint of a symmetric
//! chord: e.g. nested-rect-arrays "find,tobound,setdir:-1,cross,find,mpos:0.5" ends at y = 0, a
//! plane of the array box that cuts through the surrounding world volume).  The track is then a
//! start point "within tolerance of a surface" without surface state, which the property excludes
//! (the navigator refuses to initialise there; a following search from there may mis-set that
//! surface's sense).  No claim is made for the futures of such a state: the branch is cut.
static bool position_on_a_surface(Ctx& c, OrangeTrackView& v)
{
    OLocation loc = c.locate(r3(v.pos()));
    if (loc.status == OLocation::ambiguous)
    {
        c.R.count("pruned_move_ended_within_tolerance_of_a_surface");
        return true;
    }
    return false;
}

//! On a boundary with the crossing decided: the reported volume is the one being entered
static bool check_heading(Ctx& c, OrangeTrackView& v, std::string const& cid, char const* when)
{
    D3 p = r3(v.pos()), d = r3(v.dir());
    OLocation loc = c.locate(axpy3(p, c.eps_probe, d));
    if (loc.status != OLocation::ok)
    {
        c.R.count(loc.status == OLocation::ambiguous ? "skipped_ambiguous" : "skipped_invalid");
        return true;
    }
    if (!c.env.oracle->clean_crossing(p, loc, 1.5 * c.eps_probe, 2 * c.tol_len))
    {
        // corner / edge / feature thinner than the probe distance: no claim
        c.R.count("skipped_unclean_crossing");
        return true;
    }
    c.R.count("oracle_heading");
    std::string want = chain_of(loc), got = c.real_chain();
    if (want != got || v.is_outside() != loc.outside)
    {
        c.R.violation("nav:wrong-volume-after-crossing", cid,
                      fmt("%s: geometry %s on boundary at %s heading %s: navigator reports %s (%s) "
                          "but the point %g further along is in %s (%s)",
                          when, c.env.name.c_str(), d3s(p).c_str(), d3s(d).c_str(), got.c_str(),
                          c.env.oracle->volume_name(v.volume_id().unchecked_get()).c_str(),
                          c.eps_probe, want.c_str(),
                          c.env.oracle->volume_name(loc.global_volume).c_str()));
        return false;
    }
    return true;
}

//! I3: a step {d, boundary} from the current point: nothing changes on (eps, d-eps), and a
//! real boundary sits at d.  `here` = chain of the volume being travelled in.
static bool check_step(Ctx& c, D3 const& p, D3 const& d, double dist, bool boundary,
                       std::string const& here, std::string const& cid, char const* when)
{
    int const nsub = 16;
    for (int k = 0; k < nsub; ++k)
    {
        double t = dist * (k + 0.5) / nsub;
        if (t < c.eps_probe || dist - t < c.eps_probe)
            continue;
        OLocation loc = c.locate(axpy3(p, t, d));
        if (loc.status != OLocation::ok)
        {
            c.R.count("skipped_ambiguous");
            continue;
        }
        c.R.count("oracle_segment");
        if (chain_of(loc) != here)
        {
            c.R.violation(c.coincident_start(p, d)
                              ? "nav:boundary-skipped:start-on-surface-shared-between-levels@"
                                    + c.env.name
                              : std::string("nav:boundary-skipped"),
                          cid,
                          fmt("%s: geometry %s from %s along %s the navigator reports a free step "
                              "of %.17g in %s, but at distance %.17g the oracle locates %s (%s)",
                              when, c.env.name.c_str(), d3s(p).c_str(), d3s(d).c_str(), dist,
                              here.c_str(), t, chain_of(loc).c_str(),
                              c.env.oracle->volume_name(loc.global_volume).c_str()));
            return false;
        }
    }
    if (boundary && dist > 2 * c.eps_probe)
    {
        OLocation a = c.locate(axpy3(p, dist - c.eps_probe, d));
        OLocation b = c.locate(axpy3(p, dist + c.eps_probe, d));
        if (a.status == OLocation::ok && b.status == OLocation::ok
            && c.env.oracle->clean_crossing(axpy3(p, dist, d), b, 1.5 * c.eps_probe, 2 * c.tol_len))
        {
            c.R.count("oracle_crossing");
            if (chain_of(a) == chain_of(b))
            {
                c.R.violation(c.coincident_start(p, d)
                                  ? "nav:boundary-invented:start-on-surface-shared-between-levels@"
                                        + c.env.name
                                  : std::string("nav:boundary-invented"),
                              cid,
                              fmt("%s: geometry %s from %s along %s the navigator reports a "
                                  "boundary at %.17g but the oracle finds the same volume %s on "
                                  "both sides",
                                  when, c.env.name.c_str(), d3s(p).c_str(), d3s(d).c_str(), dist,
                                  chain_of(a).c_str()));
                return false;
            }
        }
        else
            c.R.count("skipped_ambiguous");
    }
    return true;
}

//! I4: the distance-limited search equals the unlimited answer truncated at the limit
//! (evaluated on a copy of the state in slot 1 so that slot 0 is untouched)
static bool check_limited(Ctx& c, OrangeTrackView& v, Propagation full, std::string const& cid)
{
    if (!(full.distance > 0) || !std::isfinite(full.distance))
        return true;
    for (double f : {0.5, 1.0, 2.0})
    {
        double maxd = f * full.distance;
        auto v1 = c.env.view(1);
        Real3 dir = v.dir();
        v1 = OrangeTrackView::DetailedInitializer{v, dir};
        Propagation lim = v1.find_next_step(maxd);
        c.R.count("transitions");
        c.R.count("op_find_limited");
        bool ok;
        double tol = 1e-9 * c.scale;
        if (f < 1.0)
            ok = !lim.boundary && std::fabs(lim.distance - maxd) <= tol;
        else if (f > 1.0)
            ok = (lim.boundary == full.boundary) && std::fabs(lim.distance - full.distance) <= tol;
        else  // limit == distance: either answer is a correct truncation
            ok = std::fabs(lim.distance - full.distance) <= tol;
        if (!ok)
        {
            c.R.violation("nav:limited-search-differs", cid,
                          fmt("geometry %s pos %s dir %s: find_next_step()={%.17g,%d} but "
                              "find_next_step(%.17g)={%.17g,%d}",
                              c.env.name.c_str(), d3s(r3(v.pos())).c_str(),
                              d3s(r3(v.dir())).c_str(), full.distance, int(full.boundary), maxd,
                              lim.distance, int(lim.boundary)));
            return false;
        }
    }
    return true;
}

//! A failed cross_boundary: classify and report.  The navigator leaves the failing level's
//! universe and local position in the state; if that position evaluates to *exactly* "on" one
//! of that universe's surfaces (real surface classes), the failure is the documented refusal to
//! initialise on a surface, hit while descending into a daughter whose boundary coincides with
//! the surface just crossed.
static void report_cross_failure(Ctx& c, OrangeTrackView& v, D3 const& dir, std::string const& cid)
{
    D3 p = r3(v.pos());
    OLocation nx = c.locate(axpy3(p, c.eps_probe, dir));
    if (nx.status != OLocation::ok
        || !c.env.oracle->clean_crossing(p, nx, 1.5 * c.eps_probe, 2 * c.tol_len))
    {
        c.R.count("skipped_unclean_crossing");
        return;
    }
    auto const& st = c.env.state.ref();
    int level = st.level[TrackSlotId{0}].unchecked_get();
    detail::LevelStateAccessor lsa(&st, TrackSlotId{0}, LevelId(level));
    int uid = lsa.universe().unchecked_get();
    Real3 lpos = lsa.pos();
    bool exactly_on = false;
    if (auto const* unit = std::get_if<UnitInput>(&c.env.input.universes[uid]))
    {
        for (auto const& vs : unit->surfaces)
            std::visit(
                [&](auto const& s) {
                    if (s.calc_sense(lpos) == SignedSense::on)
                        exactly_on = true;
                },
                vs);
    }
    // ... or within the tolerance of one (rounding puts the transformed point on the wrong
    // side of the daughter's copy of the surface just crossed)
    bool near = false;
    {
        vf::OUniverse const& ou = c.env.oracle->universe(uid);
        vf::P3 lp = {lpos[0], lpos[1], lpos[2]};
        for (auto const& sf : ou.surfaces)
        {
            vf::LD f, h2;
            vf::P3 g;
            vf::eval_surface(sf, lp, &f, &g, &h2);
            vf::LD gn = std::sqrt(g[0] * g[0] + g[1] * g[1] + g[2] * g[2]);
            if (gn > 0 && std::fabs(f) / gn < 2 * c.tol_len)
                near = true;
        }
    }
    // ... and only when the failure happened while DESCENDING into a daughter (failing level
    // deeper than the level of the surface crossed): when the crossed level's own tracker fails,
    // the point is on the crossed surface by construction and the test above says nothing.
    // The signature carries the geometry: a known finding recorded for one input must not
    // swallow the same symptom elsewhere.
    int surf_level = st.surface_level[TrackSlotId{0}]
                         ? int(st.surface_level[TrackSlotId{0}].unchecked_get())
                         : -1;
    bool descending = surf_level >= 0 && level > surf_level;
    // Other manifestation of the same configuration: the track LEAVES a daughter through a
    // surface that the daughter shares with the parent level (coincident copies at two levels); the
    // daughter's copy wins the distance tie by rounding and the daughter-level tracker finds no
    // volume behind it (the daughter has no background).  Recognised by: failing level = level of
    // the crossed surface > 0 and the point lies on surfaces of >= 2 levels of the chain it leaves.
    bool shared = false;
    if (level > 0 && !descending)
    {
        OLocation bh = c.locate(axpy3(p, -c.eps_probe, dir));
        shared = bh.status == OLocation::ok
                 && c.env.oracle->levels_touching_surface(p, bh, 2 * c.tol_len) >= 2;
    }
    std::string sig = (level > 0 && descending && (exactly_on || near))
                          ? "nav:cross-failed:daughter-init-on-coincident-surface@" + c.env.name
                      : (level > 0 && shared)
                          ? "nav:cross-failed:daughter-level-crossing-on-surface-shared-between-levels@"
                                + c.env.name
                          : std::string("nav:cross-failed");
    c.R.tag("crossfail:" + c.env.name);
    c.R.violation(sig, cid,
                  fmt("geometry %s: cross_boundary failed at %s dir %s (failing level %d, universe "
                      "%d, local position %s%s) although the oracle locates the next point in %s",
                      c.env.name.c_str(), d3s(p).c_str(), d3s(dir).c_str(), level, uid,
                      d3s(r3(lpos)).c_str(), exactly_on ? " = exactly on a surface of it" : "",
                      chain_of(nx).c_str()));
}

//! Global unit normal of the surface the boundary point p lies on, from the oracle: the surface
//! (of any level of the chain ahead of / behind the point) nearest to p in first order, its
//! gradient rotated up through the daughter transforms.  false: no claim (ambiguous / unclean).
static bool oracle_normal(Ctx& c, D3 const& p, D3 const& d, D3* normal, int* surf_level)
{
    for (double sgn : {1.0, -1.0})
    {
        OLocation loc = c.locate(axpy3(p, sgn * c.eps_probe, d));
        if (loc.status != OLocation::ok)
            continue;
        vf::LD best = 2 * c.tol_len;
        bool found = false;
        vf::P3 pos = {p[0], p[1], p[2]};
        for (size_t l = 0; l < loc.levels.size(); ++l)
        {
            vf::OUniverse const& u = c.env.oracle->universe(loc.levels[l].universe);
            if (u.is_array)
            {
                for (int a = 0; a < 3; ++a)
                    for (double gv : u.grid[a])
                        if (std::fabs(pos[a] - gv) < best)
                        {
                            best = std::fabs(pos[a] - gv);
                            vf::P3 nl = {0, 0, 0};
                            nl[a] = 1;
                            vf::P3 ng = vf::detail_samples::vec_up(*c.env.oracle, loc, l, nl);
                            *normal = {double(ng[0]), double(ng[1]), double(ng[2])};
                            *surf_level = int(l);
                            found = true;
                        }
            }
            else
            {
                for (auto const& sf : u.surfaces)
                {
                    vf::LD f, h2;
                    vf::P3 g;
                    vf::eval_surface(sf, pos, &f, &g, &h2);
                    vf::LD gn = std::sqrt(g[0] * g[0] + g[1] * g[1] + g[2] * g[2]);
                    if (gn > 0 && std::fabs(f) / gn < best)
                    {
                        best = std::fabs(f) / gn;
                        vf::P3 nl = {g[0] / gn, g[1] / gn, g[2] / gn};
                        vf::P3 ng = vf::detail_samples::vec_up(*c.env.oracle, loc, l, nl);
                        *normal = {double(ng[0]), double(ng[1]), double(ng[2])};
                        *surf_level = int(l);
                        found = true;
                    }
                }
            }
            // descend
            vf::ODaughter const* dau = nullptr;
            int lv = loc.levels[l].local_volume;
            if (u.is_array)
                dau = &u.daughters.at(lv);
            else if (u.volumes[lv].daughter >= 0)
                dau = &u.daughters[u.volumes[lv].daughter];
            if (!dau)
                break;
            pos = dau->down(pos);
        }
        if (found)
            return true;
    }
    return false;
}

//! Direction at `deg` degrees from the tangent plane of normal n (positive: along +n), in the
//! tangent direction #ti of four (every 45 degrees of the half circle)
static D3 near_tangent_dir(D3 const& n, int ti, double deg)
{
    int a = 0;
    for (int k = 1; k < 3; ++k)
        if (std::fabs(n[k]) < std::fabs(n[a]))
            a = k;
    D3 e = {0, 0, 0};
    e[a] = 1;
    D3 t0 = unit3({n[1] * e[2] - n[2] * e[1], n[2] * e[0] - n[0] * e[2], n[0] * e[1] - n[1] * e[0]});
    D3 t1 = {n[1] * t0[2] - n[2] * t0[1], n[2] * t0[0] - n[0] * t0[2], n[0] * t0[1] - n[1] * t0[0]};
    // a slightly irregular fan (no tangent exactly along a local axis of an axis-aligned box)
    double phi = (ti * 45.0 + 11.0) * M_PI / 180;
    D3 t = {std::cos(phi) * t0[0] + std::sin(phi) * t1[0], std::cos(phi) * t0[1] + std::sin(phi) * t1[1],
            std::cos(phi) * t0[2] + std::sin(phi) * t1[2]};
    double th = deg * M_PI / 180;
    return unit3({std::cos(th) * t[0] + std::sin(th) * n[0], std::cos(th) * t[1] + std::sin(th) * n[1],
                  std::cos(th) * t[2] + std::sin(th) * n[2]});
}

//---------------------------------------------------------------------------//
// Direction and point alphabets
//---------------------------------------------------------------------------//
static std::vector<D3> lattice_dirs26()
{
    std::vector<D3> v;
    for (int i = -1; i <= 1; ++i)
        for (int j = -1; j <= 1; ++j)
            for (int k = -1; k <= 1; ++k)
                if (i || j || k)
                    v.push_back(unit3({double(i), double(j), double(k)}));
    return v;
}
static std::vector<D3> irrational_dirs(int n)
{
    // fixed "generic" directions: no component ratio is a simple rational
    std::vector<D3> v;
    double const g = 0.6180339887498949, s2 = 1.4142135623730951, e = 2.718281828459045;
    for (int i = 0; i < n; ++i)
    {
        double z = -1 + 2 * std::fmod((i + 0.5) * g, 1.0);
        double phi = 2 * M_PI * std::fmod((i + 0.5) * (s2 - 1) + 0.1 * e, 1.0);
        double r = std::sqrt(1 - z * z);
        v.push_back(unit3({r * std::cos(phi), r * std::sin(phi), z}));
    }
    return v;
}

//---------------------------------------------------------------------------//
// Part A: rays
//---------------------------------------------------------------------------//
static void trace_ray(Ctx& c, D3 const& p0, D3 const& d0, std::string const& cid)
{
    vf::Run& R = c.R;
    auto v = c.env.view(0);
    v = GeoTrackInitializer{Real3{p0[0], p0[1], p0[2]}, Real3{d0[0], d0[1], d0[2]}};
    R.count("transitions");
    R.count("op_init");
    if (v.failed())
    {
        R.violation("nav:init-failed", cid,
                    fmt("geometry %s: initialisation failed at %s which the oracle locates "
                        "unambiguously",
                        c.env.name.c_str(), d3s(p0).c_str()));
        return;
    }
    if (!check_located(c, v, cid, "after initialisation"))
        return;
    int crossings = 0;
    uint64_t path_hash = vf::hash_str(c.real_chain());
    while (!v.is_outside())
    {
        std::string here = c.real_chain();
        Propagation prop = v.find_next_step();
        R.count("transitions");
        R.count("op_find");
        D3 p = r3(v.pos()), d = r3(v.dir());
        if (!prop.boundary || !(prop.distance >= 0) || !std::isfinite(prop.distance))
        {
            R.violation("nav:no-boundary-inside-world", cid,
                        fmt("geometry %s pos %s dir %s in %s: find_next_step={%g,%d}",
                            c.env.name.c_str(), d3s(p).c_str(), d3s(d).c_str(), here.c_str(),
                            prop.distance, int(prop.boundary)));
            return;
        }
        if (!check_step(c, p, d, prop.distance, true, here, cid, "ray segment"))
            return;
        if (!check_limited(c, v, prop, cid))
            return;
        v.move_to_boundary();
        if (!check_moved_to(c, v, axpy3(p, prop.distance, d), cid, "after move_to_boundary")
            || !check_on_some_surface(c, v, cid, "after move_to_boundary"))
            return;
        v.cross_boundary();
        R.count("transitions", 2);
        R.count("op_to_boundary");
        R.count("op_cross");
        if (v.failed())
        {
            report_cross_failure(c, v, d, cid);
            return;
        }
        if (!v.is_on_boundary())
        {
            R.violation("nav:not-on-boundary-after-cross", cid, c.env.name);
            return;
        }
        if (!check_heading(c, v, cid, "after cross_boundary"))
            return;
        if (prop.distance > c.eps_probe && c.real_chain() == here)
        {
            // only meaningful if the oracle is unambiguous on both sides (checked in I3)
            R.tag("ray:same-volume-crossing");
        }
        path_hash = vf::hash_mix(path_hash, vf::hash_str(c.real_chain()));
        if (++crossings > 1000)
        {
            R.violation("nav:ray-does-not-terminate", cid,
                        fmt("geometry %s start %s dir %s: more than 1000 crossings",
                            c.env.name.c_str(), d3s(p0).c_str(), d3s(d0).c_str()));
            return;
        }
    }
    R.maxi("max_crossings", crossings);
    R.outcome(path_hash);
    if (crossings >= 2)
        R.nontrivial(vf::hash_mix(vf::hash_str(c.env.name), path_hash));
}

//! chain representatives placed by the oracle (no near-face points)
static std::vector<vf::OSample> chain_reps(GeoEnv& env, double eps_amb, double scale, int lattice)
{
    vf::OSampleOptions o;
    o.lattice = lattice;
    o.near_faces = false;
    return vf::oracle_samples(*env.oracle, env.lo, env.hi, eps_amb, scale, o);
}

static void part_rays(vf::Run& R)
{
    auto zoo = vf::zoo_entries(true, true);
    int const n = R.thorough() ? 7 : 4;
    auto dirs = lattice_dirs26();
    auto irr = irrational_dirs(R.thorough() ? 12 : 6);
    dirs.insert(dirs.end(), irr.begin(), irr.end());
    // directions used from the oracle-placed chain representatives: the irrational ones, and in
    // thorough every second lattice direction as well
    std::vector<size_t> rep_dirs;
    for (size_t di = 0; di < dirs.size(); ++di)
        if (di >= 26 || (R.thorough() && di % 2 == 0))
            rep_dirs.push_back(di);
    int const minit = R.thorough() ? 25 : 15;  // initialise-only lattice (blocks of minit^2)
    // dyadic starts (see below); points on a surface of the geometry at hand are skipped.
    // NOT part of the default lattice (opt-in: VERIF_C03_DYADIC=1): on the unchanged tree rays
    // exactly through edges / corners give violations of several kinds (RectArrayTracker ignores
    // the zero distance to the tied plane after the crossing and stays in the wrong cell; a
    // grazed edge is found by the limited but not by the unlimited search; a probe beyond a
    // next boundary 2e-16 away) that have not been separated into findings and harness
    // artefacts yet.  E.g. --case ray:rect-array:y=4:d=6, ray:universes:y=6:d=17,
    // ray:ra1x2x6:y=2:d=5.
    std::vector<D3> dyadic;
    if (char const* e = getenv("VERIF_C03_DYADIC"); e && *e == '1')
        dyadic = {{0.5, 0.25, 0.0},     {0.5, 0.5, 0.5},    {1.5, 1.5, 2.5},      {0.25, 0.375, 0.125},
                  {-0.5, 0.5, -0.25},   {2.0, 1.0, 0.5},    {-1.25, -0.75, 0.75}, {0.75, -1.5, -1.25}};
    uint64_t outer = 0;
    for (size_t gi = 0; gi < zoo.size(); ++gi)
    {
        if (R.expired())
            return;
        // every shard builds every geometry: the oracle-placed starts are enumerated from it
        std::unique_ptr<GeoEnv> env;
        try
        {
            env = vf::zoo_make(zoo[gi]);
        }
        catch (std::exception const& e)
        {
            R.tag("geometry-load-failed:" + zoo[gi].name);
            R.note("load-failed:" + zoo[gi].name, e.what());
            continue;
        }
        if (!env->oracle->supported())
        {
            R.tag("geometry-unsupported-by-oracle:" + zoo[gi].name);
            continue;
        }
        if (env->oracle->has_duplicate_surfaces())
        {
            R.tag("geometry-degenerate-duplicate-surfaces:" + zoo[gi].name);
            continue;
        }
        R.tag("geometry:" + zoo[gi].name);
        // surface types of the judged geometries (evidence that e.g. cx / cyc / kx are present)
        for (auto const& u : env->input.universes)
            if (auto const* unit = std::get_if<celeritas::UnitInput>(&u))
                for (auto const& vs : unit->surfaces)
                    R.tag(std::string("surface-type:")
                          + celeritas::to_cstring(std::visit(
                              [](auto const& sf) { return std::decay_t<decltype(sf)>::surface_type(); },
                              vs)));
        double scale = env->scale();
        double tol = std::max(env->oracle->tol_abs(), env->oracle->tol_rel() * scale);
        Ctx c{R, *env, scale, 10 * tol, 100 * tol, tol};
        auto reps = chain_reps(*env, c.eps_amb, scale, R.thorough() ? 25 : 17);
        int const nlat = n * n * n;
        int const total = nlat + int(reps.size()) + minit;
        for (int ip = 0; ip < total + int(dyadic.size()); ++ip, ++outer)
        {
            if (!R.mine(outer))
                continue;
            if (R.expired())
                return;
            if (ip >= total)
            {
                // DYADIC start (absolute coordinates, multiples of 1/8) x the 12 face + 8 space
                // diagonals, whose components are bit-equal: the distances to axis-aligned planes
                // at dyadic positions TIE exactly, the ray passes through edges and corners.
                // The oracle gives no claim at the tie point itself; the segments before and
                // after it are judged as for every other ray.
                D3 p = dyadic[ip - total];
                OLocation l0 = c.locate(p);
                if (l0.status != OLocation::ok || l0.outside)
                {
                    R.count(l0.status == OLocation::ok ? "starts_outside_world" : "starts_ambiguous");
                    continue;
                }
                R.tag("ray-start:dyadic");
                for (size_t di = 0; di < 26; ++di)
                {
                    int nz = (dirs[di][0] != 0) + (dirs[di][1] != 0) + (dirs[di][2] != 0);
                    if (nz < 2)
                        continue;
                    std::string cid = fmt("ray:%s:y=%d:d=%zu", zoo[gi].name.c_str(), ip - total, di);
                    if (!R.want(cid))
                        continue;
                    R.begin_case(cid, 20);
                    trace_ray(c, p, dirs[di], cid);
                    R.count("evaluations");
                    R.count("rays");
                    R.count("rays_dyadic_diagonal");
                    R.end_case();
                }
                continue;
            }
            if (ip >= nlat + int(reps.size()))
            {
                // initialise-only block: x-slab `bx` of a minit^3 lattice; initialise and compare
                // volume chain + per-level positions with the oracle (no tracing)
                int bx = ip - nlat - int(reps.size());
                std::string cid = fmt("init:%s:slab=%d", zoo[gi].name.c_str(), bx);
                if (!R.want(cid))
                    continue;
                R.begin_case(cid, 60);
                for (int iy = 0; iy < minit; ++iy)
                    for (int iz = 0; iz < minit; ++iz)
                    {
                        D3 p = {env->lo[0] + (bx + 0.5 + 0.0091) / minit * (env->hi[0] - env->lo[0]),
                                env->lo[1] + (iy + 0.5 - 0.0183) / minit * (env->hi[1] - env->lo[1]),
                                env->lo[2] + (iz + 0.5 + 0.0237) / minit * (env->hi[2] - env->lo[2])};
                        OLocation l0 = c.locate(p);
                        if (l0.status != OLocation::ok)
                            continue;
                        auto v = env->view(0);
                        D3 d0 = dirs[(iy * minit + iz) % dirs.size()];
                        v = GeoTrackInitializer{Real3{p[0], p[1], p[2]}, Real3{d0[0], d0[1], d0[2]}};
                        R.count("transitions");
                        R.count("op_init_only");
                        if (v.failed())
                        {
                            R.violation("nav:init-failed", cid,
                                        fmt("geometry %s: initialisation failed at %s which the "
                                            "oracle locates unambiguously in %s",
                                            c.env.name.c_str(), d3s(p).c_str(), chain_of(l0).c_str()));
                            break;
                        }
                        if (!check_located(c, v, cid, "after initialisation (init-only lattice)"))
                            break;
                    }
                R.count("evaluations");
                R.end_case();
                continue;
            }
            D3 p;
            bool is_rep = ip >= nlat;
            if (!is_rep)
            {
                int ix = ip / (n * n), iy = (ip / n) % n, iz = ip % n;
                // lattice with small irrational offsets (avoid symmetric coincidences)
                p = {env->lo[0] + (ix + 0.5 + 0.0137) / n * (env->hi[0] - env->lo[0]),
                     env->lo[1] + (iy + 0.5 - 0.0271) / n * (env->hi[1] - env->lo[1]),
                     env->lo[2] + (iz + 0.5 + 0.0319) / n * (env->hi[2] - env->lo[2])};
            }
            else
            {
                p = reps[ip - nlat].p;
                R.tag(fmt("ray-start:chain-representative:depth=%zu",
                          size_t(std::count(reps[ip - nlat].chain.begin(),
                                            reps[ip - nlat].chain.end(), '/'))));
            }
            OLocation l0 = c.locate(p);
            if (l0.status != OLocation::ok || l0.outside)
            {
                R.count(l0.status == OLocation::ok ? "starts_outside_world" : "starts_ambiguous");
                continue;
            }
            for (size_t k = 0; k < (is_rep ? rep_dirs.size() : dirs.size()); ++k)
            {
                size_t di = is_rep ? rep_dirs[k] : k;
                std::string cid = is_rep ? fmt("ray:%s:c=%d:d=%zu", zoo[gi].name.c_str(), ip - nlat, di)
                                         : fmt("ray:%s:p=%d:d=%zu", zoo[gi].name.c_str(), ip, di);
                if (!R.want(cid))
                    continue;
                R.begin_case(cid, 20);
                trace_ray(c, p, dirs[di], cid);
                R.count("evaluations");
                R.count("rays");
                R.end_case();
            }
        }
    }
    R.sample("ray:g3.1:p=21:d=5 = start lattice point 21 of geometry g3.1 (rotated daughter), "
             "direction #5, traced to the world exit with oracle checks on every segment");
    R.sample("ray:rect-array:p=10:d=30 (irrational direction through the bundled rect array)");
    R.sample("ray:g4:c=7:d=27 = ray from the oracle-placed point inside the box of the twice "
             "rotated leaf universe of g4 (three levels)");
}

//---------------------------------------------------------------------------//
// Part B: operation sequences
//---------------------------------------------------------------------------//
struct Snap
{
    // raw copy of slot 0 of the real navigation state
    LevelId level, surface_level, next_level;
    LocalSurfaceId surf, next_surf;
    Sense sense, next_sense;
    BoundaryResult boundary;
    real_type next_step;
    Real3 pos[8], dir[8];
    LocalVolumeId vol[8];
    UniverseId universe[8];
    int depth;
};

static Snap take_snap(GeoEnv& env)
{
    auto const& st = env.state.ref();
    TrackSlotId t{0};
    Snap s;
    memset(&s, 0, sizeof s);
    s.level = st.level[t];
    s.surface_level = st.surface_level[t];
    s.next_level = st.next_level[t];
    s.surf = st.surf[t];
    s.next_surf = st.next_surf[t];
    s.sense = st.sense[t];
    s.next_sense = st.next_sense[t];
    s.boundary = st.boundary[t];
    s.next_step = st.next_step[t];
    s.depth = env.max_depth;
    for (int l = 0; l < env.max_depth && l < 8; ++l)
    {
        detail::LevelStateAccessor lsa(&st, t, LevelId(l));
        s.pos[l] = lsa.pos();
        s.dir[l] = lsa.dir();
        s.vol[l] = lsa.vol();
        s.universe[l] = lsa.universe();
    }
    return s;
}
static void put_snap(GeoEnv& env, Snap const& s)
{
    auto const& st = env.state.ref();
    TrackSlotId t{0};
    st.level[t] = s.level;
    st.surface_level[t] = s.surface_level;
    st.next_level[t] = s.next_level;
    st.surf[t] = s.surf;
    st.next_surf[t] = s.next_surf;
    st.sense[t] = s.sense;
    st.next_sense[t] = s.next_sense;
    st.boundary[t] = s.boundary;
    st.next_step[t] = s.next_step;
    for (int l = 0; l < env.max_depth && l < 8; ++l)
    {
        detail::LevelStateAccessor lsa(&st, t, LevelId(l));
        lsa.pos() = s.pos[l];
        lsa.dir() = s.dir[l];
        lsa.vol() = s.vol[l];
        lsa.universe() = s.universe[l];
    }
}
static uint64_t hash_snap(Snap const& s, int phase)
{
    // hash only the live levels (stale deeper levels do not influence the future)
    uint64_t h = vf::hash_pod(phase);
    int nl = s.level ? int(s.level.unchecked_get()) + 1 : 1;
    h = vf::hash_pod(s.level, h);
    h = vf::hash_pod(s.surface_level, h);
    h = vf::hash_pod(s.surf, h);
    h = vf::hash_pod(s.sense, h);
    h = vf::hash_pod(s.boundary, h);
    h = vf::hash_pod(s.next_step, h);
    h = vf::hash_pod(s.next_surf, h);
    h = vf::hash_pod(s.next_sense, h);
    h = vf::hash_pod(s.next_level, h);
    for (int l = 0; l < nl; ++l)
    {
        h = vf::fnv1a(&s.pos[l], sizeof(Real3), h);
        h = vf::fnv1a(&s.dir[l], sizeof(Real3), h);
        h = vf::hash_pod(s.vol[l], h);
        h = vf::hash_pod(s.universe[l], h);
    }
    return h;
}

enum Phase
{
    ph_free,  // not on a boundary or crossing completed; no valid next step
    ph_next,  // next step known (distance > 0)
    ph_pending,  // moved to a boundary, crossing pending
    ph_reentrant_crossed,  // after a completed crossing, direction flipped: {0,boundary}
    ph_outside
};

struct Node
{
    Snap snap;
    int phase;
    double next_d;
    bool next_boundary;
    bool next_limited;
    bool on_boundary{false};
};

struct OpsSearch
{
    Ctx& c;
    std::string root_id;
    std::vector<D3> setdirs;
    int max_depth, max_setdir;
    uint64_t node_cap;
    bool thorough{false};
    uint64_t nodes{0};
    bool capped{false};
    bool stop{false};
    std::unordered_set<uint64_t> seen;
    std::vector<std::string> ops;
    // re-initialisation check: the root's initialiser and the state it produced
    D3 root_p{}, root_d{};
    Snap root_snap{};

    //! Re-initialise the (used) track slot from whatever state the history left and require the
    //! LIVE fields to be those of the root state: slots are reused for secondaries / the next
    //! primary, so anything the initialiser does not reset leaks into the next track.  (Dead
    //! fields - surf/sense without a surface level, next_sense/next_level without a next surface -
    //! are not compared.)  The resulting state IS the root state, whose futures have been explored
    //! with a larger depth budget: no descent from here.
    bool check_reinit(std::string const& id)
    {
        auto v = c.env.view(0);
        v = GeoTrackInitializer{Real3{root_p[0], root_p[1], root_p[2]},
                                Real3{root_d[0], root_d[1], root_d[2]}};
        c.R.count("transitions");
        c.R.count("op_reinit");
        Snap a = take_snap(c.env);
        Snap const& b = root_snap;
        char const* diff = nullptr;
        if (v.failed())
            diff = "failed()";
        else if (a.level != b.level)
            diff = "level";
        else if (a.surface_level != b.surface_level)
            diff = "surface_level";
        else if (a.boundary != b.boundary)
            diff = "boundary (exiting / re-entrant flag)";
        else if (!(a.next_step == b.next_step))
            diff = "next_step";
        else if (a.next_surf != b.next_surf)
            diff = "next_surf";
        else
        {
            int nl = int(a.level.unchecked_get()) + 1;
            for (int l = 0; l < nl && !diff; ++l)
                if (memcmp(&a.pos[l], &b.pos[l], sizeof(Real3)) || memcmp(&a.dir[l], &b.dir[l], sizeof(Real3))
                    || a.vol[l] != b.vol[l] || a.universe[l] != b.universe[l])
                    diff = "per-level position / direction / volume / universe";
        }
        if (diff)
        {
            c.R.violation("nav:reinit-leaves-stale-state", id + ",reinit",
                          fmt("geometry %s: re-initialising the used track slot at %s dir %s does not "
                              "reproduce the state of the first initialisation: field %s differs",
                              c.env.name.c_str(), d3s(root_p).c_str(), d3s(root_d).c_str(), diff));
            return false;
        }
        return true;
    }

    std::string cid() const
    {
        std::string s = root_id + "|";
        for (size_t i = 0; i < ops.size(); ++i)
            s += (i ? "," : "") + ops[i];
        return s;
    }

    // apply one operation to the real state (already restored to the node); returns child
    bool apply(Node const& n, std::string const& op, Node* out)
    {
        vf::Run& R = c.R;
        auto v = c.env.view(0);
        Node r = n;
        R.count("transitions");
        std::string id = cid();
        if (op == "find" || op.rfind("findmax:", 0) == 0)
        {
            bool limited = op != "find";
            double maxd = limited ? atof(op.c_str() + 8) * c.scale / 5 : 0;
            std::string here = c.real_chain();
            D3 p = r3(v.pos()), d = r3(v.dir());
            bool on_b = v.is_on_boundary();
            Propagation prop = limited ? v.find_next_step(maxd) : v.find_next_step();
            R.count(limited ? "op_findmax" : "op_find");
            if (prop.boundary && prop.distance == 0)
            {
                // claimed re-entrant: direction must really lead out of the current volume
                R.tag("ops:reentrant-claimed");
                OLocation nx = c.locate(axpy3(p, c.eps_probe, d));
                if (!on_b)
                {
                    R.violation("nav:zero-step-off-boundary", id, c.env.name);
                    return false;
                }
                if (nx.status == OLocation::ok && chain_of(nx) == here)
                {
                    R.violation("nav:boundary-invented", id,
                                fmt("geometry %s on boundary at %s in %s, direction %s: "
                                    "find_next_step claims a re-entrant zero step but the oracle "
                                    "finds the same volume %g further along",
                                    c.env.name.c_str(), d3s(p).c_str(), here.c_str(),
                                    d3s(d).c_str(), c.eps_probe));
                    return false;
                }
                r.phase = ph_reentrant_crossed;
                r.next_d = 0;
            }
            else
            {
                if (!(prop.distance > 0))
                {
                    R.violation("nav:nonpositive-step", id,
                                fmt("geometry %s: find_next_step={%g,%d}", c.env.name.c_str(),
                                    prop.distance, int(prop.boundary)));
                    return false;
                }
                if (!limited && !prop.boundary && !v.is_outside())
                {
                    R.violation("nav:no-boundary-inside-world", id, c.env.name);
                    return false;
                }
                if (std::isfinite(prop.distance)
                    && !check_step(c, p, d, prop.distance, prop.boundary, here, id, "find_next_step"))
                    return false;
                if (!limited && !check_limited(c, v, prop, id))
                    return false;
                if (limited && prop.distance > maxd * (1 + 1e-12))
                {
                    R.violation("nav:limited-search-exceeds-limit", id, c.env.name);
                    return false;
                }
                r.phase = ph_next;
                r.next_d = prop.distance;
                r.next_boundary = prop.boundary;
                r.next_limited = limited;
                R.tag(prop.boundary ? "ops:find-boundary" : "ops:find-truncated");
            }
        }
        else if (op.rfind("move:", 0) == 0)
        {
            double f = atof(op.c_str() + 5);
            D3 want = axpy3(r3(v.pos()), f * n.next_d, r3(v.dir()));
            v.move_internal(f * n.next_d);
            R.count("op_move_internal");
            if (v.is_on_boundary())
            {
                R.violation("nav:on-boundary-after-move-internal", id, c.env.name);
                return false;
            }
            if (!check_moved_to(c, v, want, id, "after move_internal(distance)"))
                return false;
            if (position_on_a_surface(c, v))
                return false;
            if (!check_located(c, v, id, "after move_internal(distance)"))
                return false;
            r.phase = ph_next;
            r.next_d = n.next_d * (1 - f);
            if (f >= 1.0)
                r.phase = ph_free;  // consumed the whole (truncated) step: find again
        }
        else if (op.rfind("mpos:", 0) == 0)
        {
            double f = atof(op.c_str() + 5);
            D3 q = axpy3(r3(v.pos()), f * n.next_d, r3(v.dir()));
            v.move_internal(Real3{q[0], q[1], q[2]});
            R.count("op_move_internal_pos");
            if (v.is_on_boundary())
            {
                R.violation("nav:on-boundary-after-move-internal", id, c.env.name);
                return false;
            }
            if (!check_moved_to(c, v, q, id, "after move_internal(position)"))
                return false;
            if (position_on_a_surface(c, v))
                return false;
            if (!check_located(c, v, id, "after move_internal(position)"))
                return false;
            r.phase = ph_free;
        }
        else if (op == "tobound")
        {
            // the harness' own book-keeping of the remaining step (n.next_d: the answer of the
            // last find_next_step minus the internal moves since) says where the boundary is
            D3 want = axpy3(r3(v.pos()), n.next_d, r3(v.dir()));
            v.move_to_boundary();
            R.count("op_to_boundary");
            if (!v.is_on_boundary())
            {
                R.violation("nav:not-on-boundary-after-move", id, c.env.name);
                return false;
            }
            if (!check_moved_to(c, v, want, id, "after move_to_boundary")
                || !check_on_some_surface(c, v, id, "after move_to_boundary"))
                return false;
            r.phase = ph_pending;
        }
        else if (op == "cross")
        {
            std::string before = c.real_chain();
            v.cross_boundary();
            R.count("op_cross");
            if (v.failed())
            {
                report_cross_failure(c, v, r3(v.dir()), id);
                return false;
            }
            if (!check_heading(c, v, id, "after cross_boundary"))
                return false;
            R.tag(c.real_chain() == before ? "ops:cross-null(reentrant)" : "ops:cross-real");
            r.phase = v.is_outside() ? ph_outside : ph_free;
        }
        else if (op.rfind("setdir:", 0) == 0)
        {
            D3 nd;
            bool on_b = v.is_on_boundary();
            if (op[7] == 'n')
            {
                // near-tangent direction relative to the TRUE normal (from the oracle) of the
                // surface the track sits on: letter i = 2 x tangent + side, + 8 x angle
                int i = atoi(op.c_str() + 8);
                D3 nrm;
                int slev = -1;
                if (!on_b || !oracle_normal(c, r3(v.pos()), r3(v.dir()), &nrm, &slev))
                {
                    R.count("skipped_no_oracle_normal");
                    return false;
                }
                double deg = (i / 8 == 0) ? 3.0 : 12.0;
                nd = near_tangent_dir(nrm, (i % 8) / 2, (i % 2) ? -deg : deg);
                R.tag(fmt("ops:setdir-near-tangent:surface-level=%d", slev));
            }
            else
            {
                int k = atoi(op.c_str() + 7);
                nd = k < 0 ? D3{-v.dir()[0], -v.dir()[1], -v.dir()[2]} : setdirs[k];
            }
            v.set_dir(Real3{nd[0], nd[1], nd[2]});
            R.count("op_set_dir");
            R.tag(on_b ? "ops:setdir-on-boundary" : "ops:setdir-interior");
            // direction stored at every level must be the rotated global direction
            for (int k2 = 0; k2 < 3; ++k2)
                if (std::fabs(v.dir()[k2] - nd[k2]) > 1e-12)
                {
                    R.violation("nav:set-dir-not-stored", id, c.env.name);
                    return false;
                }
            if (n.phase == ph_pending)
                r.phase = ph_pending;
            else
                r.phase = ph_free;
            if (!on_b && !check_located(c, v, id, "after set_dir"))
                return false;
        }
        else
        {
            R.harness_error("unknown op " + op);
        }
        r.snap = take_snap(c.env);
        r.on_boundary = c.env.view(0).is_on_boundary();
        *out = r;
        return true;
    }

    std::vector<std::string> enabled_ops(Node const& n, int setdir_used) const
    {
        std::vector<std::string> o;
        // full direction alphabet on a boundary (where the level / normal logic lives); off a
        // boundary set_dir only rotates the direction down the levels: 3 letters suffice
        auto add_setdirs = [&] {
            if (setdir_used >= max_setdir)
                return;
            o.push_back("setdir:-1");
            bool on_b = (n.phase == ph_pending || n.phase == ph_reentrant_crossed || n.on_boundary);
            size_t stride = on_b ? 1 : (setdirs.size() / 2);
            for (size_t k = on_b ? 0 : 1; k < setdirs.size(); k += stride)
                o.push_back("setdir:" + std::to_string(k));
            // on a surface of a nested level (where set_dir has to rotate the surface normal up
            // through the daughter transforms): directions 3 (thorough: and 12) degrees off the
            // true tangent plane, both sides, four tangents - a wrong normal that deviates by
            // more than ~3.3 degrees misjudges one of them
            if (on_b && n.snap.surface_level && n.snap.surface_level.unchecked_get() >= 1)
                for (int i = 0; i < (thorough ? 16 : 8); ++i)
                    o.push_back("setdir:n" + std::to_string(i));
        };
        switch (n.phase)
        {
            case ph_free:
                o = {"find", "findmax:0.3"};
                if (thorough)
                    o.push_back("findmax:1.7");
                add_setdirs();
                break;
            case ph_next:
                if (n.next_boundary)
                    o.push_back("tobound");
                o.push_back("move:0.5");
                o.push_back("move:0.25");
                o.push_back("mpos:0.5");
                if (!n.next_boundary)
                    o.push_back("move:1");
                add_setdirs();
                break;
            case ph_pending:
                o.push_back("cross");
                add_setdirs();
                break;
            case ph_reentrant_crossed:
                // a zero step back across the boundary just crossed: the caller re-proposes a
                // direction (what FieldPropagator does); see the discussion in DESIGN.md
                add_setdirs();
                break;
            default: break;
        }
        return o;
    }

    void dfs(Node const& n, int depth, int setdir_used)
    {
        if (stop)
            return;
        c.R.maxi("max_depth", depth);
        if (depth >= max_depth)
            return;
        for (auto const& op : enabled_ops(n, setdir_used))
        {
            if (stop)
                return;
            if (nodes >= node_cap)
            {
                capped = true;
                return;
            }
            if ((nodes & 1023) == 0 && c.R.expired())
            {
                stop = true;
                return;
            }
            ops.push_back(op);
            bool want = true;
            if (c.R.replay())
            {
                // replay: follow only the recorded op list
                std::string full = c.R.replay_case();
                std::string cur = cid();
                want = full.compare(0, cur.size(), cur) == 0
                       && (full.size() == cur.size() || full[cur.size()] == ',');
            }
            if (want)
            {
                put_snap(c.env, n.snap);
                Node child;
                ++nodes;
                bool ok = apply(n, op, &child);
                if (ok)
                {
                    int sd = setdir_used + (op.rfind("setdir:", 0) == 0 ? 1 : 0);
                    uint64_t h = vf::hash_mix(hash_snap(child.snap, child.phase),
                                              vf::hash_mix(uint64_t(max_depth - depth),
                                                           uint64_t(max_setdir - sd)));
                    bool fresh = seen.insert(h).second;
                    c.R.state(vf::hash_mix(hash_snap(child.snap, child.phase),
                                           vf::hash_str(c.env.name)));
                    if (fresh || c.R.replay())
                    {
                        // (state is the child's right now; dfs restores it before every op)
                        if (!c.R.replay() || c.R.replay_case() == cid() + ",reinit")
                            check_reinit(cid());
                        dfs(child, depth + 1, sd);
                    }
                    else
                        c.R.count("shared_states");
                }
                else if (c.R.num_violations() > 50)
                    stop = true;
            }
            ops.pop_back();
        }
    }
};

static void part_ops(vf::Run& R)
{
    // geometries with nested (rotated / reflected / arrayed) universes and non-convex volumes
    std::vector<std::string> names = {"g3.0", "g3.1", "g3.2", "g3.3", "g3.4", "g4", "g5", "g1",
                                      "universes", "rect-array", "nested-rect-arrays",
                                      "inputbuilder-hierarchy", "inputbuilder-universes",
                                      // A&(B|C) logic; x-/y-aligned cylinders and cones; array
                                      // with a non-zero grid origin and alternating cell widths
                                      "g6", "g7", "ra2x5x1"};
    auto zoo = vf::zoo_entries(true, true);
    // Direction alphabet for set_dir: near-axis and near-diagonal directions, tilted by a few
    // 1e-2 so that none is EXACTLY tangent to an axis-aligned (or 30/90-degree rotated) surface
    // the track may be sitting on: motion exactly within a surface has no defined "next volume"
    // and is not part of the explored space (near-tangent directions are).
    std::vector<D3> setdirs;
    for (int a = 0; a < 3; ++a)
        for (int s : {-1, 1})
        {
            D3 d = {0.0137 * s, -0.0211, 0.0173 * s};
            d[a] = s;
            setdirs.push_back(unit3(d));
        }
    for (int i : {-1, 1})
        for (int j : {-1, 1})
            for (int k : {-1, 1})
                setdirs.push_back(unit3({double(i), double(j) * 1.1, double(k) * 0.9}));
    if (!R.thorough())
    {
        // quick: axes + 4 diagonals
        setdirs.resize(10);
    }
    auto start_dirs = irrational_dirs(R.thorough() ? 3 : 1);
    start_dirs.push_back(unit3({1, 0.0119, -0.0157}));
    start_dirs.push_back(unit3({0.5, 0.8660254037844386, 0}));
    int const nstart = R.thorough() ? 3 : 2;
    if (R.thorough())
        names.push_back("hex-array");

    // All roots of all geometries, visited ROUND-ROBIN over the geometries so that a deadline
    // cuts every geometry's tail instead of dropping the geometries at the end of the list.
    //  (a) start lattice nstart^3 on the inner 60% of the probe box x all start directions;
    //  (b) one oracle-placed point inside every distinct volume chain (every volume of every nested
    //      universe instance: a surface of level 1 / 2 is then two operations away) x 1 / 2
    //      start directions; quick keeps a spread of at most 10 chains per geometry.
    struct Root
    {
        size_t g;
        D3 p, d;
        std::string id;
        bool rep;
    };
    std::vector<std::unique_ptr<GeoEnv>> envs;
    std::vector<Snap> pristine;  // the never-used slot, restored before a root is initialised
    std::vector<std::vector<Root>> per_geo;
    for (size_t g = 0; g < names.size(); ++g)
    {
        auto const& nm = names[g];
        auto it = std::find_if(zoo.begin(), zoo.end(), [&](auto const& e) { return e.name == nm; });
        if (it == zoo.end())
            R.harness_error("unknown geometry " + nm);
        envs.push_back(vf::zoo_make(*it));
        GeoEnv* env = envs.back().get();
        if (!env->oracle->supported())
            R.harness_error("oracle does not support " + nm);
        pristine.push_back(take_snap(*env));
        double scale = env->scale();
        double tol = std::max(env->oracle->tol_abs(), env->oracle->tol_rel() * scale);
        std::vector<Root> roots, lattice_roots;
        int n = nstart;
        for (int ip = 0; ip < n * n * n; ++ip)
            for (size_t di = 0; di < start_dirs.size(); ++di)
            {
                // thorough: 27 points x 2 directions (the oracle-placed roots below carry the rest
                // of the budget); quick: 8 points x 3 directions
                if (R.thorough() && di != 0 && di != 3)
                    continue;
                int ix = ip / (n * n), iy = (ip / n) % n, iz = ip % n;
                // start lattice concentrated on the inner 60% of the probe box (where the
                // daughters are)
                auto coord = [&](int a, int i, double off) {
                    double mid = 0.5 * (env->lo[a] + env->hi[a]);
                    double half = 0.3 * (env->hi[a] - env->lo[a]);
                    return mid + half * ((i + 0.5 + off) / n * 2 - 1);
                };
                D3 p = {coord(0, ix, 0.0137), coord(1, iy, -0.0271), coord(2, iz, 0.0319)};
                lattice_roots.push_back({g, p, start_dirs[di],
                                         fmt("ops:%s:p=%d:d=%zu", nm.c_str(), ip, di), false});
            }
        auto reps = chain_reps(*env, 10 * tol, scale, R.thorough() ? 25 : 17);
        size_t const maxrep = R.thorough() ? reps.size() : std::min<size_t>(reps.size(), 10);
        for (size_t k = 0; k < maxrep; ++k)
        {
            // spread (deepest chains are found last: keep both ends)
            size_t ci = maxrep == reps.size() ? k : (k * (reps.size() - 1)) / (maxrep - 1);
            for (size_t di : {size_t(0), start_dirs.size() - 1})
            {
                if (!R.thorough() && di != 0)
                    continue;
                roots.push_back({g, reps[ci].p, start_dirs[di],
                                 fmt("ops:%s:c=%zu:d=%zu", nm.c_str(), ci, di), true});
            }
        }
        // oracle-placed roots first (a deadline then cuts lattice roots)
        roots.insert(roots.end(), lattice_roots.begin(), lattice_roots.end());
        per_geo.push_back(std::move(roots));
        R.tag("geometry:" + nm);
    }
    std::vector<Root const*> order;
    for (size_t k = 0;; ++k)
    {
        bool any = false;
        for (auto const& roots : per_geo)
            if (k < roots.size())
            {
                order.push_back(&roots[k]);
                any = true;
            }
        if (!any)
            break;
    }
    for (uint64_t outer = 0; outer < order.size(); ++outer)
    {
        if (!R.mine(outer))
            continue;
        if (R.expired())
            return;
        Root const& rt = *order[outer];
        GeoEnv* env = envs[rt.g].get();
        double scale = env->scale();
        double tol = std::max(env->oracle->tol_abs(), env->oracle->tol_rel() * scale);
        Ctx c{R, *env, scale, 10 * tol, 100 * tol, tol};
        D3 p = rt.p;
        OLocation l0 = c.locate(p);
        if (l0.status != OLocation::ok || l0.outside)
        {
            R.count("starts_skipped");
            continue;
        }
        std::string const& root = rt.id;
        if (R.replay() && R.replay_case().compare(0, root.size() + 1, root + "|") != 0)
            continue;
        R.begin_case(root, 600);
        if (rt.rep)
            R.tag(fmt("ops-root:chain-representative:depth=%zu", l0.levels.size()));
        put_snap(*env, pristine[rt.g]);
        auto v = env->view(0);
        D3 d0 = rt.d;
        v = GeoTrackInitializer{Real3{p[0], p[1], p[2]}, Real3{d0[0], d0[1], d0[2]}};
        R.count("transitions");
        if (v.failed())
        {
            R.violation("nav:init-failed", root + "|", env->name + " " + d3s(p));
            R.end_case();
            continue;
        }
        check_located(c, v, root + "|", "after initialisation");
        OpsSearch S{c, root, setdirs, R.thorough() ? 7 : 6, 2,
                    R.thorough() ? 3000000ull : 400000ull, R.thorough()};
        Node n0{take_snap(*env), ph_free, 0, false, false, false};
        S.root_p = p;
        S.root_d = d0;
        S.root_snap = n0.snap;
        S.dfs(n0, 0, 0);
        if (S.capped)
            R.cap_hit("ops: node cap per root reached");
        R.count("evaluations");
        R.count("roots");
        R.count("nodes", S.nodes);
        R.nontrivial(vf::hash_str(root));
        R.end_case();
    }
    R.sample("ops:g3.0:p=13:d=4|find,tobound,cross,setdir:3,find,move:0.5  (cross into the "
             "rotated daughter, change direction on the boundary, search, move)");
    R.sample("ops:g4:p=13:d=0|find,mpos:0.5,findmax:0.3,move:1,find,tobound,setdir:-1,cross");
    R.sample("ops:g4:c=7:d=0|find,tobound,setdir:4,cross,find  (root placed by the oracle inside the "
             "box of the twice rotated leaf universe: direction change on a level-2 surface)");
}

//---------------------------------------------------------------------------//
int main(int argc, char** argv)
{
    vf::Run R(argc, argv, "C03", "c03_nav");
    if (R.part() == "rays")
        part_rays(R);
    else if (R.part() == "ops")
        part_ops(R);
    else
        R.harness_error("unknown part '" + R.part() + "'");
    return R.finish();
}
