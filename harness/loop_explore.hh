// Shared exploration core for the stepping-loop checks C01 / C05 / C17 (and C16):
// E1 deviation-bounded exploration of ALL interaction-outcome sequences of one event on the
// scripted-physics problems of problems/loop_zoo.hh.  The body re-runs the event from scratch
// on a fresh Stepper (reseeded, so the only nondeterminism left is the explorer's choice of
// interaction outcomes); the default outcome is "absorb and deposit everything".
#pragma once

#include <cmath>
#include <map>
#include <set>
#include <string>
#include <vector>

#include "engine/explorer.hh"
#include "engine/harness.hh"
#include "problems/loop_zoo.hh"

namespace vf
{
using D3 = std::array<double, 3>;

struct ExploreChooser : LoopChooser
{
    Choices* c{nullptr};
    int choose(int n, InteractionQuery const&) override { return c ? c->choose(n) : 0; }
};

//! Chooser that also logs who asked and which outcome (of the scripted menu) was taken
struct QueryLog
{
    InteractionQuery q;
    int n, chosen;
    unsigned call;
    bool alloc_failed{false};
};
struct LoggingChooser : LoopChooser
{
    Choices* c{nullptr};
    unsigned const* call{nullptr};
    std::vector<QueryLog> log;
    int choose(int n, InteractionQuery const& q) override
    {
        int k = c ? c->choose(n) : 0;
        log.push_back({q, n, k, call ? *call : 0, false});
        return k;
    }
    void allocation_result(bool failed) override
    {
        if (!log.empty())
            log.back().alloc_failed = failed;
    }
};

//! Secondaries an outcome emits (particle kind, kinetic energy) for incident (kind, e)
inline std::vector<std::pair<int, double>> outcome_secondaries(ScriptedShared const& s, Outcome o,
                                                               int kind, double e)
{
    double const avail = e + (kind == 2 ? 2 * electron_mass_mev : 0);
    switch (o)
    {
        case Outcome::scatter_plus_one: return {{1, e / 4}};
        case Outcome::scatter_three: return {{0, e / 8}, {1, e / 8}, {0, e / 8}};
        case Outcome::absorb_two: return {{0, avail / 2}, {1, avail / 4}};
        case Outcome::absorb_pair: {
            double ke = (avail - 2 * electron_mass_mev) / 4;
            return {{1, ke}, {2, ke}};
        }
        case Outcome::absorb_subcut: return {{1, s.subcut_energy}, {0, avail / 2}};
        case Outcome::annihilate: return {{0, avail / 2}, {0, avail / 2}};
        case Outcome::absorb_subcut_positron: return {{2, s.subcut_energy}, {0, avail / 2}};
        default: return {};
    }
}

//! Deterministic outcome choice: a fixed function of who asks (history independent)
struct HashedOutcomeChooser : LoopChooser
{
    int choose(int n, InteractionQuery const& q) override
    {
        uint64_t h = hash_pod(q.event);
        h = hash_mix(h, q.track);
        h = hash_mix(h, q.step);
        h = hash_mix(h, uint64_t(q.particle));
        h = hash_mix(h, hash_pod(q.energy));
        return int(h % uint64_t(n));
    }
};

struct PrimaryCase
{
    int kind;
    double energy;
    D3 pos, dir;
    std::string id;
    // optional second primary of the same event (kind2 < 0: none)
    int kind2{-1};
    double energy2{0};
    D3 pos2{}, dir2{};
    // primary times (native units) of the first / second primary; default 0 as before
    double time{0}, time2{0};
};

// `extended`: also the two-primary and proton roots (only the C01/C05 harness runs those)
inline std::vector<PrimaryCase> primary_lattice(bool thorough, bool extended = false)
{
    std::vector<PrimaryCase> v;
    std::vector<double> energies = {0.03, 1.0, 100.0, 9000.0};
    std::vector<D3> positions = {{0.2, 0.1, 0.05}, {1.4, -0.3, 0.2}};
    std::vector<D3> dirs = {{1, 0, 0}, {-1, 0, 0}, {0, 1, 0}, {0, -1, 0}, {0, 0, 1}, {0, 0, -1}};
    double const a = 0.5773502691896258, b = 0.2672612419124244;
    dirs.push_back({a, a, a});
    dirs.push_back({b, 2 * b, -3 * b});
    if (!thorough)
    {
        energies = {0.03, 1.0, 100.0};
        dirs = {{1, 0, 0}, {0, -1, 0}, {a, a, a}};
    }
    for (int k = 0; k < 3; ++k)
        for (size_t e = 0; e < energies.size(); ++e)
            for (size_t p = 0; p < positions.size(); ++p)
                for (size_t d = 0; d < dirs.size(); ++d)
                    v.push_back({k, energies[e], positions[p], dirs[d],
                                 fmt("k%d.e%zu.p%zu.d%zu", k, e, p, d)});
    // dyadic start points on axis-parallel rays: with a dyadic fixed_step_limiter (config
    // "fs" variants) and the dyadic box faces of g1 the physics step limit TIES EXACTLY with
    // the distance to the next surface, the case "limit == boundary distance"
    std::vector<D3> dyadic = {{0.25, 0.125, 0.0}, {-1.0, 0.5, 0.25}};
    std::vector<D3> axis = {{1, 0, 0}, {0, -1, 0}, {0, 0, 1}};
    for (int k = 0; k < 3; ++k)
        for (size_t e = 1; e < (thorough ? 3 : 2); ++e)
            for (size_t p = 0; p < dyadic.size(); ++p)
                for (size_t d = 0; d < axis.size(); ++d)
                    v.push_back({k, energies[e], dyadic[p], axis[d],
                                 fmt("k%d.e%zu.q%zu.a%zu", k, e, p, d)});
    // two primaries in one event, the second one starting OUTSIDE the world: it cannot be
    // initialised (status errored) and is killed by the tracking cut in a slot that (with one
    // slot) was used by the first primary's tracks before
    for (int k2 = 1; k2 < 3 && extended; ++k2)
    {
        PrimaryCase pc{1, 1.0, {0.2, 0.1, 0.05}, {1, 0, 0}, fmt("k1.e1.p0.d0+k%d.out", k2)};
        pc.kind2 = k2;
        pc.energy2 = 1.0;
        pc.pos2 = {5.0, 0.0, 0.0};
        pc.dir2 = {0, 1, 0};
        v.push_back(pc);
    }
    // proton roots (run only by the configurations that define the 4th particle; kind 3):
    // a positive particle that is NOT an antiparticle and has no MSC model - alone, sharing a
    // slot with an e- that does multiple scattering (either order), and starting outside
    if (extended)
    {
        double const a = 0.5773502691896258;
        v.push_back({3, 1.0, {0.2, 0.1, 0.05}, {1, 0, 0}, "k3.e1.p0.d0"});
        v.push_back({3, 100.0, {0.2, 0.1, 0.05}, {a, a, a}, "k3.e2.p0.d6"});
        v.push_back({3, 0.03, {1.4, -0.3, 0.2}, {0, -1, 0}, "k3.e0.p1.d3"});
        PrimaryCase pe{3, 1.0, {0.2, 0.1, 0.05}, {1, 0, 0}, "k3.e1.p0.d0+k1"};
        pe.kind2 = 1;
        pe.energy2 = 1.0;
        pe.pos2 = {0.2, 0.1, 0.05};
        pe.dir2 = {-1, 0, 0};
        v.push_back(pe);
        PrimaryCase ep{1, 1.0, {0.2, 0.1, 0.05}, {-1, 0, 0}, "k1.e1.p0.d1+k3"};
        ep.kind2 = 3;
        ep.energy2 = 1.0;
        ep.pos2 = {0.2, 0.1, 0.05};
        ep.dir2 = {1, 0, 0};
        v.push_back(ep);
        PrimaryCase po{1, 1.0, {0.2, 0.1, 0.05}, {1, 0, 0}, "k1.e1.p0.d0+k3.out"};
        po.kind2 = 3;
        po.energy2 = 1.0;
        po.pos2 = {5.0, 0.0, 0.0};
        po.dir2 = {0, 1, 0};
        v.push_back(po);
    }
    // a RANGE-limited step that ties with the boundary distance: 0.125 MeV e-/e+ with the
    // lattice's dE/dx = 2 MeV/cm has a range of exactly 0.0625 cm, the distance from
    // x = 1.4375 to the +x face (x = 1.5) of the inner box of g1
    for (int k = 1; k < 3; ++k)
        v.push_back({k, 0.125, {1.4375, 0.125, 0.0}, {1, 0, 0}, fmt("k%d.er.q2.a0", k)});
    return v;
}

inline bool needs_proton(PrimaryCase const& pc)
{
    return pc.kind == 3 || pc.kind2 == 3;
}

struct ConfigCase
{
    LoopConfig cfg;
    std::string id;
};

inline char const* along_name(AlongStep a)
{
    switch (a)
    {
        case AlongStep::neutral: return "neutral";
        case AlongStep::linear: return "linear";
        case AlongStep::linear_fluct: return "linfluct";
        case AlongStep::field: return "field";
        case AlongStep::field_fluct: return "fieldfluct";
        case AlongStep::linear_msc: return "linmsc";
        case AlongStep::linear_msc_fluct: return "linmscfluct";
        case AlongStep::field_msc: return "fieldmsc";
        case AlongStep::field_msc_fluct: return "fieldmscfluct";
    }
    return "?";
}

inline std::vector<ConfigCase> config_lattice(bool thorough)
{
    std::vector<ConfigCase> v;
    std::vector<AlongStep> alongs = {AlongStep::linear, AlongStep::linear_fluct, AlongStep::field,
                                     AlongStep::field_fluct, AlongStep::neutral,
                                     AlongStep::linear_msc, AlongStep::linear_msc_fluct,
                                     AlongStep::field_msc, AlongStep::field_msc_fluct};
    std::vector<unsigned> slots = {1, 2, 8};
    std::vector<TrackOrder> orders = {TrackOrder::none, TrackOrder::init_charge,
                                      TrackOrder::reindex_status};
    std::vector<int> geos = {1, 3};
    if (!thorough)
    {
        alongs = {AlongStep::linear, AlongStep::field_fluct, AlongStep::linear_msc_fluct,
                  AlongStep::field_msc};
        slots = {1, 3};
        orders = {TrackOrder::none, TrackOrder::init_charge};
        geos = {1};
    }
    for (int g : geos)
        for (auto a : alongs)
            for (auto s : slots)
                for (auto o : orders)
                    for (int xs : {0, 1})
                    {
                        if (!thorough && xs == 1 && s != 3)
                            continue;
                        LoopConfig c;
                        c.geometry = g;
                        c.geo_variant = 1;
                        c.along = a;
                        c.slots = s;
                        c.track_order = o;
                        c.xs_gamma = xs ? 5.0 : 0.7;
                        c.xs_electron = xs ? 8.0 : 1.0;
                        c.dedx = (a == AlongStep::neutral) ? 0.0 : 2.0;
                        c.init_capacity = 4096;
                        v.push_back({c, fmt("g%d.%s.s%u.o%d.x%d", g, along_name(a), s, int(o), xs)});
                    }
    if (!thorough)
    {
        // quick tier: one non-identity thread<->slot map and one rotated-daughter geometry
        for (int which = 0; which < 2; ++which)
        {
            LoopConfig c;
            c.geometry = which ? 3 : 1;
            c.geo_variant = 1;
            c.along = AlongStep::linear;
            c.slots = 3;
            c.track_order = which ? TrackOrder::none : TrackOrder::reindex_status;
            c.xs_gamma = 0.7;
            c.xs_electron = 1.0;
            c.dedx = 2.0;
            v.push_back({c, fmt("g%d.linear.s3.o%d.x0", c.geometry, int(c.track_order))});
        }
    }
    // starved secondary stack (capacity = int(slots x factor)): the allocation-failure branch
    // of InteractionApplier runs inside the ledger; at-rest annihilation needs 2 entries
    for (auto a : {AlongStep::linear, AlongStep::field_fluct})
        for (auto sc : {std::pair<unsigned, unsigned>{2, 2}, std::pair<unsigned, unsigned>{3, 3}})
        {
            if (!thorough && a != AlongStep::linear && sc.first == 3)
                continue;
            LoopConfig c;
            c.geometry = 1;
            c.geo_variant = 1;
            c.along = a;
            c.slots = sc.first;
            c.secondary_stack_factor = (sc.second + 0.5) / sc.first;
            c.xs_gamma = 0.7;
            c.xs_electron = 1.0;
            c.dedx = 2.0;
            v.push_back({c, fmt("g1.%s.s%u.o0.x0.cap%u", along_name(a), sc.first, sc.second)});
        }
    // 4th particle (proton): these configurations run the proton roots only
    for (auto a : {AlongStep::linear, AlongStep::linear_msc_fluct, AlongStep::field_msc})
        for (unsigned sl : {1u, 3u})
        {
            if (!thorough && sl == 3 && a != AlongStep::linear_msc_fluct)
                continue;
            LoopConfig c;
            c.geometry = 1;
            c.geo_variant = 1;
            c.along = a;
            c.slots = sl;
            c.with_proton = true;
            c.xs_gamma = 0.7;
            c.xs_electron = 1.0;
            c.dedx = 2.0;
            v.push_back({c, fmt("g1.%s.s%u.o0.x0.pr", along_name(a), sl)});
        }
    // production default: no post-interaction cuts (secondaries are born below the cuts)
    for (auto a : {AlongStep::linear, AlongStep::linear_fluct})
    {
        if (!thorough && a != AlongStep::linear)
            continue;
        LoopConfig c;
        c.geometry = 1;
        c.geo_variant = 1;
        c.along = a;
        c.slots = 1;
        c.apply_post_interaction_cuts = false;
        c.xs_gamma = 0.7;
        c.xs_electron = 1.0;
        c.dedx = 2.0;
        v.push_back({c, fmt("g1.%s.s1.o0.x0.nocut", along_name(a))});
    }
    // fixed_step_limiter variants (dyadic limit: exact ties with the dyadic faces of g1)
    for (auto a : thorough ? std::vector<AlongStep>{AlongStep::linear, AlongStep::linear_fluct,
                                                    AlongStep::field}
                           : std::vector<AlongStep>{AlongStep::linear})
        for (double fs : thorough ? std::vector<double>{0.25, 0.125} : std::vector<double>{0.25})
            for (unsigned s : {1u, 3u})
            {
                LoopConfig c;
                c.geometry = 1;
                c.geo_variant = 1;
                c.along = a;
                c.slots = s;
                c.fixed_step = fs;
                c.xs_gamma = 0.7;
                c.xs_electron = 1.0;
                c.dedx = 2.0;
                v.push_back({c, fmt("g1.%s.s%u.o0.x0.fs%g", along_name(a), s, fs)});
            }
    return v;
}

//---------------------------------------------------------------------------//
// One event
//---------------------------------------------------------------------------//
struct EventRun
{
    bool completed{false};
    unsigned calls{0};
    std::string exception;
    std::vector<StepperResult> results;
};

inline EventRun run_event(LoopProblem& P, PrimaryCase const& pc, Choices& c, unsigned horizon = 10000,
                          LoopChooser* chooser_override = nullptr)
{
    EventRun out;
    if (P.recorder)
        P.recorder->steps.clear();
    if (P.recorder2)
        P.recorder2->steps.clear();
    if (P.probe_log)
    {
        P.probe_log->snaps.clear();
        P.probe_log->call = 0;
    }
    ExploreChooser ch;
    ch.c = &c;
    g_loop_chooser = chooser_override ? chooser_override : &ch;
    try
    {
        auto st = P.make_stepper();
        st->reseed(UniqueEventId{0});
        Primary p[2] = {P.primary(pc.kind, pc.energy, pc.pos, pc.dir, 0), Primary{}};
        p[0].time = pc.time;
        if (pc.kind2 >= 0)
        {
            p[1] = P.primary(pc.kind2, pc.energy2, pc.pos2, pc.dir2, 0);
            p[1].time = pc.time2;
        }
        StepperResult r = (*st)(Span<Primary const>{p, pc.kind2 >= 0 ? 2u : 1u});
        out.results.push_back(r);
        out.calls = 1;
        while (r && out.calls < horizon)
        {
            if (P.probe_log)
                P.probe_log->call = out.calls;
            r = (*st)();
            out.results.push_back(r);
            ++out.calls;
        }
        out.completed = !r;
    }
    catch (std::exception const& e)
    {
        out.exception = e.what();
    }
    g_loop_chooser = nullptr;
    return out;
}

//---------------------------------------------------------------------------//
// Per-track view of the recorded step stream
//---------------------------------------------------------------------------//
struct TrackSteps
{
    std::vector<StepRec const*> steps;  // sorted by step count
};
using TrackMap = std::map<std::pair<unsigned, unsigned>, TrackSteps>;

inline TrackMap group_tracks(std::vector<StepRec> const& recs)
{
    TrackMap m;
    for (auto const& r : recs)
        m[{r.event, r.track}].steps.push_back(&r);
    for (auto& kv : m)
        std::stable_sort(kv.second.steps.begin(), kv.second.steps.end(),
                         [](StepRec const* a, StepRec const* b) {
                             return a->step_count < b->step_count;
                         });
    return m;
}

struct Verdict
{
    std::string sig, msg;
    explicit operator bool() const { return !sig.empty(); }
};

//---------------------------------------------------------------------------//
// C01 oracle: energy ledger
//---------------------------------------------------------------------------//
inline Verdict check_energy(LoopProblem const& P, PrimaryCase const& pc,
                            std::vector<StepRec> const& recs, double* out_scale = nullptr)
{
    TrackMap tracks = group_tracks(recs);
    long double const eps = 2.220446049250313e-16L;
    long double const emax = pc.energy + pc.energy2 + 4 * electron_mass_mev;
    long double nadd = 8 + 4 * recs.size();
    long double const tol = 64 * eps * nadd * emax;
    if (out_scale)
        *out_scale = double(tol);
    int const pos_id = int(P.positron.unchecked_get());
    auto avail = [&](int particle, long double ke) {
        return ke + (particle == pos_id ? 2 * (long double)electron_mass_mev : 0.0L);
    };
    long double total_dep = 0, total_out = 0;
    // children by parent
    std::map<std::pair<unsigned, unsigned>, std::vector<std::pair<unsigned, unsigned>>> children;
    for (auto const& kv : tracks)
    {
        StepRec const* first = kv.second.steps.front();
        if (first->parent != no_id)
            children[{first->event, first->parent}].push_back(kv.first);
    }
    for (auto const& kv : tracks)
    {
        StepRec const* first = kv.second.steps.front();
        StepRec const* last = kv.second.steps.back();
        long double birth = avail(first->particle, first->pre.energy);
        long double dep = 0;
        for (auto const* s : kv.second.steps)
            dep += s->edep;
        total_dep += dep;
        // leaving the world is the boundary action's doing; a track that could not be
        // initialised (no volume either) is killed by the tracking cut, which deposits
        bool escaped = (last->post.volume < 0)
                       && P.action_labels.at(last->action) != "tracking-cut";
        long double out = escaped ? avail(last->particle, last->post.energy) : 0.0L;
        total_out += out;
        long double kids = 0;
        auto it = children.find(kv.first);
        if (it != children.end())
            for (auto const& ck : it->second)
            {
                StepRec const* cf = tracks[ck].steps.front();
                kids += avail(cf->particle, cf->pre.energy);
            }
        long double residual = birth - dep - kids - out;
        if (!escaped && last->post.energy != 0)
        {
            // a track that ended inside the world must have given up all its kinetic energy
            // (if it is merely not finished the caller reports non-termination instead)
        }
        if (std::fabs(double(residual)) > double(tol))
        {
            Verdict v;
            v.sig = "energy:track-balance";
            v.msg = fmt("event %u track %u (particle %d, parent %d): born with %.17Lg (avail), own "
                        "deposits %.17Lg, children born with %.17Lg, carried out %.17Lg: residual "
                        "%.6Lg > tol %.3Lg; last step action %s post E %.17g vol %d",
                        kv.first.first, kv.first.second, first->particle, int(first->parent), birth,
                        dep, kids, out, residual, tol,
                        P.action_labels.at(last->action).c_str(), last->post.energy,
                        last->post.volume);
            return v;
        }
    }
    auto kind_id = [&](int kind) {
        return kind == 0   ? int(P.gamma.unchecked_get())
               : kind == 1 ? int(P.electron.unchecked_get())
               : kind == 2 ? pos_id
                           : int(P.proton.unchecked_get());
    };
    long double in = avail(kind_id(pc.kind), pc.energy);
    if (pc.kind2 >= 0)
        in += avail(kind_id(pc.kind2), pc.energy2);
    long double residual = in - total_dep - total_out;
    if (std::fabs(double(residual)) > double(tol))
    {
        Verdict v;
        v.sig = "energy:event-balance";
        v.msg = fmt("primary avail %.17Lg, deposited %.17Lg, escaped %.17Lg: residual %.6Lg > tol "
                    "%.3Lg over %zu steps of %zu tracks",
                    in, total_dep, total_out, residual, tol, recs.size(), tracks.size());
        return v;
    }
    // every secondary is somebody's child and every parent exists
    for (auto const& kv : children)
        if (!tracks.count(kv.first))
        {
            Verdict v;
            v.sig = "energy:orphan";
            v.msg = fmt("event %u: parent %u of a recorded track never delivered a step",
                        kv.first.first, kv.first.second);
            return v;
        }
    return {};
}

//---------------------------------------------------------------------------//
// C05 oracle: continuity and limits of each track's step history
//---------------------------------------------------------------------------//
// `pc` (optional): the event's primaries, for the birth-time claim of the primary tracks
inline Verdict check_steps(LoopProblem const& P, std::vector<StepRec> const& recs,
                           ProbeLog const* probes, Run& R, PrimaryCase const* pc = nullptr)
{
    TrackMap tracks = group_tracks(recs);
    int const boundary = int(P.boundary_id.unchecked_get());
    // physics limit at user_pre per (call-independent) (event, track, step index)
    std::map<std::tuple<unsigned, unsigned, unsigned>, ProbeSnap const*> pre_limit;
    if (probes)
        for (auto const& s : probes->snaps)
            if (s.order == int(StepActionOrder::user_pre) && s.status == int(TrackStatus::alive))
                pre_limit[{s.event, s.track, s.num_steps}] = &s;
    // geometry state after the along-step, per (event, track, step count)
    std::map<std::tuple<unsigned, unsigned, unsigned>, ProbeSnap const*> after_along;
    if (probes)
        for (auto const& s : probes->snaps)
            if (s.order == int(StepActionOrder::sort_pre_post)
                && s.status == int(TrackStatus::alive))
                after_along[{s.event, s.track, s.num_steps}] = &s;
    double const scale = 10;  // geometry scale (cm)
    int const failure = [&] {
        for (auto const& kv : P.action_labels)
            if (kv.second == "physics-failure")
                return int(kv.first);
        return -1;
    }();
    // the recorded field+msc excess does not end the examination of the execution
    Verdict pending;
    for (auto const& kv : tracks)
    {
        auto const& st = kv.second.steps;
        for (size_t k = 0; k < st.size(); ++k)
        {
            StepRec const& s = *st[k];
            auto where = [&] {
                return fmt("event %u track %u step %u (%s)", s.event, s.track, s.step_count,
                           P.action_labels.at(s.action).c_str());
            };
            if (k == 0 && st.size() == 1 && s.step_count == 0 && s.step_length == 0
                && P.action_labels.at(s.action) == "tracking-cut" && s.pre.volume < 0)
            {
                // not a step: a track that failed to initialise (no volume) is killed by the
                // tracking cut before it ever moves; its energy is deposited (C01 books it)
                R.tag("steps:killed-at-initialisation(no volume)");
                R.count("killed_at_initialisation");
                continue;
            }
            if (k == 0 && s.parent == no_id && pc)
            {
                // a primary track is born at its primary's time (matched by particle, start
                // point and energy; the two primaries of a root carry different times)
                auto pid = [&](int kind) {
                    return int((kind == 0   ? P.gamma
                                : kind == 1 ? P.electron
                                : kind == 2 ? P.positron
                                            : P.proton)
                                   .unchecked_get());
                };
                bool m1 = s.particle == pid(pc->kind) && s.pre.pos == pc->pos
                          && s.pre.energy == pc->energy;
                bool m2 = pc->kind2 >= 0 && s.particle == pid(pc->kind2) && s.pre.pos == pc->pos2
                          && s.pre.energy == pc->energy2;
                if (m1 || m2)
                {
                    if (!((m1 && s.pre.time == pc->time) || (m2 && s.pre.time == pc->time2)))
                        return Verdict{"steps:primary-birth-time",
                                       where()
                                           + fmt(": first pre-step time %.17g, primary time %.17g",
                                                 s.pre.time, m1 ? pc->time : pc->time2)};
                    R.count("primary_time_checked");
                }
                else
                    R.count("primary_time_unmatched");
            }
            if (k == 0 && s.parent != no_id)
            {
                // a secondary is born at its parent's time at the end of the step that emitted
                // it (the parent's step whose post-step point is the birth point)
                auto pit = tracks.find({s.event, s.parent});
                bool found = false, ok = false;
                if (pit != tracks.end())
                    for (auto const* ps : pit->second.steps)
                        if (ps->post.pos == s.pre.pos)
                        {
                            found = true;
                            ok = ok || ps->post.time == s.pre.time;
                        }
                if (found && !ok)
                    return Verdict{"steps:secondary-birth-time",
                                   where()
                                       + fmt(": first pre-step time %.17g is not the post-step time "
                                             "of a step of parent %u ending at the birth point",
                                             s.pre.time, s.parent)};
                R.count(found ? "secondary_time_checked" : "secondary_time_unmatched");
            }
            if (s.step_count != k + 1)
                return Verdict{"steps:count-not-consecutive",
                               where() + fmt(": %zu-th record has step count %u", k + 1, s.step_count)};
            if (k + 1 < st.size() && s.post.volume < 0)
                return Verdict{"steps:stepped-after-leaving-the-world",
                               where() + ": ends outside the world but the track delivered another step"};
            if (k + 1 < st.size())
            {
                StepRec const& n = *st[k + 1];
                bool same = s.post.energy == n.pre.energy && s.post.time == n.pre.time
                            && s.post.pos == n.pre.pos && s.post.volume == n.pre.volume;
                if (!same)
                    return Verdict{
                        "steps:not-continuous",
                        where()
                            + fmt(": post (E %.17g t %.17g pos [%.17g,%.17g,%.17g] vol %d) != next "
                                  "pre (E %.17g t %.17g pos [%.17g,%.17g,%.17g] vol %d)",
                                  s.post.energy, s.post.time, s.post.pos[0], s.post.pos[1],
                                  s.post.pos[2], s.post.volume, n.pre.energy, n.pre.time,
                                  n.pre.pos[0], n.pre.pos[1], n.pre.pos[2], n.pre.volume)};
            }
            if (s.post.time < s.pre.time)
                return Verdict{"steps:time-decreases", where()};
            if (s.post.energy > s.pre.energy)
                return Verdict{"steps:energy-increases",
                               where() + fmt(": %.17g -> %.17g", s.pre.energy, s.post.energy)};
            if (!(s.step_length > 0))
            {
                // allowed only for a stopped particle interacting at rest (a step whose
                // interaction failed to allocate its secondaries keeps the travelled length)
                if (!(s.step_length == 0 && s.pre.energy == 0))
                    return Verdict{s.action == failure ? "steps:nonpositive-length[failed-allocation]"
                                                       : "steps:nonpositive-length",
                                   where() + fmt(": length %.17g at E %.17g", s.step_length,
                                                 s.pre.energy)};
                R.tag("steps:zero-length-at-rest");
            }
            double dx = 0;
            for (int a = 0; a < 3; ++a)
                dx += (s.post.pos[a] - s.pre.pos[a]) * (s.post.pos[a] - s.pre.pos[a]);
            dx = std::sqrt(dx);
            // In a magnetic field the end point is only as accurate as the field driver's
            // documented tolerances (relative truncation error epsilon_rel_max = 1e-3 of the
            // step, boundary intercept accuracy delta_intersection = 1e-5 cm): the straight
            // displacement may exceed the reported path length by that much, never by more.
            bool const in_field = has_field(P.cfg.along)
                                  && s.particle != int(P.gamma.unchecked_get());
            double const slack = in_field ? (1e-3 * s.step_length + 1e-5) : 1e-14 * scale;
            if (in_field && s.step_length < dx * (1 - 1e-12) - 1e-14 * scale)
                R.tag("steps:field-displacement-exceeds-path-within-driver-tolerance");
            if (s.step_length < dx * (1 - 1e-12) - slack)
            {
                // recorded finding (field + MSC): the lateral MSC displacement 0.73 sqrt(t^2-g^2)
                // is added to the chord of a curved path, so |dx| <= g + 0.73 sqrt(t^2-g^2)
                // <= 1.2381 t.  Anything beyond that bound is something else.
                bool const charged_msc = has_msc(P.cfg.along)
                                         && s.particle != int(P.gamma.unchecked_get());
                bool const recorded = charged_msc && dx <= 1.2381 * s.step_length + slack;
                Verdict v{recorded ? (in_field ? "steps:shorter-than-displacement[field+msc]"
                                               : "steps:shorter-than-displacement[msc]")
                                   : "steps:shorter-than-displacement",
                          where() + fmt(": length %.17g < displacement %.17g", s.step_length, dx)};
                if (!recorded)
                    return v;
                if (!pending)
                    pending = v;
            }
            // a straight line (neutral particle, or no field and no MSC): the reported path
            // length IS the displacement - a step that is not shortened to what was
            // travelled (e.g. to the boundary) is as wrong as one that is too short
            if (!in_field && !(has_msc(P.cfg.along) && s.particle != int(P.gamma.unchecked_get()))
                && std::fabs(s.step_length - dx) > 1e-12 * s.step_length + 1e-13 * scale)
                return Verdict{"steps:length-differs-from-straight-displacement",
                               where() + fmt(": length %.17g, displacement %.17g", s.step_length, dx)};
            if (probes)
            {
                auto it = pre_limit.find({s.event, s.track, s.step_count - 1});
                if (it != pre_limit.end())
                {
                    double lim = it->second->step_length;
                    if (s.step_length > lim * (1 + 1e-12))
                        return Verdict{"steps:exceeds-physics-limit",
                                       where()
                                           + fmt(": length %.17g > limit %.17g chosen before the step",
                                                 s.step_length, lim)};
                    R.count("limit_checked");
                }
            }
            if (probes)
            {
                // the propagation moved the track onto a surface (geometry state "on boundary"):
                // the boundary action, the only place where the volume changes, must follow
                auto it = after_along.find({s.event, s.track, s.step_count});
                if (it != after_along.end())
                {
                    R.count("after_along_checked");
                    if (it->second->on_boundary && it->second->post_action != boundary)
                        return Verdict{
                            "steps:on-boundary-without-boundary-action",
                            where()
                                + fmt(": after the along-step the geometry state is on a boundary "
                                      "at [%.17g,%.17g,%.17g] but the post-step action is %s",
                                      it->second->pos[0], it->second->pos[1], it->second->pos[2],
                                      P.action_labels.at(it->second->post_action).c_str())};
                }
            }
            if (s.pre.volume != s.post.volume && s.action != boundary)
                return Verdict{"steps:volume-change-without-boundary",
                               where() + fmt(": volume %d -> %d", s.pre.volume, s.post.volume)};
            // reported volume contains the reported position (oracle; no claim on surfaces)
            for (int w = 0; w < 2; ++w)
            {
                auto const& pt = w ? s.post : s.pre;
                OLocation loc = P.oracle->locate(pt.pos, 1e-6);
                if (loc.status != OLocation::ok)
                {
                    R.count("skipped_ambiguous");
                    continue;
                }
                int want = loc.outside ? -1 : loc.global_volume;
                R.count("oracle_located");
                if (want != pt.volume)
                {
                    // classify: did an earlier INTERNAL move of this track (not a boundary
                    // step; geometry state not on a boundary afterwards) end exactly on a
                    // surface by rounding, after which the navigator no longer sees it?
                    std::string sig = "steps:volume-does-not-contain-position";
                    // candidate landing steps: this track's steps back from k, then (for a
                    // track that never left its birth volume) the parent's step that ended at
                    // the birth point - a secondary inherits the parent's geometry state
                    std::vector<StepRec const*> back;
                    for (size_t j = k + 1; j-- > 0;)
                        if (!(j == k && !w))  // the pre-point is the previous step's post-point
                            back.push_back(st[j]);
                    if (st[0]->parent != no_id)
                    {
                        auto pit = tracks.find({st[0]->event, st[0]->parent});
                        if (pit != tracks.end())
                            for (size_t j = pit->second.steps.size(); j-- > 0;)
                                if (pit->second.steps[j]->post.pos == st[0]->pre.pos)
                                {
                                    back.push_back(pit->second.steps[j]);
                                    break;
                                }
                    }
                    for (size_t bi = 0; bi < back.size(); ++bi)
                    {
                        StepRec const& b = *back[bi];
                        if (bi > 0 && b.post.volume != pt.volume)
                            break;
                        if (b.action == boundary)
                            break;
                        OLocation lb = P.oracle->locate(b.post.pos, 1e-13);
                        if (lb.status != OLocation::ambiguous)
                            continue;
                        auto it = after_along.find({b.event, b.track, b.step_count});
                        if (it == after_along.end() || it->second->on_boundary)
                            break;
                        // Only the genuine ROUNDING case is the recorded finding: for every
                        // axis-aligned face the end point lies on, the navigator's own
                        // intercept quotient (face - pre)/dir must exceed the step length.
                        // With quotient <= length (an exact tie, e.g. an axis-parallel ray)
                        // find_next_step(max_step) has to report the boundary: not known.
                        int faces = 0, beyond = 0;
                        for (int a = 0; a < 3; ++a)
                        {
                            double const da = b.pre.dir[a];
                            if (da == 0)
                                continue;
                            auto lo = b.post.pos, hi = b.post.pos;
                            lo[a] -= 1e-9;
                            hi[a] += 1e-9;
                            OLocation l0 = P.oracle->locate(lo, 1e-12), l1 = P.oracle->locate(hi, 1e-12);
                            if (l0.status != OLocation::ok || l1.status != OLocation::ok
                                || (l0.global_volume == l1.global_volume && l0.outside == l1.outside))
                                continue;
                            ++faces;
                            double q = (b.post.pos[a] - b.pre.pos[a]) / da;
                            if (q > b.step_length)
                                ++beyond;
                        }
                        if (faces > 0 && beyond == faces)
                            sig += "[after an internal move rounded onto a surface]";
                        break;
                    }
                    return Verdict{
                        sig,
                        where()
                            + fmt(": %s-step point [%.17g,%.17g,%.17g] reported in volume %d, oracle "
                                  "locates %d (%s)",
                                  w ? "post" : "pre", pt.pos[0], pt.pos[1], pt.pos[2], pt.volume,
                                  want, P.oracle->volume_name(loc.global_volume).c_str())};
                }
            }
        }
    }
    // status only moves forward within one call
    if (probes)
    {
        auto rank = [](int status) {
            switch (TrackStatus(status))
            {
                case TrackStatus::initializing: return 1;
                case TrackStatus::alive: return 2;
                case TrackStatus::errored:
                case TrackStatus::killed: return 3;
                default: return 0;
            }
        };
        std::map<std::tuple<unsigned, unsigned, unsigned>, std::pair<int, int>> last;  // call,event,track
        for (auto const& s : probes->snaps)
        {
            if (s.status == int(TrackStatus::inactive))
                continue;
            auto key = std::make_tuple(s.call, s.event, s.track);
            auto it = last.find(key);
            int r = rank(s.status);
            if (it != last.end())
            {
                if (s.order >= it->second.first && r < it->second.second)
                    return Verdict{"steps:status-moves-backwards",
                                   fmt("call %u event %u track %u: status rank %d at order %d after "
                                       "rank %d at order %d",
                                       s.call, s.event, s.track, r, s.order, it->second.second,
                                       it->second.first)};
            }
            last[key] = {s.order, r};
        }
        R.count("status_checked", last.size());
    }
    return pending;
}

//---------------------------------------------------------------------------//
}  // namespace vf
