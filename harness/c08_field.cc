// C08 - field propagation follows the field and stays consistent with the geometry.
//
// Bounded-exhaustive lattice enumeration (engine E4) of the REAL FieldPropagator / FieldDriver /
// steppers on ORANGE geometries that are built here with the orangeinp construction API and
// whose volumes are *also* written down analytically (boxes, spheres, cylinders, a rotated
// daughter universe), so that point location can be judged without the navigator.
//
// Enumerated (block = outer, sharded index; inner = everything else, see main()):
//   geometry x (stepper, field) x charge x gyroradius/scale x driver options          [block]
//   x start configuration (interior lattice point x 26 directions | near-boundary tangent
//     family | start ON a boundary reached by linear move + cross, optional set_dir)
//   x requested step x subdivision k in {1,2,5}
// charge = e-/e+ on the whole lattice; PLUS a sub-lattice (default options, radius indices 3..5,
// every geometry, every non-ZHelix (stepper, field) with B != 0; quick: checkerboard half) for an
// alpha (q = +2, m = 3727.379 MeV: |q| != 1, m != m_e) and a neutral massless particle (q = 0 in
// B != 0: straight line); block ids q=a / q=0.
// Fields: uniform along x / z / oblique (also with negative components) at 1 mT / 1 T / 100 T,
// B = 0, UniformZField, RZMapField with uniform content, with smooth non-uniform content, and a
// map that is SMALLER than the world (uniform inside, documented zero field outside).
// Driver options: default, tight, loose, max_substeps 1/100, max_nsteps 3/1/10, bump_distance <
// minimum_step, step-control exponents (thorough).
// Steps: 0.5 minimum_step .. 1e3 radii, plus 1e-20 / 1e-15 (below the coordinate resolution:
// zero-length chord) for head-on starts within minimum_step, on-boundary starts and one interior
// start.  The (start, step) checkerboard colour depends on the block (radius, stepper/field), so
// both colours of every pair are executed in each tier.
// A "trajectory" is k consecutive propagations of step/k with a *fresh* propagator per call
// (exactly what the along-step action does); a boundary that is hit is crossed and the
// trajectory continues in the next volume, so on-boundary starts also arise naturally.
//
// Oracles (all independent of the code under test):
//   range      0 < distance <= step (1 + 1e-12)                  [sum of <=100 rounded additions]
//   mom        particle energy/momentum bit-identical, |dir| = 1 to 8 ulp
//   flags      exactly one of {full step, !boundary}, {looping, !boundary, distance<step},
//              {boundary}, or the documented "bump" (start on boundary, distance ==
//              min(0.1 delta_intersection, step)); result.boundary == geo.is_on_boundary();
//              volume id unchanged by the call
//   member     off-boundary end point is not deeper than delta_intersection inside a foreign
//              analytic region; on-boundary end point is within 1e-6 of the analytic surface of
//              the volume it was travelling in; a reported landing can be crossed
//   helix      end point AND end direction vs the long-double analytic helix through the start
//              state at arc length = sum of returned distances, per call and cumulatively over
//              the subdivided trajectory; tolerance: see TOLERANCE MODEL below.  Applies to the
//              uniform fields, to B = 0 (straight line) and to the small RZ map whenever the
//              ball the call can reach lies entirely inside (helix) or outside (straight line)
//   skip       32 samples of the analytic helix per call: no foreign region is deeper than
//              delta_chord + dchord_tol + delta_intersection + (helix tolerance) inside
//   factory    k = 1: make_mag_field_propagator on an identical second track slot must give
//              bit-identical results to make_mag_field_stepper + make_field_propagator, which is
//              what all other calls use so that stepper applications can be counted
//   rzmap      RZMapField::operator() at geometry points, their mirror images, the axis, a lattice
//              over and beyond each map, map edges and grid lines +-1 ulp vs a long-double
//              re-interpolation of the input tables (case ids rzmap=rzu|rzs|rzi|rzh).  rzh is a
//              HOLLOW map (2.5 <= r <= 10, 3 <= z <= 17) that is only value-checked: inner edge
//              +-1 ulp, the hole, z < min_z > 0.  params.host_ref().options must equal
//              RZMapFieldInput::driver_options (non-default for rzi = tight and for rzh)
//   nolimit    FieldPropagator::operator()() from interior starts (case ids nolimit:...)
//   zhx        ZHelixStepper single steps inside / outside the configuration of its unit test
//
// Small max_nsteps (option sets nsteps1/3/10): every stepper application is recorded and
// FieldDriver::advance is replayed on the record (analyse_trace).  A violation is attributed to
// "find_next_chord / one_good_step ran out of trials and returned a step with the state of
// another trial" ONLY when that exit was observed in the judged call; the oracle stays in the
// signature:  driver:<mechanism>-step-and-state-disagree[<oracle signature>].  Everything else
// in those option sets is reported under its real signature.
//
// Case ids:  block id  "g=<geom>;sf=<stepper:field>;q=<+|-|a|0>;r=<ratio idx>;o=<options>"
//            full id   block id + ";c=<start cfg>;s=<step idx>;k=<k>"
#include <algorithm>
#include <cmath>
#include <cstdint>
#include <memory>
#include <string>
#include <vector>

#include "corecel/data/CollectionStateStore.hh"
#include "corecel/math/ArrayUtils.hh"
#include "geocel/Types.hh"
#include "orange/OrangeData.hh"
#include "orange/OrangeInput.hh"
#include "orange/OrangeParams.hh"
#include "orange/OrangeTrackView.hh"
#include "orange/orangeinp/CsgObject.hh"
#include "orange/orangeinp/InputBuilder.hh"
#include "orange/orangeinp/IntersectRegion.hh"
#include "orange/orangeinp/Shape.hh"
#include "orange/orangeinp/Transformed.hh"
#include "orange/orangeinp/UnitProto.hh"
#include "orange/transform/Transformation.hh"
#include "celeritas/Quantities.hh"
#include "celeritas/Units.hh"
#include "celeritas/field/DormandPrinceStepper.hh"
#include "celeritas/field/FieldDriverOptions.hh"
#include "celeritas/field/MakeMagFieldPropagator.hh"
#include "celeritas/field/RZMapField.hh"
#include "celeritas/field/RZMapFieldInput.hh"
#include "celeritas/field/RZMapFieldParams.hh"
#include "celeritas/field/RungeKuttaStepper.hh"
#include "celeritas/field/UniformField.hh"
#include "celeritas/field/UniformZField.hh"
#include "celeritas/field/ZHelixStepper.hh"
#include "celeritas/phys/PDGNumber.hh"
#include "celeritas/phys/ParticleData.hh"
#include "celeritas/phys/ParticleParams.hh"
#include "celeritas/phys/ParticleTrackView.hh"
#include "engine/harness.hh"

using namespace celeritas;
using namespace celeritas::orangeinp;
using vf::fmt;
using LD = long double;

//---------------------------------------------------------------------------//
// ANALYTIC GEOMETRY ORACLE
//---------------------------------------------------------------------------//
enum class PK
{
    box,
    sph,
    cyl
};
struct Prim
{
    PK k;
    LD a, b, c;  // box: half widths | sph: a = radius | cyl (axis z): a = radius, b = half height
    LD cz{1}, sz{0};  // frame rotation about z: parent = Rz * local + t
    LD t[3]{0, 0, 0};
};
struct Term
{
    int prim;
    bool inside;
};
struct Region
{
    std::string name;
    std::vector<Term> terms;  // intersection of half-spaces "inside/outside prim"
};

// Signed depth of a point in a primitive: > 0 inside (radius of the largest ball around p that
// stays inside), < 0 outside (minus the Euclidean distance to the solid).  Exact for the three
// convex primitives used here.
static LD prim_depth(Prim const& P, LD const p[3])
{
    LD x = p[0] - P.t[0], y = p[1] - P.t[1], z = p[2] - P.t[2];
    LD lx = P.cz * x + P.sz * y;
    LD ly = -P.sz * x + P.cz * y;
    LD lz = z;
    switch (P.k)
    {
        case PK::box: {
            LD dx = P.a - fabsl(lx), dy = P.b - fabsl(ly), dz = P.c - fabsl(lz);
            if (dx >= 0 && dy >= 0 && dz >= 0)
                return std::min(dx, std::min(dy, dz));
            LD ox = std::max<LD>(-dx, 0), oy = std::max<LD>(-dy, 0), oz = std::max<LD>(-dz, 0);
            return -sqrtl(ox * ox + oy * oy + oz * oz);
        }
        case PK::sph: return P.a - sqrtl(lx * lx + ly * ly + lz * lz);
        case PK::cyl: {
            LD dr = P.a - sqrtl(lx * lx + ly * ly), dz = P.b - fabsl(lz);
            if (dr >= 0 && dz >= 0)
                return std::min(dr, dz);
            LD orr = std::max<LD>(-dr, 0), oz = std::max<LD>(-dz, 0);
            return -sqrtl(orr * orr + oz * oz);
        }
    }
    return 0;
}

// Depth in a region (intersection): the min over its terms is the exact inscribed-ball radius
// for interior points and a negative number for exterior points.
static LD region_depth(std::vector<Prim> const& prims, Region const& r, LD const p[3])
{
    LD d = 1e30L;
    for (Term const& t : r.terms)
    {
        LD pd = prim_depth(prims[t.prim], p);
        d = std::min(d, t.inside ? pd : -pd);
    }
    return d;
}

//---------------------------------------------------------------------------//
// GEOMETRY ZOO
//---------------------------------------------------------------------------//
// Interior lattice points have deliberately "generic" coordinates: a point on a symmetry axis
// sends the 26 lattice directions exactly through edges and corners, and (-3,-3.5) + (0,1,0)
// is exactly tangent to a radius-3 cylinder - measure-zero inputs that belong to the navigation
// property (C03), not to this one.
struct SurfPt
{
    Real3 s;  // point on a surface between two volumes
    Real3 n;  // unit normal there
    Real3 t;  // unit tangent there
};

using GeoState = CollectionStateStore<OrangeStateData, MemSpace::host>;

struct Geo
{
    std::string name;
    std::vector<Prim> prims;
    std::vector<Region> regions;
    std::shared_ptr<OrangeParams> params;
    GeoState state;
    std::vector<int> vol2reg;
    std::vector<Real3> interior;
    std::vector<SurfPt> surf;

    OrangeTrackView track(int slot = 0)
    {
        return OrangeTrackView{params->host_ref(), state.ref(), TrackSlotId(slot)};
    }
};

template<class CR, class... Args>
static SPConstObject mk(std::string label, Args&&... args)
{
    return std::make_shared<Shape<CR>>(std::move(label), CR{std::forward<Args>(args)...});
}
static UnitProto::MaterialInput mat(SPConstObject obj, int m, std::string label)
{
    UnitProto::MaterialInput r;
    r.interior = std::move(obj);
    r.fill = GeoMaterialId{GeoMaterialId::size_type(m)};
    r.label = Label{std::move(label)};
    return r;
}
static std::shared_ptr<OrangeParams> build_params(UnitProto const& global)
{
    InputBuilder::Options opts;
    opts.tol = Tolerance<>::from_default();
    InputBuilder build(std::move(opts));
    OrangeInput inp = build(global);
    return std::make_shared<OrangeParams>(std::move(inp));
}

static Real3 unit3(Real3 v)
{
    LD n = sqrtl((LD)v[0] * v[0] + (LD)v[1] * v[1] + (LD)v[2] * v[2]);
    return Real3{double(v[0] / n), double(v[1] / n), double(v[2] / n)};
}

static void finish_geo(vf::Run& R, Geo& G)
{
    G.state = GeoState(G.params->host_ref(), 2);
    auto const& vols = G.params->volumes();
    G.vol2reg.assign(vols.size(), -1);
    for (size_t v = 0; v < vols.size(); ++v)
    {
        std::string nm = vols.at(VolumeId(v)).name;
        for (size_t r = 0; r < G.regions.size(); ++r)
            if (G.regions[r].name == nm)
                G.vol2reg[v] = int(r);
    }
    // Sanity of the harness itself: every interior lattice point must be reported by the
    // navigator in the region that contains it analytically.
    for (Real3 const& p : G.interior)
    {
        auto geo = G.track();
        geo = GeoTrackInitializer{p, Real3{0, 0, 1}};
        if (geo.is_outside())
            R.harness_error("interior point outside in " + G.name);
        int reg = G.vol2reg[geo.volume_id().unchecked_get()];
        LD q[3] = {p[0], p[1], p[2]};
        if (reg < 0 || region_depth(G.prims, G.regions[reg], q) < 0.05L)
            R.harness_error(fmt("geometry %s: navigator volume '%s' disagrees with the analytic "
                                "region at (%g,%g,%g)",
                                G.name.c_str(),
                                vols.at(geo.volume_id()).name.c_str(),
                                p[0], p[1], p[2]));
    }
}

// G1: world box (half 20) containing an inner box (half 5)
static void build_boxes(vf::Run& R, Geo& G)
{
    G.name = "boxes";
    UnitProto::Input inp;
    inp.label = "world";
    inp.boundary.interior = mk<Box>("wbox", Real3{20, 20, 20});
    inp.background.fill = GeoMaterialId{0};
    inp.materials.push_back(mat(mk<Box>("ibox", Real3{5, 5, 5}), 1, "inner"));
    G.params = build_params(UnitProto{std::move(inp)});
    G.prims = {{PK::box, 20, 20, 20}, {PK::box, 5, 5, 5}};
    G.regions = {{"inner", {{1, true}}}, {"world", {{0, true}, {1, false}}}};
    G.interior = {{0.3, -0.2, 0.1}, {2.5, -1.25, 0.5}, {4.5, 0.25, -3}, {8.1, 7.3, 1.2}, {-12.2, 3.1, -14.3}};
    G.surf = {{{5, 1, 0.5}, {1, 0, 0}, {0, 1, 0}},
              {{-2, 5, 1}, {0, 1, 0}, unit3({1, 0, 1})},
              {{20, -3, 2}, {1, 0, 0}, {0, 0, 1}}};
    finish_geo(R, G);
}

// G2: concentric spheres: core r<3, shell 3<r<6, world 6<r<15
static void build_spheres(vf::Run& R, Geo& G)
{
    G.name = "spheres";
    UnitProto::Input inp;
    inp.label = "world";
    auto bound = mk<orangeinp::Sphere>("bound", 15.0);
    auto mid = mk<orangeinp::Sphere>("mid", 6.0);
    auto core = mk<orangeinp::Sphere>("coresph", 3.0);
    inp.boundary.interior = bound;
    inp.background.fill = GeoMaterialId{0};
    inp.materials.push_back(
        mat(make_rdv("shellrdv", {{Sense::inside, mid}, {Sense::outside, core}}), 1, "shell"));
    inp.materials.push_back(mat(core, 2, "core"));
    G.params = build_params(UnitProto{std::move(inp)});
    G.prims = {{PK::sph, 15, 0, 0}, {PK::sph, 6, 0, 0}, {PK::sph, 3, 0, 0}};
    G.regions = {{"core", {{2, true}}},
                 {"shell", {{1, true}, {2, false}}},
                 {"world", {{0, true}, {1, false}}}};
    G.interior = {{0.2, -0.1, 0.3}, {1, -1.5, 0.5}, {0.2, 4.5, 0.1}, {-3.1, 2.2, 2.9}, {9, -4, 2}};
    G.surf = {{{3, 0, 0}, {1, 0, 0}, {0, 1, 0}},
              {{0, 3.6, 4.8}, {0, 0.6, 0.8}, {1, 0, 0}},
              {{-6, 0, 0}, {-1, 0, 0}, unit3({0, 1, 1})}};
    finish_geo(R, G);
}

// G3: cylinder shell about z inside a box: hole r<3, shell 3<r<6 (|z|<8), world box half 20
static void build_cylshell(vf::Run& R, Geo& G)
{
    G.name = "cylshell";
    UnitProto::Input inp;
    inp.label = "world";
    inp.boundary.interior = mk<Box>("wbox", Real3{20, 20, 20});
    inp.background.fill = GeoMaterialId{0};
    auto outer = mk<Cylinder>("ocyl", 6.0, 8.0);
    auto inner = mk<Cylinder>("icyl", 3.0, 8.0);
    inp.materials.push_back(
        mat(make_rdv("shellrdv", {{Sense::inside, outer}, {Sense::outside, inner}}), 1, "shell"));
    inp.materials.push_back(mat(inner, 2, "hole"));
    G.params = build_params(UnitProto{std::move(inp)});
    G.prims = {{PK::box, 20, 20, 20}, {PK::cyl, 6, 8, 0}, {PK::cyl, 3, 8, 0}};
    G.regions = {{"hole", {{2, true}}},
                 {"shell", {{1, true}, {2, false}}},
                 {"world", {{0, true}, {1, false}}}};
    G.interior = {{0.2, 0.1, 0.3}, {1, 1.2, -6}, {4.5, 0.3, 2}, {-3.2, -3.4, 0.5}, {10, 2.3, 3}, {1.1, 2, 12}};
    G.surf = {{{3, 0, 1}, {1, 0, 0}, {0, 1, 0}},
              {{0, -6, -2}, {0, -1, 0}, unit3({1, 0, 1})},
              {{4, 1, 8}, {0, 0, 1}, {1, 0, 0}}};
    finish_geo(R, G);
}

// G5: non-convex plate: box (half 5) minus a cylindrical hole r<2 (own volume), world box
static void build_boxhole(vf::Run& R, Geo& G)
{
    G.name = "boxhole";
    UnitProto::Input inp;
    inp.label = "world";
    inp.boundary.interior = mk<Box>("wbox", Real3{20, 20, 20});
    inp.background.fill = GeoMaterialId{0};
    auto pbox = mk<Box>("pbox", Real3{5, 5, 5});
    auto hcyl = mk<Cylinder>("hcyl", 2.0, 5.0);
    inp.materials.push_back(
        mat(make_rdv("platerdv", {{Sense::inside, pbox}, {Sense::outside, hcyl}}), 1, "plate"));
    inp.materials.push_back(mat(hcyl, 2, "hole"));
    G.params = build_params(UnitProto{std::move(inp)});
    G.prims = {{PK::box, 20, 20, 20}, {PK::box, 5, 5, 5}, {PK::cyl, 2, 5, 0}};
    G.regions = {{"hole", {{2, true}}},
                 {"plate", {{1, true}, {2, false}}},
                 {"world", {{0, true}, {1, false}}}};
    G.interior = {{0.2, -0.1, 0.3}, {0.5, -1, 3}, {3.5, 0.2, 1}, {-3.1, 3.5, -2}, {9, 1.3, 0.2}};
    G.surf = {{{2, 0, 1}, {1, 0, 0}, {0, 1, 0}},
              {{0, -2, -1}, {0, -1, 0}, unit3({1, 0, 1})},
              {{5, 3, 1}, {1, 0, 0}, {0, 1, 0}}};
    finish_geo(R, G);
}

// G3' (two levels): world box (half 20) with a daughter universe (box half (4,3,5) containing a
// sphere r=2) placed with a 30 degree rotation about z and a translation (2,1,0.5)
static void build_rotdau(vf::Run& R, Geo& G)
{
    G.name = "rotdau";
    LD const ang = 3.14159265358979323846264338327950288L / 6;
    LD const c = cosl(ang), s = sinl(ang);
    auto daughter = std::make_shared<UnitProto>([] {
        UnitProto::Input inp;
        inp.label = "dau";
        inp.boundary.interior = mk<Box>("dbox", Real3{4, 3, 5});
        inp.boundary.zorder = ZOrder::media;
        auto sph = mk<orangeinp::Sphere>("dsphs", 2.0);
        inp.materials.push_back(mat(sph, 2, "dsph"));
        inp.materials.push_back(mat(
            make_rdv("dfillrdv", {{Sense::inside, inp.boundary.interior}, {Sense::outside, sph}}),
            1,
            "dfill"));
        return inp;
    }());
    UnitProto::Input inp;
    inp.label = "world";
    inp.boundary.interior = mk<Box>("wbox", Real3{20, 20, 20});
    inp.background.fill = GeoMaterialId{0};
    UnitProto::DaughterInput d;
    d.fill = daughter;
    SquareMatrixReal3 rot{Real3{double(c), double(-s), 0}, Real3{double(s), double(c), 0}, Real3{0, 0, 1}};
    d.transform = Transformation{rot, Real3{2, 1, 0.5}};
    inp.daughters.push_back(d);
    G.params = build_params(UnitProto{std::move(inp)});
    Prim wb{PK::box, 20, 20, 20};
    Prim db{PK::box, 4, 3, 5};
    Prim ds{PK::sph, 2, 0, 0};
    // use the doubles that were handed to the library for the frame
    db.cz = ds.cz = double(c);
    db.sz = ds.sz = double(s);
    db.t[0] = ds.t[0] = 2;
    db.t[1] = ds.t[1] = 1;
    db.t[2] = ds.t[2] = 0.5;
    G.prims = {wb, db, ds};
    G.regions = {{"dsph", {{2, true}}},
                 {"dfill", {{1, true}, {2, false}}},
                 {"world", {{0, true}, {1, false}}}};
    auto up = [&](LD x, LD y, LD z) {
        return Real3{double(c * x - s * y + 2), double(s * x + c * y + 1), double(z + 0.5)};
    };
    auto upd = [&](LD x, LD y, LD z) {
        return Real3{double(c * x - s * y), double(s * x + c * y), double(z)};
    };
    G.interior = {up(0.2, -0.1, 0.1), up(0.5, -1, 0.5), up(3, 0.5, 1), up(-3, -2, -3), {10, -7, 2}, {-9, 8, 1}};
    G.surf = {{up(4, 1, 0.5), upd(1, 0, 0), upd(0, 1, 0)},
              {up(-1, 3, 1), upd(0, 1, 0), upd(0.6, 0, 0.8)},
              {up(2, 0, 0), upd(1, 0, 0), upd(0, 0.6, 0.8)}};
    finish_geo(R, G);
}

//---------------------------------------------------------------------------//
// Geometry view wrapper: forwards to the real OrangeTrackView and records which branch of the
// propagation loop consumed each straight-line query (coverage tags only; it does not change
// any answer).  FieldPropagator is a template on the track view (CheckedGeoTrackView in the
// unit tests plays the same role).
// Record of what the FieldDriver did during one propagator call, filled by CountStepper (every
// stepper application) and TraceGeo (find_next_step is called exactly once after every
// FieldDriver::advance, which delimits the advances).  Observation only.
struct AppRec
{
    double h;  // trial length handed to the stepper
    Real3 pos, mom;  // start state of the application
    double dchord;  // sagitta of this application (same arithmetic as detail::distance_chord)
    double err_sq;  // truncation error estimate relative to h and |p|, NOT yet divided by eps^2
    int adv;  // index of the FieldDriver::advance call it belongs to
};
struct DriverTrace
{
    bool full{false};  // keep every application (only for option sets with a small max_nsteps)
    int adv{0};
    bool adv_open{false};
    double h_first{0};  // first trial length of the advance that is being recorded
    double last_h_first{0};  // ... of the most recent advance that was followed by a find_next_step
    std::vector<AppRec> apps;
};

struct TraceGeo
{
    OrangeTrackView& g;
    DriverTrace* tr{nullptr};
    int n_find{0}, n_accept{0}, n_retry{0}, n_setdir{0}, n_to_boundary{0};
    bool last_hit{false}, pending{false};
    bool endpoint_before_intercept{false};
    bool verbose{false};
    double last_max{0}, last_dist{0};

    Real3 const& pos() const { return g.pos(); }
    Real3 const& dir() const { return g.dir(); }
    bool is_on_boundary() const { return g.is_on_boundary(); }
    void set_dir(Real3 const& d)
    {
        ++n_setdir;
        g.set_dir(d);
    }
    Propagation find_next_step(real_type d)
    {
        if (pending && last_hit)
            ++n_retry;
        ++n_find;
        if (tr)
        {
            tr->last_h_first = tr->h_first;
            tr->adv_open = false;
            ++tr->adv;
        }
        Propagation p = g.find_next_step(d);
        if (verbose)
            fprintf(stderr, "      find from (%.9g,%.9g,%.9g) along (%.6g,%.6g,%.6g) up to %.9g -> %.9g %s\n",
                    g.pos()[0], g.pos()[1], g.pos()[2], g.dir()[0], g.dir()[1], g.dir()[2], d, p.distance,
                    p.boundary ? "HIT" : "-");
        last_hit = p.boundary;
        last_max = d;
        last_dist = p.distance;
        pending = true;
        return p;
    }
    void move_internal(Real3 const& p)
    {
        if (pending && last_hit)
            endpoint_before_intercept = true;
        if (pending)
            ++n_accept;
        pending = false;
        g.move_internal(p);
    }
    void move_to_boundary()
    {
        ++n_to_boundary;
        pending = false;
        g.move_to_boundary();
    }
};

//---------------------------------------------------------------------------//
// ANALYTIC HELIX (long double)
//---------------------------------------------------------------------------//
// Lorentz force in Gaussian units: dp/dt = (q/c) v x B  =>  du/ds = (q e / (p c)) u x B.
// With p in MeV/c and B in gauss: e[esu] / (1 MeV in erg) = 1e-12 * c[m/s] exactly
// (p[MeV/c] = 1e-6 c B[T] R[m]), i.e. kappa = 2.99792458e-4 / (gauss cm MeV/c).
static constexpr LD kappa = 2.99792458e-4L;

struct Helix
{
    LD x0[3], upar[3], uperp[3], w[3];
    LD omega{0};  // signed rotation rate about b [rad/cm]
    LD sin_pitch{0};  // |uperp|
    LD cos_pitch{0};  // |upar|

    void init(Real3 const& x, Real3 const& u, LD const B[3], int q, LD p)
    {
        LD bn = sqrtl(B[0] * B[0] + B[1] * B[1] + B[2] * B[2]);
        LD b[3] = {0, 0, 1};
        if (bn > 0)
            for (int i = 0; i < 3; ++i)
                b[i] = B[i] / bn;
        LD ub = u[0] * b[0] + u[1] * b[1] + u[2] * b[2];
        for (int i = 0; i < 3; ++i)
        {
            x0[i] = x[i];
            upar[i] = ub * b[i];
            uperp[i] = u[i] - upar[i];
        }
        w[0] = b[1] * uperp[2] - b[2] * uperp[1];
        w[1] = b[2] * uperp[0] - b[0] * uperp[2];
        w[2] = b[0] * uperp[1] - b[1] * uperp[0];
        omega = -LD(q) * kappa * bn / p;
        sin_pitch = sqrtl(uperp[0] * uperp[0] + uperp[1] * uperp[1] + uperp[2] * uperp[2]);
        cos_pitch = fabsl(ub);
    }
    LD radius_perp() const { return omega != 0 ? sin_pitch / fabsl(omega) : 1e300L; }
    void eval(LD s, LD pos[3], LD dir[3]) const
    {
        LD S, C, cs = 1, sn = 0;
        if (omega == 0)
        {
            S = s;
            C = 0;
        }
        else
        {
            LD th = omega * s;
            sn = sinl(th);
            cs = cosl(th);
            LD h = sinl(th / 2);
            S = sn / omega;
            C = 2 * h * h / omega;
        }
        for (int i = 0; i < 3; ++i)
        {
            pos[i] = x0[i] + upar[i] * s + uperp[i] * S + w[i] * C;
            if (dir)
                dir[i] = upar[i] + uperp[i] * cs + w[i] * sn;
        }
    }
};

//---------------------------------------------------------------------------//
// TOLERANCE MODEL for the helix comparison (all terms from FieldDriverOptions):
//
//  (a) eps_rel_max * (1 + 2N) * D, N = number of stepper applications in the call (counted by
//      CountStepper).  The driver accepts an integration step only when the stepper's
//      truncation estimate is <= eps_rel_max * (step length) for the position and <=
//      eps_rel_max * |p| for the momentum (FieldDriver::one_good_step / find_next_chord /
//      detail::rel_err_sq).  The global error is NOT controlled: |p| is not renormalised inside a
//      call, so N accepted steps may change the pitch (u_par = p_par/|p|, p_par is conserved
//      exactly by every RK stage in a uniform field) by N*eps and, because the rotation rate is
//      ~1/|p|, the phase by N*eps*D/R.  Position: eps*D (local) + N*eps*D (pitch, carried over
//      the remaining path) + N*eps*D (phase error times R_perp <= R).  Direction:
//      eps*(1+N)*(1 + D/R).  Observed on the unchanged code: 1000 accepted steps of ~1 rad shrink
//      |p_perp| by 30% (3e-4 per step, inside eps = 1e-3 per step), i.e. the linear-in-path
//      reading "eps_rel_max * D" does not hold and is not claimed.  The model assumes that the
//      embedded estimate bounds the true local error, which holds for turning angles <~ 1.4 rad
//      per step, i.e. eps_rel_max <= 1e-3 (at 1e-2 DP accepts a 2.2 rad step whose |p| is 10% off);
//      all option sets therefore keep eps_rel_max <= 1e-3.  ZHelix is exact: eps = 0.
//  (b) 2 * minimum_step per call: a call that stops with `remaining <= minimum_step` reports
//      the requested step although it travelled up to minimum_step less (tail of operator());
//      a step <= minimum_step is integrated in one uncontrolled stepper call (quick advance).
//  (c) per boundary landing: the track is put on the straight-line intercept, which is within
//      delta_intersection of the end state E of the last substep (is_intercept_close), or within
//      minimum_step of its start state.  The reported arc length is scaled by the *chord*
//      fraction, u = s_sub * d_lin / chord, so it differs from the arc length of E by at most
//      (s_sub/chord) * delta_intersection.  Two points of one helix that are an arc ds apart are
//      at most min(ds, 2 R_perp + ds |cos pitch|) apart and s_sub/chord <= 1/|cos pitch|, so
//      this term is <= min(A * d_int, 2 R_perp + d_int) with A = (phi/2)/sin(phi/2)/sin(pitch)
//      for the largest rotation phi that the sagitta test R_perp (1 - cos(phi/2)) <=
//      delta_chord + dchord_tol lets through (FieldDriver::find_next_chord).
//      Total per landing: d_int + min(A d_int, 2 R_perp + d_int).
//  (d) bump: straight move of 0.1 delta_intersection instead of an arc: < delta_intersection.
//  (e) rounding: 1e-12 * (|x| + D)  (>= 4000 ulp, covers the accumulated double arithmetic).
struct TolModel
{
    LD eps, min_step, d_int, d_chord, dchord_tol;
};

static LD landing_term(TolModel const& T, Helix const& H)
{
    LD rp = H.radius_perp();
    LD loose = 2 * rp + T.d_int;
    LD dc = T.d_chord + T.dchord_tol;
    LD A;
    if (rp <= 0 || H.sin_pitch == 0 || H.omega == 0)
        A = 1;  // straight (along the field, or no field): chord == arc
    else if (2 * rp <= dc)
        A = 1e300L;  // the sagitta test never limits the rotation per substep
    else
    {
        LD k = 1 - dc / rp;  // cos(phi/2) >= k
        LD half = acosl(std::max<LD>(k, -1));
        LD sh = sinl(half);
        A = (sh > 0 ? half / sh : 1e300L) / H.sin_pitch;
    }
    if (H.cos_pitch > 0)
        A = std::min(A, 1 / H.cos_pitch);
    return T.d_int + std::min(A * T.d_int, loose);
}

//---------------------------------------------------------------------------//
// ENUMERATION ALPHABETS
//---------------------------------------------------------------------------//
enum class St
{
    dp,
    rk4,
    zhelix
};
enum class Fk
{
    ux,
    uz,
    uobl,
    uneg,  // oblique with two negative components
    u0,  // B = 0 (valid UniformField{0,0,0}): straight line
    uzf,
    rzu,
    rzs,
    rzi  // RZ map that is SMALLER than the world (uniform content inside, zero field outside)
};
struct SF
{
    St st;
    Fk fk;
    double bmag;  // gauss
    std::string name;
    bool uniform() const { return fk != Fk::rzs && fk != Fk::rzi; }
};

struct OptSet
{
    std::string name;
    FieldDriverOptions o;
};

static std::vector<OptSet> make_options(bool thorough)
{
    std::vector<OptSet> v;
    v.push_back({"default", FieldDriverOptions{}});
    {
        FieldDriverOptions o;
        o.minimum_step = 1e-7;
        o.delta_chord = 1e-3;
        o.delta_intersection = 1e-6;
        o.epsilon_rel_max = 1e-5;
        o.epsilon_step = 1e-6;
        v.push_back({"tight", o});
    }
    {
        FieldDriverOptions o;
        o.minimum_step = 1e-5;
        o.delta_chord = 0.1;
        o.delta_intersection = 1e-3;
        // epsilon_rel_max is NOT loosened: the embedded error estimates stop bounding the true
        // error once a step turns the track by more than ~1.4 rad (measured: DP accepts a 2.2 rad
        // step at 1e-2 whose momentum is 10% off), and the helix tolerance below relies on them.
        v.push_back({"loose", o});
    }
    {
        FieldDriverOptions o;
        o.max_substeps = 1;
        v.push_back({"sub1", o});
    }
    {
        FieldDriverOptions o;
        o.max_substeps = 100;
        v.push_back({"sub100", o});
    }
    // max_nsteps budgets: 1 (every trial loop gives up after its first rejected trial), 3, and
    // 10 (the chord search, which at least halves, still converges for R <= step <= 1e3 R unless
    // R >> delta_chord; accurate_advance runs out after 10 integrations)
    for (int n : {3, 1, 10})
    {
        FieldDriverOptions o;
        o.max_nsteps = n;
        v.push_back({fmt("nsteps%d", n), o});
    }
    {
        // bump_distance (0.1 delta_intersection = 1e-6) < minimum_step (5e-6): in every other set
        // bump_distance >= minimum_step, mostly equal
        FieldDriverOptions o;
        o.minimum_step = 5e-6;
        o.delta_intersection = 1e-5;
        v.push_back({"bumplt", o});
    }
    if (thorough)
    {
        FieldDriverOptions o;
        o.safety = 0.5;
        o.pgrow = -0.1;
        o.pshrink = -0.5;
        o.max_stepping_increase = 2;
        o.max_stepping_decrease = 0.5;
        o.max_substeps = 30;
        v.push_back({"ctrl", o});
    }
    for (auto const& s : v)
        validate_input(s.o);  // library's own validator: stay inside the validated range
    return v;
}

// 26 lattice directions
static std::vector<Real3> lattice_dirs()
{
    std::vector<Real3> d;
    for (int x = -1; x <= 1; ++x)
        for (int y = -1; y <= 1; ++y)
            for (int z = -1; z <= 1; ++z)
                if (x || y || z)
                    d.push_back(unit3({double(x), double(y), double(z)}));
    return d;
}

// A start configuration
struct StartCfg
{
    int kind;  // 0 interior lattice, 1 near-boundary tangent family, 2 on boundary
    Real3 pos;  // initial position (kind 2: position before the linear move)
    Real3 dir;  // initial direction
    bool redirect{false};  // kind 2: set_dir(newdir) after crossing
    Real3 newdir{0, 0, 0};
    double redir_angle{0};
    std::string desc;
};

static Real3 comb(Real3 const& a, double ca, Real3 const& b, double cb)
{
    return Real3{a[0] * ca + b[0] * cb, a[1] * ca + b[1] * cb, a[2] * ca + b[2] * cb};
}

static std::vector<StartCfg> make_starts(Geo const& G, bool thorough)
{
    std::vector<StartCfg> v;
    auto dirs = lattice_dirs();
    for (size_t i = 0; i < G.interior.size(); ++i)
        for (size_t d = 0; d < dirs.size(); ++d)
        {
            if (!thorough && (i + d) % 2)
                continue;  // quick tier: checkerboard half of point x direction
            v.push_back({0, G.interior[i], dirs[d], false, {}, 0, fmt("int%zu/d%zu", i, d)});
        }
    // near-boundary tangent family: h off the surface on either side, direction rotated by
    // theta out of the tangent plane
    std::vector<double> hs = {5e-7, 5e-5, 0.02};
    std::vector<double> thetas = {0, 1e-9, -1e-9, 1e-6, -1e-6, 1e-3, -1e-3};
    if (!thorough)
        thetas = {0, 1e-6, -1e-6, 1e-3, -1e-3};
    for (size_t si = 0; si < G.surf.size(); ++si)
        for (double h : hs)
            for (int side : {-1, 1})
                for (double th : thetas)
                {
                    SurfPt const& S = G.surf[si];
                    Real3 p = comb(S.s, 1.0, S.n, side * h);
                    Real3 d = unit3(comb(S.t, std::cos(th), S.n, std::sin(th)));
                    LD pl[3] = {p[0], p[1], p[2]};
                    if (prim_depth(G.prims[0], pl) <= 0)
                        continue;  // beyond the world boundary
                    v.push_back({1, p, d, false, {}, 0, fmt("tan%zu/h%g/side%d/th%g", si, h, side, th)});
                }
    // head-on from very close: exercises "intercept below minimum_step"
    for (size_t si = 0; si < G.surf.size(); ++si)
        for (double h : {5e-7, 3e-6, 2.5e-5})
        {
            SurfPt const& S = G.surf[si];
            Real3 p = comb(S.s, 1.0, S.n, -h);
            v.push_back({1, p, unit3(comb(S.n, 0.8, S.t, 0.6)), false, {}, 0, fmt("near%zu/h%g", si, h)});
        }
    // ON a boundary: linear move to the surface + cross, then keep or change the direction
    std::vector<double> betas = {0.0, 1.0471975511965976, 1.5};
    std::vector<double> redir = {1e-3, 1e-6, 1e-9, -1e-6, 0.7};
    for (size_t si = 0; si < G.surf.size(); ++si)
        for (double beta : betas)
        {
            SurfPt const& S = G.surf[si];
            Real3 din = unit3(comb(S.n, std::cos(beta), S.t, std::sin(beta)));
            Real3 p0 = comb(S.s, 1.0, din, -0.25);
            v.push_back({2, p0, din, false, {}, 0, fmt("bnd%zu/b%g/keep", si, beta)});
            if (beta != betas[1] && !thorough)
                continue;
            for (double a : redir)
            {
                // direction at angle a above (a>0: into the new volume) the tangent plane
                Real3 nd = unit3(comb(S.t, std::cos(a), S.n, std::sin(a)));
                v.push_back({2, p0, din, true, nd, a, fmt("bnd%zu/b%g/redir%g", si, beta, a)});
            }
        }
    return v;
}

//---------------------------------------------------------------------------//
// PARTICLES
//---------------------------------------------------------------------------//
static constexpr double electron_mass = 0.5109989461;  // MeV
static constexpr double alpha_mass = 3727.379;  // MeV

struct Particles
{
    std::shared_ptr<ParticleParams> params;
    CollectionStateStore<ParticleStateData, MemSpace::host> state;
    ParticleId eminus, eplus, alpha, neutral;
    Particles()
    {
        using namespace units;
        ParticleParams::Input defs
            = {{"electron", pdg::electron(), MevMass{electron_mass}, ElementaryCharge{-1}, 0.0},
               {"positron", pdg::positron(), MevMass{electron_mass}, ElementaryCharge{1}, 0.0},
               {"alpha", pdg::alpha(), MevMass{alpha_mass}, ElementaryCharge{2}, 0.0},
               {"gamma", pdg::gamma(), MevMass{0}, ElementaryCharge{0}, 0.0}};
        params = std::make_shared<ParticleParams>(std::move(defs));
        state = CollectionStateStore<ParticleStateData, MemSpace::host>(params->host_ref(), 1);
        eminus = params->find(pdg::electron());
        eplus = params->find(pdg::positron());
        alpha = params->find(pdg::alpha());
        neutral = params->find(pdg::gamma());
    }
    ParticleTrackView view() { return ParticleTrackView{params->host_ref(), state.ref(), TrackSlotId{0}}; }
};

//---------------------------------------------------------------------------//
// One propagation with the real code
//---------------------------------------------------------------------------//
struct FieldSet
{
    std::shared_ptr<RZMapFieldParams> rz_uniform, rz_smooth, rz_inner;
};

// Counts stepper applications (the unit tests' DiagnosticStepper does the same).  The count N
// enters the helix tolerance: every accepted integration step may be wrong by eps_rel_max
// (relative, position and momentum), and N of them add up.
static bool g_verbose_stepper = false;
template<class S>
struct CountStepper
{
    S s;
    int* n;
    bool verbose{false};
    DriverTrace* tr{nullptr};
    FieldStepperResult operator()(real_type h, OdeState const& y) const
    {
        ++*n;
        FieldStepperResult r = s(h, y);
        if (tr)
        {
            if (!tr->adv_open)
            {
                tr->adv_open = true;
                tr->h_first = h;
            }
            if (tr->full)
            {
                AppRec a;
                a.h = h;
                a.pos = y.pos;
                a.mom = y.mom;
                a.adv = tr->adv;
                // sagitta |AB x AM| / |AB| and max(|err_x|^2/h^2, |err_p|^2/|p|^2), written out
                // here with the library's operation order: they only mirror which branch the
                // driver took (they decide nothing about right or wrong)
                double am[3], ab[3];
                for (int i = 0; i < 3; ++i)
                {
                    am[i] = r.mid_state.pos[i] - y.pos[i];
                    ab[i] = r.end_state.pos[i] - y.pos[i];
                }
                double c[3] = {ab[1] * am[2] - ab[2] * am[1], ab[2] * am[0] - ab[0] * am[2],
                               ab[0] * am[1] - ab[1] * am[0]};
                a.dchord = std::sqrt((c[0] * c[0] + c[1] * c[1] + c[2] * c[2])
                                     / (ab[0] * ab[0] + ab[1] * ab[1] + ab[2] * ab[2]));
                double ep = r.err_state.pos[0] * r.err_state.pos[0] + r.err_state.pos[1] * r.err_state.pos[1]
                            + r.err_state.pos[2] * r.err_state.pos[2];
                double em = r.err_state.mom[0] * r.err_state.mom[0] + r.err_state.mom[1] * r.err_state.mom[1]
                            + r.err_state.mom[2] * r.err_state.mom[2];
                ep /= h * h;
                em /= y.mom[0] * y.mom[0] + y.mom[1] * y.mom[1] + y.mom[2] * y.mom[2];
                a.err_sq = std::max(ep, em);
                tr->apps.push_back(a);
            }
        }
        if (verbose)
            fprintf(stderr, "        stepper h=%.9g from (%.9g,%.9g,%.9g) -> end (%.9g,%.9g,%.9g) mid (%.9g,%.9g,%.9g) |errpos|/h=%.3g |errmom|/p=%.3g |p_end|/|p|-1=%.3g\n",
                    h, y.pos[0], y.pos[1], y.pos[2], r.end_state.pos[0], r.end_state.pos[1], r.end_state.pos[2],
                    r.mid_state.pos[0], r.mid_state.pos[1], r.mid_state.pos[2],
                    std::sqrt(r.err_state.pos[0] * r.err_state.pos[0] + r.err_state.pos[1] * r.err_state.pos[1]
                              + r.err_state.pos[2] * r.err_state.pos[2]) / h,
                    std::sqrt((r.err_state.mom[0] * r.err_state.mom[0] + r.err_state.mom[1] * r.err_state.mom[1]
                              + r.err_state.mom[2] * r.err_state.mom[2])/(y.mom[0]*y.mom[0]+y.mom[1]*y.mom[1]+y.mom[2]*y.mom[2])),
                    std::sqrt((r.end_state.mom[0] * r.end_state.mom[0] + r.end_state.mom[1] * r.end_state.mom[1]
                              + r.end_state.mom[2] * r.end_state.mom[2])/(y.mom[0]*y.mom[0]+y.mom[1]*y.mom[1]+y.mom[2]*y.mom[2]))-1);
        return r;
    }
};

// Which "ran out of trials" exits of the FieldDriver were taken during one propagator call.
// Replays FieldDriver::advance on the recorded applications: per advance the leading applications
// are find_next_chord trials (at most max_nsteps, until the sagitta passes); if more applications
// follow, the chord state was discarded and accurate_advance ran (groups of one_good_step trials
// that share a start state, at most max_nsteps each, until the error estimate passes).
struct Exhaust
{
    bool chord_kept{false};  // find_next_chord ran out and its (step, state) pair was returned
    bool chord_discarded{false};  // ... ran out but accurate_advance replaced the result
    bool ogs{false};  // one_good_step ran out (its rescaled step is returned with the state of
                      // the last, rejected, trial)
    bool acc_budget{false};  // accurate_advance used all of its max_nsteps integrations
    bool any_mismatch() const { return chord_kept || ogs; }
};
static Exhaust analyse_trace(DriverTrace const& tr, FieldDriverOptions const& o)
{
    Exhaust x;
    double const dc_thr = o.delta_chord + FieldDriverOptions::dchord_tol;
    double const eps2 = o.epsilon_rel_max * o.epsilon_rel_max;
    size_t const n_all = tr.apps.size();
    size_t b = 0;
    while (b < n_all)
    {
        size_t e = b;
        while (e < n_all && tr.apps[e].adv == tr.apps[b].adv)
            ++e;
        // [b, e) is one FieldDriver::advance
        size_t i = b;
        if (!(tr.apps[b].h <= o.minimum_step))
        {
            int trials = 0;
            bool ok = false;
            while (i < e)
            {
                ++trials;
                bool const fail = tr.apps[i].dchord > dc_thr;
                ++i;
                if (!fail)
                {
                    ok = true;
                    break;
                }
                if (trials == o.max_nsteps)
                    break;
            }
            if (!ok)
                (i == e ? x.chord_kept : x.chord_discarded) = true;
            int integrations = 0;
            while (i < e)
            {
                ++integrations;
                if (tr.apps[i].h <= o.minimum_step)
                {
                    ++i;  // integrate_step: quick advance
                    continue;
                }
                size_t const g0 = i;
                trials = 0;
                bool fail = false;
                while (i < e && tr.apps[i].pos == tr.apps[g0].pos && tr.apps[i].mom == tr.apps[g0].mom
                       && trials < o.max_nsteps)
                {
                    ++trials;
                    fail = tr.apps[i].err_sq / eps2 > 1;
                    ++i;
                    if (!fail)
                        break;
                }
                if (fail && trials == o.max_nsteps)
                    x.ogs = true;
            }
            if (integrations >= o.max_nsteps)
                x.acc_budget = true;
        }
        b = e;
    }
    return x;
}

// direct == true : make_mag_field_propagator (the anchored factory), no counting
// direct == false: make_mag_field_stepper + CountStepper + make_field_propagator (the two
//                  functions the factory is composed of)
template<template<class> class StepperT, class FieldT, class GTV>
static Propagation run_prop(FieldT& field,
                            FieldDriverOptions const& opts,
                            ParticleTrackView const& particle,
                            GTV& geo,
                            real_type step,
                            bool direct,
                            int* nsteps,
                            DriverTrace* tr = nullptr)
{
    // step < 0: FieldPropagator::operator()() (no step limit)
    if (direct)
    {
        auto prop = make_mag_field_propagator<StepperT>(field, opts, particle, geo);
        return step < 0 ? prop() : prop(step);
    }
    auto stepper = make_mag_field_stepper<StepperT>(field, particle.charge());
    CountStepper<decltype(stepper)> cs{stepper, nsteps, g_verbose_stepper, tr};
    auto prop = make_field_propagator(cs, opts, particle, geo);
    return step < 0 ? prop() : prop(step);
}

template<class GTV>
static Propagation propagate_once(SF const& sf,
                                  FieldSet const& fs,
                                  LD const B[3],
                                  FieldDriverOptions const& opts,
                                  ParticleTrackView const& particle,
                                  GTV& geo,
                                  real_type step,
                                  bool direct,
                                  int* nsteps,
                                  DriverTrace* tr = nullptr)
{
    switch (sf.fk)
    {
        case Fk::ux:
        case Fk::uz:
        case Fk::uobl:
        case Fk::uneg:
        case Fk::u0: {
            UniformField field(Real3{double(B[0]), double(B[1]), double(B[2])});
            if (sf.st == St::dp)
                return run_prop<DormandPrinceStepper>(field, opts, particle, geo, step, direct, nsteps, tr);
            return run_prop<RungeKuttaStepper>(field, opts, particle, geo, step, direct, nsteps, tr);
        }
        case Fk::uzf: {
            UniformZField field{double(B[2])};
            if (sf.st == St::dp)
                return run_prop<DormandPrinceStepper>(field, opts, particle, geo, step, direct, nsteps, tr);
            if (sf.st == St::rk4)
                return run_prop<RungeKuttaStepper>(field, opts, particle, geo, step, direct, nsteps, tr);
            return run_prop<ZHelixStepper>(field, opts, particle, geo, step, direct, nsteps, tr);
        }
        case Fk::rzu:
        case Fk::rzs:
        case Fk::rzi: {
            RZMapField field((sf.fk == Fk::rzu   ? fs.rz_uniform
                              : sf.fk == Fk::rzs ? fs.rz_smooth
                                                 : fs.rz_inner)
                                 ->host_ref());
            if (sf.st == St::dp)
                return run_prop<DormandPrinceStepper>(field, opts, particle, geo, step, direct, nsteps, tr);
            return run_prop<RungeKuttaStepper>(field, opts, particle, geo, step, direct, nsteps, tr);
        }
    }
    return {};
}

// kind 0: uniform content, map contains the world | 1: smooth non-uniform content, contains the
// world | 2: uniform content on a map that lies INSIDE the world (r <= 10, -12 <= z <= 14;
// asymmetric and max_r != max_z on purpose; carries non-default driver_options = the `tight` set)
// | 3: HOLLOW map, value oracle only (never propagated through): 2.5 <= r <= 10, 3 <= z <= 17 (z
// range does not straddle 0), 7 x 5 knots, smooth content, its own driver_options
static RZMapFieldInput make_rz_input(double bz, int kind)
{
    RZMapFieldInput inp;
    inp.num_grid_z = 21;
    inp.num_grid_r = 11;
    inp.min_z = -60;
    inp.max_z = 60;
    inp.min_r = 0;
    inp.max_r = 60;
    if (kind == 2)
    {
        inp.num_grid_z = 14;
        inp.num_grid_r = 6;
        inp.min_z = -12;
        inp.max_z = 14;
        inp.max_r = 10;
        inp.driver_options.minimum_step = 1e-7;
        inp.driver_options.delta_chord = 1e-3;
        inp.driver_options.delta_intersection = 1e-6;
        inp.driver_options.epsilon_rel_max = 1e-5;
        inp.driver_options.epsilon_step = 1e-6;
    }
    if (kind == 3)
    {
        inp.num_grid_z = 7;
        inp.num_grid_r = 5;
        inp.min_z = 3;
        inp.max_z = 17;
        inp.min_r = 2.5;
        inp.max_r = 10;
        inp.driver_options.delta_chord = 0.02;
        inp.driver_options.max_nsteps = 7;
        inp.driver_options.max_substeps = 3;
    }
    for (unsigned iz = 0; iz < inp.num_grid_z; ++iz)
        for (unsigned ir = 0; ir < inp.num_grid_r; ++ir)
        {
            double z = inp.min_z + (inp.max_z - inp.min_z) * iz / (inp.num_grid_z - 1);
            double r = inp.min_r + (inp.max_r - inp.min_r) * ir / (inp.num_grid_r - 1);
            double fz = bz, fr = 0;
            if (kind == 1 || kind == 3)
            {
                fz = bz * (1 + 0.3 * std::cos(z / 25) - 0.2 * (r / 60) * (r / 60));
                fr = bz * 0.25 * (r / 60) * std::sin(z / 25);
            }
            inp.field_z.push_back(fz);
            inp.field_r.push_back(fr);
        }
    return inp;
}
static std::shared_ptr<RZMapFieldParams> make_rz(double bz, int kind)
{
    return std::make_shared<RZMapFieldParams>(make_rz_input(bz, kind));
}

static constexpr double rzi_max_r = 10, rzi_min_z = -12, rzi_max_z = 14;
// signed depth of a point inside the small map's cylinder (> 0: inside)
static LD rzi_depth(Real3 const& x)
{
    LD r = sqrtl((LD)x[0] * x[0] + (LD)x[1] * x[1]);
    return std::min<LD>(rzi_max_r - r, std::min<LD>(rzi_max_z - x[2], x[2] - rzi_min_z));
}

//---------------------------------------------------------------------------//
// RZMapField value oracle.  The map stores (B_z, B_r) on a uniform (z, r) grid; the class
// interpolates B_z linearly in z along the grid line of the LOWER r index, B_r linearly in r along
// the grid line of the LOWER z index, returns B_x = B_r x/r, B_y = B_r y/r, and zero outside
// [min_z, max_z] x [min_r, max_r] (both ends inclusive).  Re-derived here in long double from the
// input arrays.  Rounding: every operation of the double evaluation is within eps of exact and
// the fraction (v - knot)/delta carries the rounding of knot = front + delta*i (<= 2 eps |v|/delta):
// tolerance 32 eps (|low| + |high|) (1 + max|coordinate|/delta).  Within 8 ulp of an interior grid
// line the neighbouring bin is accepted as well (B_z jumps across r lines, B_r across z lines).
struct RzOracle
{
    RZMapFieldInput in;
    LD dz() const { return (LD(in.max_z) - in.min_z) / (in.num_grid_z - 1); }
    LD dr() const { return (LD(in.max_r) - in.min_r) / (in.num_grid_r - 1); }
    LD fz(int iz, int ir) const { return in.field_z[iz * in.num_grid_r + ir]; }
    LD fr(int iz, int ir) const { return in.field_r[iz * in.num_grid_r + ir]; }
    static void bins(LD v, LD front, LD delta, int n, int out[2], int* nout)
    {
        LD q = (v - front) / delta;
        int b = int(floorl(q));
        b = std::max(0, std::min(b, n - 2));
        out[0] = b;
        *nout = 1;
        LD const amb = 8 * 2.3e-16L * (fabsl(v) + fabsl(front)) / delta;
        if (b > 0 && q - b < amb)
            out[(*nout)++] = b - 1;
        if (b < n - 2 && (b + 1) - q < amb)
            out[(*nout)++] = b + 1;
    }
    // true if `got` agrees with one admissible evaluation
    bool check(Real3 const& x, Real3 const& got, LD want[3], LD* tol_out) const
    {
        LD r = sqrtl((LD)x[0] * x[0] + (LD)x[1] * x[1]);
        double rd = std::sqrt(x[0] * x[0] + x[1] * x[1]);  // the library's r (correctly rounded ops)
        LD z = x[2];
        want[0] = want[1] = want[2] = 0;
        *tol_out = 0;
        bool const in_z = x[2] >= in.min_z && x[2] <= in.max_z;
        // r is compared after rounding: one ulp either side of max_r both answers are admissible
        bool const in_r = rd >= in.min_r && rd <= in.max_r;
        bool const r_edge = fabsl(r - in.max_r) <= 4 * 2.3e-16L * in.max_r
                            || (in.min_r > 0 && fabsl(r - in.min_r) <= 4 * 2.3e-16L * in.min_r);
        auto is_zero = [&] { return got[0] == 0 && got[1] == 0 && got[2] == 0; };
        if (!in_z || (!in_r && !r_edge))
            return is_zero();
        if (r_edge && is_zero())
            return true;
        int bz[2], br[2], nz, nr;
        bins(z, in.min_z, dz(), in.num_grid_z, bz, &nz);
        bins(r, in.min_r, dr(), in.num_grid_r, br, &nr);
        bool okz = false, okr = false;
        for (int a = 0; a < nz; ++a)
            for (int b = 0; b < nr; ++b)
            {
                int iz = bz[a], ir = br[b];
                LD tz = (z - (in.min_z + dz() * iz)) / dz();
                LD tr = (r - (in.min_r + dr() * ir)) / dr();
                LD lo = fz(iz, ir), hi = fz(iz + 1, ir);
                LD wz = lo + (hi - lo) * tz;
                LD tolz = 32 * 2.3e-16L * (fabsl(lo) + fabsl(hi)) * (1 + fabsl(z) / dz());
                lo = fr(iz, ir);
                hi = fr(iz, ir + 1);
                LD wr = lo + (hi - lo) * tr;
                LD tolr = 32 * 2.3e-16L * (fabsl(lo) + fabsl(hi)) * (1 + r / dr());
                LD wx = r > 0 ? wr * x[0] / r : 0, wy = r > 0 ? wr * x[1] / r : 0;
                if (a == 0 && b == 0)
                {
                    want[0] = wx;
                    want[1] = wy;
                    want[2] = wz;
                    *tol_out = std::max(tolz, tolr);
                }
                okz |= fabsl(got[2] - wz) <= tolz;
                okr |= fabsl(got[0] - wx) <= tolr && fabsl(got[1] - wy) <= tolr;
            }
        return okz && okr;
    }
};

static void rzmap_value_cases(vf::Run& R, char const* name, RZMapFieldInput const& inp,
                              RZMapFieldParams const& params,
                              std::vector<std::unique_ptr<Geo>> const& geos)
{
    std::string cid = std::string("rzmap=") + name;
    if (!R.want(cid))
        return;
    R.begin_case(cid, 30);
    RzOracle O{inp};
    RZMapField field(params.host_ref());
    // the driver options of an RZ-map run are taken from the params in production
    // (RZMapFieldPropagatorFactory): they must be the ones of the input (library's operator==)
    R.count("evaluations");
    if (!(params.host_ref().options == inp.driver_options)
        || params.host_ref().options.delta_chord != inp.driver_options.delta_chord
        || params.host_ref().options.max_nsteps != inp.driver_options.max_nsteps)
        R.violation("rzmap:driver-options-not-stored", cid,
                    fmt("params options delta_chord=%g max_nsteps=%d, input delta_chord=%g max_nsteps=%d",
                        double(params.host_ref().options.delta_chord),
                        int(params.host_ref().options.max_nsteps),
                        double(inp.driver_options.delta_chord), int(inp.driver_options.max_nsteps)));
    R.tag(inp.driver_options == FieldDriverOptions{} ? "rzmap:driver-options-default"
                                                     : "rzmap:driver-options-non-default");
    std::vector<Real3> pts;
    auto add_sym = [&](Real3 p) {
        // the point and its mirror images: the map depends on (|r|, z) only, the vector follows x, y
        for (int sx : {1, -1})
            for (int sy : {1, -1})
                for (int sz : {1, -1})
                    pts.push_back({sx * p[0], sy * p[1], sz * p[2]});
        pts.push_back({p[1], p[0], p[2]});  // x <-> y (the unit test only has x == y)
        pts.push_back({0, 0, p[2]});  // on the axis: r == 0
        pts.push_back({p[0], 0, p[2]});
        pts.push_back({0, p[1], p[2]});
    };
    for (auto const& g : geos)
    {
        for (Real3 const& p : g->interior)
            add_sym(p);
        for (SurfPt const& sp : g->surf)
            add_sym(sp.s);
    }
    // a generic lattice over and beyond the map (3 x 3 x 4 per bin would be too many: 7 x 7 x 9)
    for (int i = 0; i <= 6; ++i)
        for (int j = 0; j <= 6; ++j)
            for (int k = 0; k <= 8; ++k)
            {
                double rr = inp.max_r * (0.013 + 0.181 * i);  // up to 1.1 max_r
                double ph = 0.37 + 0.97 * j;
                double zz = inp.min_z + (inp.max_z - inp.min_z) * (-0.06 + 0.1401 * k);
                pts.push_back({rr * std::cos(ph), rr * std::sin(ph), zz});
            }
    // map edges exactly and one ulp either side; grid lines exactly
    for (double zz : {inp.min_z, inp.max_z, inp.min_z + (inp.max_z - inp.min_z) / (inp.num_grid_z - 1)})
        for (int d = -1; d <= 1; ++d)
        {
            double ze = std::nextafter(zz, d < 0 ? -1e300 : 1e300);
            if (d == 0)
                ze = zz;
            pts.push_back({0.3 * inp.max_r, -0.2 * inp.max_r, ze});
            pts.push_back({0, 0, ze});
        }
    for (double rr : {inp.max_r, inp.max_r / (inp.num_grid_r - 1), 0.5 * (inp.max_r + inp.max_z)})
        for (int d = -1; d <= 1; ++d)
        {
            double re = d == 0 ? rr : std::nextafter(rr, d < 0 ? 0 : 1e300);
            pts.push_back({re, 0, 0.37 * inp.max_z});
            pts.push_back({0, -re, 0.11 * inp.min_z});
            pts.push_back({0.6 * re, 0.8 * re, 0.5});
        }
    if (inp.min_r > 0)
    {
        // hollow map: the inner edge exactly and one ulp either side, the first inner grid line,
        // a point deep in the hole; at a z inside the map and at z outside it
        double const dr = (inp.max_r - inp.min_r) / (inp.num_grid_r - 1);
        for (double rr : {inp.min_r, inp.min_r + dr, 0.4 * inp.min_r})
            for (int d = -1; d <= 1; ++d)
            {
                double re = d == 0 ? rr : std::nextafter(rr, d < 0 ? 0 : 1e300);
                for (double zz : {0.5 * (inp.min_z + inp.max_z), inp.min_z, inp.max_z,
                                  -0.5 * (inp.min_z + inp.max_z), 0.0})
                {
                    pts.push_back({re, 0, zz});
                    pts.push_back({0, -re, zz});
                    pts.push_back({-0.6 * re, 0.8 * re, zz});
                }
            }
    }
    for (Real3 const& x : pts)
    {
        Real3 got = field(x);
        LD want[3], tol;
        R.count("evaluations");
        R.count("rzmap_value_evals");
        bool ok = O.check(x, got, want, &tol);
        LD r = sqrtl((LD)x[0] * x[0] + (LD)x[1] * x[1]);
        R.tag(r == 0                                              ? "rzmap:on-axis"
              : (r < inp.min_r && x[2] >= inp.min_z && x[2] <= inp.max_z) ? "rzmap:in-hole"
              : (r > inp.max_r || x[2] < inp.min_z || x[2] > inp.max_z) ? "rzmap:outside-map"
                                                                        : "rzmap:inside-map");
        if (!ok)
            R.violation("rzmap:value-mismatch", cid,
                        fmt("RZMapField[%s] at (%s,%s,%s) r=%Lg = (%s,%s,%s); re-interpolated from the "
                            "input table: (%Lg,%Lg,%Lg) tol %Lg",
                            name, vf::dstr(x[0]).c_str(), vf::dstr(x[1]).c_str(), vf::dstr(x[2]).c_str(), r,
                            vf::dstr(got[0]).c_str(), vf::dstr(got[1]).c_str(), vf::dstr(got[2]).c_str(),
                            want[0], want[1], want[2], tol));
    }
    R.end_case();
}

static LD dist3(LD const a[3], LD const b[3])
{
    return sqrtl((a[0] - b[0]) * (a[0] - b[0]) + (a[1] - b[1]) * (a[1] - b[1])
                 + (a[2] - b[2]) * (a[2] - b[2]));
}

//---------------------------------------------------------------------------//
// ZHelixStepper on single steps: one case inside the configuration its unit test uses (gyration
// centre on the z axis, positive helicity, dir_y != 0) and one case for each way of leaving it.
static void zhelix_domain_cases(vf::Run& R, int which)
{
    struct ZC
    {
        char const* sig;
        int q;
        double bz;
        Real3 pos;
        Real3 dir;
        bool centre;
    };
    static ZC const cases[] = {
        {"zhelix:valid-domain-step-off-helix", -1, 1e4, {0, 0, 0.25}, {0.48, 0.64, 0.6}, true},
        {"zhelix:position-rotated-about-origin-not-gyrocentre", -1, 1e4, {0, 0, 0}, {0.6, 0.8, 0}, false},
        {"zhelix:z-advance-reversed-for-negative-helicity", +1, 1e4, {0, 0, 0.25}, {0.48, 0.64, 0.6}, true},
        {"zhelix:helicity-wrong-when-dir-y-is-zero", +1, 1e4, {0, 0, 0}, {1, 0, 0}, true},
        {"zhelix:nan-when-direction-parallel-to-field", -1, 1e4, {0, 0, 0}, {0, 0, 1}, false},
    };
    ZC c = cases[which];
    std::string cid = fmt("zhx=%d", which);
    if (!R.want(cid))
        return;
    R.begin_case(cid, 10);
    LD const p = kappa * 1e4L * 1.0L;  // gyroradius 1 cm in 1 T
    LD B[3] = {0, 0, c.bz};
    Helix H;
    H.init(c.pos, c.dir, B, c.q, p);
    if (c.centre)
    {
        c.pos[0] = double(-H.w[0] / H.omega);
        c.pos[1] = double(-H.w[1] / H.omega);
        H.init(c.pos, c.dir, B, c.q, p);
    }
    UniformZField field{c.bz};
    auto stepper = make_mag_field_stepper<ZHelixStepper>(field, units::ElementaryCharge{double(c.q)});
    OdeState y;
    y.pos = c.pos;
    y.mom = Real3{double(p) * c.dir[0], double(p) * c.dir[1], double(p) * c.dir[2]};
    double const h = 1.0;
    FieldStepperResult r = stepper(h, y);
    LD hp[3], hd[3];
    H.eval(h, hp, hd);
    LD pe[3] = {r.end_state.pos[0], r.end_state.pos[1], r.end_state.pos[2]};
    LD de[3] = {r.end_state.mom[0] / p, r.end_state.mom[1] / p, r.end_state.mom[2] / p};
    LD dev = dist3(hp, pe), ddev = dist3(hd, de);
    R.count("evaluations");
    R.count("zhelix_domain_cases");
    R.tag(which == 0 ? "zhelix:single-step-inside-domain" : "zhelix:single-step-outside-domain");
    // exact stepper, one step of 1 cm: 1e-9 is > 1e6 ulp
    if (!(dev <= 1e-9L) || !(ddev <= 1e-9L))
        R.violation(c.sig, cid,
                    fmt("ZHelixStepper(q=%d, Bz=%g G) step %g cm from pos=(%s,%s,%s) dir=(%g,%g,%g) |p|=%Lg MeV/c: "
                        "end pos=(%s,%s,%s) dir=(%Lg,%Lg,%Lg); analytic helix pos=(%Lg,%Lg,%Lg) dir=(%Lg,%Lg,%Lg); "
                        "|dpos|=%Lg |ddir|=%Lg",
                        c.q, c.bz, h, vf::dstr(c.pos[0]).c_str(), vf::dstr(c.pos[1]).c_str(),
                        vf::dstr(c.pos[2]).c_str(), c.dir[0], c.dir[1], c.dir[2], p,
                        vf::dstr(r.end_state.pos[0]).c_str(), vf::dstr(r.end_state.pos[1]).c_str(),
                        vf::dstr(r.end_state.pos[2]).c_str(), de[0], de[1], de[2], hp[0], hp[1], hp[2], hd[0],
                        hd[1], hd[2], dev, ddev));
    R.end_case();
}

//---------------------------------------------------------------------------//
// FieldPropagator::operator()(): "propagate a charged particle until it hits a boundary" (no step
// limit).  Interior starts only.  The call must come back with a finite positive distance and a
// finite state, either on a boundary (flag == geometry state, point on the analytic surface of
// the start volume) or flagged as looping, and in a uniform field on the helix at that distance.
static void nolimit_cases(vf::Run& R, Geo& G, Particles& parts, FieldSet const& fs)
{
    FieldDriverOptions opts;
    TolModel T{opts.epsilon_rel_max, opts.minimum_step, opts.delta_intersection, opts.delta_chord,
               FieldDriverOptions::dchord_tol};
    auto dirs = lattice_dirs();
    SF const sfl[] = {{St::dp, Fk::uz, 1e4, "dp:uz:1T"}, {St::rk4, Fk::ux, 1e4, "rk4:ux:1T"}};
    for (SF const& sf : sfl)
        for (double radius : {0.5, 5.0, 50.0})
            for (int q : {-1, 1})
                for (size_t ip = 0; ip < G.interior.size(); ++ip)
                    for (size_t id = ip % 3; id < dirs.size(); id += 3)
                    {
                        std::string cid = fmt("nolimit:g=%s;sf=%s;q=%c;R=%g;p=%zu;d=%zu", G.name.c_str(),
                                              sf.name.c_str(), q < 0 ? '-' : '+', radius, ip, id);
                        if (!R.want(cid))
                            continue;
                        R.begin_case(cid, 20);
                        LD B[3] = {0, 0, 0};
                        B[sf.fk == Fk::ux ? 0 : 2] = sf.bmag;
                        LD const p_target = kappa * sf.bmag * radius;
                        double const ke
                            = double(p_target * p_target
                                     / (sqrtl(p_target * p_target + LD(electron_mass) * electron_mass)
                                        + electron_mass));
                        LD const p_mev = sqrtl(LD(ke) * (LD(ke) + 2 * LD(electron_mass)));
                        auto geo = G.track();
                        geo = GeoTrackInitializer{G.interior[ip], dirs[id]};
                        auto particle = parts.view();
                        particle = ParticleTrackView::Initializer_t{q < 0 ? parts.eminus : parts.eplus,
                                                                    units::MevEnergy{ke}};
                        Helix H;
                        H.init(geo.pos(), geo.dir(), B, q, p_mev);
                        int const reg0 = G.vol2reg[geo.volume_id().unchecked_get()];
                        TraceGeo tg{geo};
                        int nst = 0;
                        Propagation r = propagate_once(sf, fs, B, opts, particle, tg, -1.0, false, &nst);
                        R.count("evaluations");
                        R.count("nolimit_cases");
                        std::string what
                            = fmt("propagate() [no step limit] %s q=%d R=%g from (%g,%g,%g) along (%g,%g,%g): "
                                  "distance=%s boundary=%d looping=%d pos=(%g,%g,%g) dir=(%g,%g,%g) "
                                  "geo.is_on_boundary=%d steppercalls=%d",
                                  sf.name.c_str(), q, radius, G.interior[ip][0], G.interior[ip][1],
                                  G.interior[ip][2], dirs[id][0], dirs[id][1], dirs[id][2],
                                  vf::dstr(r.distance).c_str(), r.boundary, r.looping, geo.pos()[0],
                                  geo.pos()[1], geo.pos()[2], geo.dir()[0], geo.dir()[1], geo.dir()[2],
                                  geo.is_on_boundary(), nst);
                        bool finite = std::isfinite(r.distance) && r.distance > 0;
                        for (int i = 0; i < 3; ++i)
                            finite = finite && std::isfinite(geo.pos()[i]) && std::isfinite(geo.dir()[i]);
                        if (!finite)
                        {
                            R.tag("nolimit:non-finite");
                            R.violation("nolimit:operator()()-returns-infinite-distance-and-nan-state", cid, what);
                            R.end_case();
                            continue;
                        }
                        R.tag(r.boundary ? "nolimit:boundary" : (r.looping ? "nolimit:looping" : "nolimit:neither"));
                        if (r.boundary == r.looping)
                            R.violation("nolimit:neither-boundary-nor-looping", cid, what);
                        if (r.boundary != geo.is_on_boundary())
                            R.violation("nolimit:boundary-flag-differs-from-geometry", cid, what);
                        LD pe[3] = {geo.pos()[0], geo.pos()[1], geo.pos()[2]};
                        if (r.boundary && fabsl(region_depth(G.prims, G.regions[reg0], pe)) > 1e-6L)
                            R.violation("nolimit:boundary-point-not-on-surface", cid, what);
                        // same tolerance model as the lattice (terms a, b, c, e)
                        LD hp[3], hd[3];
                        H.eval(r.distance, hp, hd);
                        LD const D = r.distance;
                        LD const tol = T.eps * (1 + 2 * nst) * D + 2 * T.min_step + T.d_int
                                       + (r.boundary ? landing_term(T, H) : 0) + 1e-12L * (20 + D);
                        LD dev = dist3(hp, pe);
                        if (!(dev <= tol))
                            R.violation("nolimit:end-point-off-helix", cid,
                                        what + fmt(" :: dev=%Lg tol=%Lg", dev, tol));
                        R.end_case();
                    }
}

//---------------------------------------------------------------------------//
int main(int argc, char** argv)
{
    vf::Run R(argc, argv, "C08", "c08_field");
    bool const thorough = R.thorough();
    g_verbose_stepper = R.replay() && getenv("C08_TRACE_STEPPER");

    if (units::tesla != 1e4 || units::centimeter != 1)
        R.harness_error("harness assumes the CGS/gauss unit system of this build");

    //// geometries ////
    std::vector<std::unique_ptr<Geo>> geos;
    for (auto* builder : {&build_boxes, &build_spheres, &build_cylshell, &build_boxhole, &build_rotdau})
    {
        geos.emplace_back(new Geo);
        try
        {
            (*builder)(R, *geos.back());
        }
        catch (std::exception const& e)
        {
            R.harness_error(std::string("geometry construction failed: ") + e.what());
        }
    }

    //// (stepper, field) alphabet ////
    std::vector<SF> sfs;
    {
        struct FD
        {
            Fk fk;
            char const* n;
        };
        struct BD
        {
            double b;
            char const* n;
        };
        for (St st : {St::dp, St::rk4})
        {
            char const* sn = st == St::dp ? "dp" : "rk4";
            for (FD f : {FD{Fk::ux, "ux"}, FD{Fk::uz, "uz"}, FD{Fk::uobl, "uobl"}})
                for (BD b : {BD{10.0, "1mT"}, BD{1e4, "1T"}, BD{1e6, "100T"}})
                {
                    // quick tier: one strength per direction (diagonal of the 3x3 table)
                    if (!thorough
                        && !((f.fk == Fk::ux && b.b == 1e4) || (f.fk == Fk::uz && b.b == 10.0)
                             || (f.fk == Fk::uobl && b.b == 1e6)))
                        continue;
                    sfs.push_back({st, f.fk, b.b, fmt("%s:%s:%s", sn, f.n, b.n)});
                }
            sfs.push_back({st, Fk::uzf, 1e4, fmt("%s:uzf:1T", sn)});
            sfs.push_back({st, Fk::rzu, 1e4, fmt("%s:rzu:1T", sn)});
            sfs.push_back({st, Fk::rzs, 1e4, fmt("%s:rzs:1T", sn)});
            // quick tier: the zero field and the small map with one integrator each
            if (thorough || st == St::dp)
                sfs.push_back({st, Fk::rzi, 1e4, fmt("%s:rzi:1T", sn)});
            if (thorough || st == St::rk4)
                sfs.push_back({st, Fk::u0, 0.0, fmt("%s:u0:0T", sn)});
            if (thorough && st == St::dp)
                sfs.push_back({st, Fk::uneg, 1e4, fmt("%s:uneg:1T", sn)});
        }
        sfs.push_back({St::zhelix, Fk::uzf, 1e4, "zhelix:uzf:1T"});
        if (thorough)
            sfs.push_back({St::zhelix, Fk::uzf, -1e4, "zhelix:uzf:-1T"});
    }
    FieldSet fs;
    fs.rz_uniform = make_rz(1e4, 0);
    fs.rz_smooth = make_rz(1e4, 1);
    fs.rz_inner = make_rz(1e4, 2);

    //// gyroradius / geometry scale ////
    double const scale = 5.0;  // cm: half width of the inner solids
    std::vector<double> ratios = {1e-4, 1e-3, 1e-2, 1e-1, 1, 1e1, 1e2, 1e3, 1e4};
    auto options = make_options(thorough);
    std::vector<int> ks = {1, 2, 5};
    Particles parts;

    // block index space
    size_t const NG = geos.size(), NSF = sfs.size(), NQ = 2, NR = ratios.size(), NO = options.size();
    uint64_t const nblocks = uint64_t(NG) * NSF * NQ * NR * NO;
    // Extra sub-lattice for |q| != 1 and m != m_e: an alpha (q = +2, m = 3727.379 MeV) and a neutral
    // massless particle in B != 0 (production sends neutral tracks through the same propagator):
    // geometry x (stepper, field) without ZHelix x radius indices 3..5 x default options.
    size_t const NXS = 2, NXR = 3, XR0 = 3;
    uint64_t const nextra = uint64_t(NG) * NSF * NXS * NXR;

    std::vector<std::vector<StartCfg>> starts;
    for (auto& g : geos)
        starts.push_back(make_starts(*g, thorough));

    for (int z = 0; z < 5; ++z)
        if (R.mine(nblocks + z))
            zhelix_domain_cases(R, z);
    // RZMapField values against the re-interpolated input tables (all three maps)
    if (R.mine(nblocks + 5))
        rzmap_value_cases(R, "rzu", make_rz_input(1e4, 0), *fs.rz_uniform, geos);
    if (R.mine(nblocks + 6))
        rzmap_value_cases(R, "rzs", make_rz_input(1e4, 1), *fs.rz_smooth, geos);
    if (R.mine(nblocks + 7))
    {
        rzmap_value_cases(R, "rzi", make_rz_input(1e4, 2), *fs.rz_inner, geos);
        // hollow map (min_r > 0, z range entirely positive): value oracle only
        rzmap_value_cases(R, "rzh", make_rz_input(1e4, 3), *make_rz(1e4, 3), geos);
    }
    // FieldPropagator::operator()() (no step limit)
    for (size_t g = 0; g < geos.size(); ++g)
        if (R.mine(nblocks + 8 + g))
            nolimit_cases(R, *geos[g], parts, fs);

    char const* const only_filter = getenv("C08_ONLY");
    if (only_filter)
        R.cap_hit(std::string("C08_ONLY=") + only_filter + " (block filter: not the declared lattice)");
    for (uint64_t bi = 0; bi < nblocks + nextra; ++bi)
    {
        bool const extra = bi >= nblocks;
        // (the indices nblocks .. nblocks + 8 + NG - 1 belong to the side cases above)
        if (!R.mine(extra ? bi + 8 + NG : bi))
            continue;
        if (R.expired())
            break;
        // geometry varies fastest so that a deadline cut never drops a whole geometry
        uint64_t x = extra ? bi - nblocks : bi;
        size_t ig = x % NG;
        x /= NG;
        size_t io = 0, ir, iq, isf;
        if (!extra)
        {
            io = x % NO;
            x /= NO;
            ir = x % NR;
            x /= NR;
            iq = x % NQ;
            x /= NQ;
            isf = x;
        }
        else
        {
            ir = XR0 + x % NXR;
            x /= NXR;
            iq = 2 + x % NXS;
            x /= NXS;
            isf = x;
        }
        Geo& G = *geos[ig];
        SF const& sf = sfs[isf];
        OptSet const& O = options[io];
        // species: e-, e+ | alpha, neutral (extra sub-lattice only)
        int const q = iq == 0 ? -1 : iq == 1 ? +1 : iq == 2 ? +2 : 0;
        double const mass = iq == 2 ? alpha_mass : iq == 3 ? 0.0 : electron_mass;
        ParticleId const species = iq == 0   ? parts.eminus
                                   : iq == 1 ? parts.eplus
                                   : iq == 2 ? parts.alpha
                                             : parts.neutral;
        char const qtag = iq == 0 ? '-' : iq == 1 ? '+' : iq == 2 ? 'a' : '0';
        bool const zh = sf.st == St::zhelix;
        if (extra && (zh || sf.fk == Fk::u0 || std::string(O.name) != "default"))
            continue;  // ZHelix: q = 0 is outside its domain; B = 0 is charge independent
        // quick tier: checkerboard over (radius, options, charge); every radius, every option set
        // and both charges still occur with every geometry and every (stepper, field)
        if (!thorough && (ir + io + iq + (extra ? isf : 0)) % 2)
            continue;
        if (extra)
            R.tag(q ? "species:alpha(q=+2,m=3727)" : "species:neutral-in-field(q=0,m=0)");
        std::string bid = fmt("g=%s;sf=%s;q=%c;r=%zu;o=%s",
                              G.name.c_str(), sf.name.c_str(), qtag, ir, O.name.c_str());
        if (R.replay() && R.replay_case().compare(0, bid.size(), bid) != 0)
            continue;
        if (only_filter && bid.find(only_filter) == std::string::npos)
            continue;  // developer aid (mutation runs): C08_ONLY=<substring of the block id>
        R.begin_case(bid, 120);
        double const t_block = R.elapsed();

        // field vector, momentum for the requested gyroradius
        LD B[3] = {0, 0, 0};
        switch (sf.fk)
        {
            case Fk::ux: B[0] = sf.bmag; break;
            case Fk::uobl:
                B[0] = 0.36 * sf.bmag;
                B[1] = 0.48 * sf.bmag;
                B[2] = 0.8 * sf.bmag;
                break;
            case Fk::uneg:
                B[0] = -0.36 * sf.bmag;
                B[1] = 0.48 * sf.bmag;
                B[2] = -0.8 * sf.bmag;
                break;
            default: B[2] = sf.bmag; break;
        }
        LD const Bn = sqrtl(B[0] * B[0] + B[1] * B[1] + B[2] * B[2]);
        // B = 0: a straight line with round step lengths from round start points ends EXACTLY on
        // a surface (step 1 + 1 from y = 1 to the face y = 3): a measure-zero tie that a curved
        // path never produces and that belongs to C05 ("internal move rounded onto a surface").
        // The zero-field block therefore uses a generic length scale.
        // (a neutral particle moves on a straight line in any field: same generic scale)
        double const radius = ratios[ir] * scale * (sf.fk == Fk::u0 || q == 0 ? 0.9371 : 1.0);
        // zero field: the momentum that would have this gyroradius in 1 T (radius is then only the
        // length scale of the requested steps)
        // (gyroradius = p / (|q| kappa B); neutral: the momentum a unit charge would have)
        LD const p_target = kappa * (Bn > 0 ? Bn : 1e4L) * radius * (q ? std::abs(q) : 1);
        // kinetic energy without cancellation: p^2 / (sqrt(p^2+m^2) + m)
        double const ke = double(p_target * p_target
                                 / (sqrtl(p_target * p_target + LD(mass) * mass) + mass));
        // momentum that corresponds to the *double* energy handed to the library
        LD const p_mev = sqrtl(LD(ke) * (LD(ke) + 2 * LD(mass)));

        TolModel T{O.o.epsilon_rel_max, O.o.minimum_step, O.o.delta_intersection, O.o.delta_chord,
                   FieldDriverOptions::dchord_tol};
        double const bump = O.o.delta_intersection * 0.1;
        bool const trace_full = O.o.max_nsteps < 100;  // record every stepper application

        std::vector<double> steps = {0.5 * O.o.minimum_step,
                                     O.o.minimum_step,
                                     3 * O.o.delta_intersection,
                                     1e-3 * radius,
                                     radius,
                                     10 * radius,
                                     1e3 * radius,
                                     // below the resolution of the coordinates (chord length 0):
                                     // only for the starts selected by `tiny_start` below
                                     1e-20,
                                     1e-15};
        size_t const n_regular_steps = 7;

        // Field seen by a path of length <= len that starts at x, if it is known analytically:
        // uniform fields everywhere; the small map when the whole ball around x that the call
        // can reach (every trial step and every Runge-Kutta stage stays within the requested
        // length of the call's start) lies on one side of the map edge: B inside, 0 outside.
        auto local_field = [&](Real3 const& x, double len, LD Bout[3]) -> bool {
            for (int i = 0; i < 3; ++i)
                Bout[i] = B[i];
            if (sf.fk == Fk::rzs)
                return false;
            if (sf.fk != Fk::rzi)
                return true;
            LD const d = rzi_depth(x);
            if (fabsl(d) <= LD(len) * 1.01L + 1e-4L)
                return false;
            if (d < 0)
                Bout[0] = Bout[1] = Bout[2] = 0;
            return true;
        };

        auto const& SC = starts[ig];
        for (size_t ic = 0; ic < SC.size(); ++ic)
        {
            StartCfg C = SC[ic];
            if (zh)
            {
                // ZHelixStepper rotates the *position* about the z axis (its documented formula
                // (x,y) = M(phi)(x0,y0)), which is the helix only when the gyration centre lies on
                // the z axis, and it divides by dir_y and by |dir_perp|.  Inside that domain:
                // interior starts moved sideways so that the centre is on the axis.  The three
                // excluded input classes are demonstrated once each in zhelix_domain_cases().
                if (C.kind != 0)
                    continue;
                if (q * sf.bmag > 0)
                {
                    R.tag("zhelix:skip-negative-helicity");
                    continue;
                }
                if (C.dir[1] == 0 || (C.dir[0] == 0 && C.dir[1] == 0))
                {
                    R.tag("zhelix:skip-dir-y-zero");
                    continue;
                }
                Helix h;
                h.init(C.pos, C.dir, B, q, p_mev);
                C.pos[0] = double(-h.w[0] / h.omega);
                C.pos[1] = double(-h.w[1] / h.omega);
                LD pl[3] = {C.pos[0], C.pos[1], C.pos[2]};
                if (prim_depth(G.prims[0], pl) < 0.1L)
                {
                    R.tag("zhelix:skip-orbit-outside-world");
                    continue;
                }
                bool near_surface = false;
                for (auto const& pr : G.prims)
                    if (fabsl(prim_depth(pr, pl)) < 1e-3L)
                        near_surface = true;
                if (near_surface)
                {
                    R.tag("zhelix:skip-start-near-surface");
                    continue;
                }
            }
            // sub-resolution steps: head-on from within minimum_step, on-boundary without set_dir,
            // and one interior start
            bool const tiny_start = !zh
                                    && ((C.kind == 1 && C.desc.compare(0, 4, "near") == 0
                                         && C.desc.find("h5e-07") != std::string::npos)
                                        || (C.kind == 2 && !C.redirect) || (C.kind == 0 && ic == 0));
            bool const dense_start = (C.kind == 1 && C.desc.compare(0, 4, "near") == 0)
                                     || (C.kind == 2 && C.redirect);
            for (size_t is = 0; is < steps.size(); ++is)
            {
                for (int k : ks)
                {
                    // checkerboard over (start configuration, step): every start configuration and
                    // every step length occurs, each pair in one of the two colours (the thorough
                    // tier has about twice as many start configurations as the quick tier)
                    // The colour depends on the block (radius, stepper/field) as well, so both
                    // colours of every (start, step) pair are executed in each tier; thorough tier:
                    // head-on and redirected on-boundary starts are not thinned at all.
                    if (is >= n_regular_steps)
                    {
                        if (!tiny_start)
                            continue;
                    }
                    else if (thorough && dense_start)
                        ;
                    else if ((ic + is + ig + ir + isf) % 2)
                        continue;
                    if (R.replay() && !R.want(bid + fmt(";c=%zu;s=%zu;k=%d", ic, is, k)))
                        continue;
                    auto full_id = [&] { return bid + fmt(";c=%zu;s=%zu;k=%d", ic, is, k); };
                    auto describe = [&] {
                        return fmt("start=%s pos=(%s,%s,%s) dir=(%s,%s,%s) step=%s/%d R=%g KE=%s",
                                   C.desc.c_str(),
                                   vf::dstr(C.pos[0]).c_str(), vf::dstr(C.pos[1]).c_str(),
                                   vf::dstr(C.pos[2]).c_str(), vf::dstr(C.dir[0]).c_str(),
                                   vf::dstr(C.dir[1]).c_str(), vf::dstr(C.dir[2]).c_str(),
                                   vf::dstr(steps[is]).c_str(), k, radius, vf::dstr(ke).c_str());
                    };
                    std::string const stsig = zh ? "[zhelix]" : "";
                    // Exits of the FieldDriver trial loops that return a (step, state) pair which do
                    // not belong together are findings of their own (see analyse_trace); they are
                    // only reachable with a small max_nsteps.  A violation is attributed to such a
                    // mechanism ONLY if the mechanism was observed in the very call that is judged
                    // (for the cumulative oracle: in some call of the trajectory so far), and the
                    // oracle that noticed it stays in the signature.
                    Exhaust ex_call, ex_traj;
                    auto viol = [&](std::string const& sig, std::string const& msg) {
                        bool const cumulative = sig.find("subdivided-path") != std::string::npos;
                        Exhaust const& x = cumulative ? ex_traj : ex_call;
                        std::string out = sig + stsig;
                        if (sig.find("direction-kink-landing") != std::string::npos)
                            ;
                        else if (x.chord_kept)
                            out = "driver:chord-search-exhausted-step-and-state-disagree[" + sig + "]";
                        else if (x.ogs)
                            out = "driver:one-good-step-exhausted-step-and-state-disagree[" + sig + "]";
                        else if (x.chord_discarded && sig.compare(0, 5, "skip:") == 0)
                            // find_next_chord ran out, accurate_advance then integrated the rescaled
                            // step accurately - but its sagitta was never brought below delta_chord,
                            // and only the chord is tested for boundaries
                            out = "driver:chord-search-exhausted-substep-sagitta-unchecked[" + sig + "]";
                        R.violation(out, full_id(), describe() + " :: [" + sig + "] " + msg);
                    };

                    auto vname = [&](OrangeTrackView const& g) -> std::string {
                        if (g.is_outside())
                            return "[outside]";
                        VolumeId v = g.volume_id();
                        if (!v || v.get() >= G.params->volumes().size())
                            return "[invalid]";
                        return G.params->volumes().at(v).name;
                    };
                    //// initialise the track ////
                    auto geo = G.track();
                    geo = GeoTrackInitializer{C.pos, C.dir};
                    if (geo.is_outside())
                    {
                        if (zh)
                        {
                            // relocated start fell on a surface plane: ORANGE cannot initialise there
                            R.tag("zhelix:skip-start-on-surface");
                            continue;
                        }
                        R.harness_error("start outside: " + full_id());
                    }
                    if (C.kind == 2)
                    {
                        auto next = geo.find_next_step();
                        if (!next.boundary)
                            R.harness_error("no boundary for on-boundary start: " + full_id());
                        geo.move_to_boundary();
                        geo.cross_boundary();
                        if (geo.is_outside())
                        {
                            R.tag("skip:crossed-to-outside");
                            continue;
                        }
                        if (C.redirect)
                        {
                            // A direction so close to the tangent plane that the curved path cannot
                            // separate from the surface by a representable amount (rise R theta^2/2
                            // below ~100 ulp of the coordinates) is exact tangency in double
                            // precision: a measure-zero input, not claimed.
                            if (C.redir_angle > 0 && radius * C.redir_angle * C.redir_angle / 2 < 1e-13)
                            {
                                R.tag("skip:tangent-below-double-resolution");
                                continue;
                            }
                            geo.set_dir(C.newdir);
                        }
                    }
                    auto particle = parts.view();
                    particle = ParticleTrackView::Initializer_t{species,
                                                                units::MevEnergy{ke}};
                    double const e_before = particle.energy().value();
                    double const p_before = particle.momentum().value();

                    Helix H0;  // anchored at the trajectory start
                    LD Btraj[3];
                    bool const traj_helix = local_field(geo.pos(), steps[is], Btraj);
                    H0.init(geo.pos(), geo.dir(), Btraj, q, p_mev);
                    LD D_total = 0;
                    LD tol_cum = 0;  // accumulated position tolerance of the calls so far
                    std::vector<std::pair<LD, LD>> kinks;  // (arc length, direction tolerance) per call
                    int ncalls = 0;
                    uint64_t tagbits = 0;
                    double const sub = steps[is] / k;
                    bool stop_traj = false;

                    for (int j = 0; j < k; ++j)
                    {
                        Real3 const x_start = geo.pos();
                        Real3 const u_start = geo.dir();
                        VolumeId const vol0 = geo.volume_id();
                        bool const onb0 = geo.is_on_boundary();
                        int const reg0 = (!geo.is_outside() && vol0 && vol0.get() < G.vol2reg.size())
                                             ? G.vol2reg[vol0.unchecked_get()]
                                             : -1;
                        if (reg0 < 0)
                        {
                            // Before the first call only the harness has touched the geometry
                            // state; afterwards it is the result of the propagation under test
                            // (and of crossing the boundary it reported): a verdict, not a
                            // harness problem.
                            if (j == 0)
                                R.harness_error("unmapped volume at the start: " + full_id());
                            viol("flags:geometry-state-invalid-after-propagation",
                                 fmt("before call %d the track is in no known volume (outside=%d)", j,
                                     geo.is_outside()));
                            break;
                        }
                        Helix H;
                        LD Bcall[3];
                        bool const call_helix = local_field(x_start, sub, Bcall);
                        H.init(x_start, u_start, Bcall, q, p_mev);
                        LD const inv_r = fabsl(H.omega);  // rotation per unit arc length
                        if (sf.fk == Fk::rzi)
                            R.tag(!call_helix    ? "rzi:call-may-cross-the-map-edge(no helix oracle)"
                                  : H.omega != 0 ? "rzi:call-inside-the-map(helix)"
                                                 : "rzi:call-outside-the-map(straight line)");

                        // k == 1: also run the anchored factory on an identical fresh state and
                        // require bit-identical results (it is the composition used below)
                        Propagation rd;
                        Real3 pd{}, dd{};
                        bool const twin = (k == 1);
                        if (twin)
                        {
                            OrangeTrackView g2 = G.track(1);
                            g2 = OrangeTrackView::DetailedInitializer{geo, u_start};
                            rd = propagate_once(sf, fs, B, O.o, particle, g2, sub, true, nullptr);
                            pd = g2.pos();
                            dd = g2.dir();
                        }

                        TraceGeo tg{geo};
                        tg.verbose = R.verbose();
                        DriverTrace dtr;
                        dtr.full = trace_full;
                        tg.tr = &dtr;
                        int nst = 0;
                        Propagation r = propagate_once(sf, fs, B, O.o, particle, tg, sub, false, &nst, &dtr);
                        ++ncalls;
                        R.count("evaluations");
                        ex_call = Exhaust{};
                        if (trace_full)
                        {
                            ex_call = analyse_trace(dtr, O.o);
                            ex_traj.chord_kept |= ex_call.chord_kept;
                            ex_traj.ogs |= ex_call.ogs;
                            if (ex_call.chord_kept)
                                R.tag("driver:chord-search-exhausted(result returned)");
                            if (ex_call.chord_discarded)
                                R.tag("driver:chord-search-exhausted(result replaced by accurate_advance)");
                            if (ex_call.ogs)
                                R.tag("driver:one-good-step-exhausted");
                            if (ex_call.acc_budget)
                                R.tag("driver:accurate-advance-used-all-max_nsteps");
                            if (!ex_call.any_mismatch())
                                R.tag("driver:small-max_nsteps-call-judged-under-real-signatures");
                        }

                        if (R.verbose())
                        {
                            fprintf(stderr,
                                    "  call %d: step=%s -> dist=%s boundary=%d looping=%d | pos=(%s,%s,%s) "
                                    "dir=(%s,%s,%s) onb=%d vol=%s finds=%d accepts=%d retries=%d steppercalls=%d\n",
                                    j, vf::dstr(sub).c_str(), vf::dstr(r.distance).c_str(), r.boundary,
                                    r.looping, vf::dstr(geo.pos()[0]).c_str(), vf::dstr(geo.pos()[1]).c_str(),
                                    vf::dstr(geo.pos()[2]).c_str(), vf::dstr(geo.dir()[0]).c_str(),
                                    vf::dstr(geo.dir()[1]).c_str(), vf::dstr(geo.dir()[2]).c_str(),
                                    geo.is_on_boundary(), vname(geo).c_str(),
                                    tg.n_find, tg.n_accept, tg.n_retry, nst);
                        }
                        //// geometry state after the call (checked before anything uses it) ////
                        if (geo.failed())
                        {
                            viol("flags:geometry-failed-after-propagation",
                                 fmt("call %d: geo.failed() after propagate(%s): dist=%s boundary=%d looping=%d", j,
                                     vf::dstr(sub).c_str(), vf::dstr(r.distance).c_str(), r.boundary, r.looping));
                            break;
                        }
                        if (twin)
                        {
                            bool same = rd.distance == r.distance && rd.boundary == r.boundary
                                        && rd.looping == r.looping && pd == geo.pos() && dd == geo.dir();
                            if (!same && !(std::isnan(r.distance) && std::isnan(rd.distance)))
                                viol("factory:make_mag_field_propagator-differs-from-its-parts",
                                     fmt("direct dist=%s boundary=%d vs composed dist=%s boundary=%d",
                                         vf::dstr(rd.distance).c_str(), rd.boundary,
                                         vf::dstr(r.distance).c_str(), r.boundary));
                        }

                        //// range ////
                        if (!(r.distance > 0) || !(r.distance <= sub * (1 + 1e-12)))
                        {
                            viol("range:distance-not-in-(0,step]",
                                 fmt("call %d distance=%s step=%s", j, vf::dstr(r.distance).c_str(),
                                     vf::dstr(sub).c_str()));
                            break;
                        }
                        //// momentum ////
                        {
                            Real3 const& d = geo.dir();
                            LD n2 = (LD)d[0] * d[0] + (LD)d[1] * d[1] + (LD)d[2] * d[2];
                            if (!(fabsl(n2 - 1) <= 8 * 2.3e-16L))
                                viol("mom:direction-not-unit", fmt("call %d |dir|^2-1=%Lg", j, n2 - 1));
                            if (particle.energy().value() != e_before
                                || particle.momentum().value() != p_before)
                                viol("mom:magnitude-changed",
                                     fmt("call %d p=%s was %s", j,
                                         vf::dstr(particle.momentum().value()).c_str(),
                                         vf::dstr(p_before).c_str()));
                        }
                        //// flags ////
                        bool const full = (r.distance >= sub * (1 - 1e-12));
                        // The documented degenerate outcome: no progress was possible from a start
                        // on a boundary, the track is pushed by min(0.1 delta_intersection, step)
                        bool const is_bump = onb0 && !r.boundary && !r.looping && !full
                                             && r.distance == std::min(bump, sub);
                        int kind;  // 0 full, 1 looping, 2 boundary, 3 bump
                        if (r.boundary)
                            kind = 2;
                        else if (r.looping)
                            kind = 1;
                        else if (is_bump)
                            kind = 3;
                        else
                            kind = 0;
                        if (r.boundary && r.looping)
                            viol("flags:boundary-and-looping", fmt("call %d", j));
                        if (kind == 0 && !full)
                            viol("flags:short-step-without-flag",
                                 fmt("call %d distance=%s < step=%s, boundary=0 looping=0 start_on_boundary=%d",
                                     j, vf::dstr(r.distance).c_str(), vf::dstr(sub).c_str(), onb0));
                        if (kind == 1 && full)
                            viol("flags:looping-after-full-step", fmt("call %d", j));
                        if (r.boundary != geo.is_on_boundary())
                        {
                            viol("flags:boundary-flag-differs-from-geometry",
                                 fmt("call %d result.boundary=%d geo.is_on_boundary=%d", j, r.boundary,
                                     geo.is_on_boundary()));
                            // the trajectory cannot be continued (crossing needs a surface state)
                            stop_traj = true;
                        }
                        if (geo.is_outside() || geo.volume_id() != vol0)
                        {
                            viol("flags:volume-changed-by-propagation",
                                 fmt("call %d volume %s -> %s", j, G.params->volumes().at(vol0).name.c_str(),
                                     vname(geo).c_str()));
                            stop_traj = true;  // the oracles below are for the start volume
                        }

                        //// analytic membership at the end point ////
                        LD pe[3] = {geo.pos()[0], geo.pos()[1], geo.pos()[2]};
                        LD dep0 = region_depth(G.prims, G.regions[reg0], pe);
                        if (kind == 2)
                        {
                            // must sit on the surface of the volume it travelled in: ORANGE places
                            // the track on the surface to ~1e-8 relative; 1e-6 absolute is 100x that
                            if (fabsl(dep0) > 1e-6L)
                                viol("member:boundary-point-not-on-surface",
                                     fmt("call %d signed depth in '%s' = %Lg", j,
                                         G.regions[reg0].name.c_str(), dep0));
                        }
                        else if (kind != 3)
                        {
                            if (dep0 < -LD(O.o.delta_intersection))
                            {
                                viol("member:end-point-in-foreign-volume",
                                     fmt("call %d reported '%s' but analytic depth there is %Lg at (%s,%s,%s)",
                                         j, G.regions[reg0].name.c_str(), dep0,
                                         vf::dstr(geo.pos()[0]).c_str(), vf::dstr(geo.pos()[1]).c_str(),
                                         vf::dstr(geo.pos()[2]).c_str()));
                            }
                        }

                        //// helix ////
                        D_total += r.distance;
                        if (call_helix)
                        {
                            LD const Dj = r.distance;
                            LD const xn = sqrtl(pe[0] * pe[0] + pe[1] * pe[1] + pe[2] * pe[2]);
                            // arc-length bookkeeping slack of this call (terms b, c, d)
                            LD const arc_slack = 2 * T.min_step + T.d_int
                                                 + (kind == 2 ? landing_term(T, H) : 0);
                            // (a) N stepper applications, each within eps_rel_max of its own length
                            // in position and eps_rel_max in direction; a direction error made in
                            // step i displaces everything after it, hence the factor (1 + N).
                            // Position: eps*D (local) + N*eps*D (pitch error carried) + N*eps*D (phase
                            // error times R_perp).  Direction: (1+N)*eps pitch + N*eps*D/R phase (the
                            // rotation rate scales with 1/|p|).
                            LD const eps_n = zh ? 0 : T.eps * (1 + 2 * nst);
                            LD const tol_pos = eps_n * Dj + arc_slack + 1e-12L * (xn + Dj);
                            LD const tol_dir = (zh ? 0 : T.eps * (1 + nst)) * (1 + Dj * inv_r)
                                               + inv_r * arc_slack + 1e-12L * (1 + Dj * inv_r);

                            LD hp[3], hd[3];
                            H.eval(Dj, hp, hd);
                            LD dev = dist3(hp, pe);
                            R.maxi("helix_dev_over_tol_ppm", uint64_t(std::min<LD>(dev / tol_pos, 1e6L) * 1e6L));
                            if (!(dev <= tol_pos))
                            {
                                viol("helix:end-point-off-helix",
                                     fmt("call %d dev=%Lg tol=%Lg (eps(1+N)D=%Lg arc_slack=%Lg) dist=%s kind=%d "
                                         "Rperp=%Lg finds=%d accepts=%d retries=%d steppercalls=%d",
                                         j, dev, tol_pos, eps_n * Dj, arc_slack, vf::dstr(Dj).c_str(), kind,
                                         H.radius_perp(), tg.n_find, tg.n_accept, tg.n_retry, nst));
                            }
                            // direction at the end of the call (the next call starts from it)
                            LD ue[3] = {geo.dir()[0], geo.dir()[1], geo.dir()[2]};
                            LD ddev = dist3(hd, ue);
                            bool const dir_bad = (kind != 3 && !(ddev <= tol_dir));
                            if (dir_bad)
                            {
                                // The one place where the reported arc length and the committed
                                // momentum can belong to different points of the substep
                                // (FieldPropagator: `update_length <= minimum_substep` commits
                                // substep.state.mom): the landing chord was hit within minimum_step
                                // of its start although it is much longer than delta_intersection.
                                // The committed momentum then belongs to the END of that trial
                                // substep, whose length is at most the first trial length of the
                                // last FieldDriver::advance: the direction cannot be off by more
                                // than that rotation.  Anything larger is not this finding.
                                bool const at_start = (kind == 2 && tg.last_dist <= T.min_step
                                                       && tg.last_max - tg.last_dist > 3 * T.d_int
                                                       && ddev <= LD(dtr.last_h_first) * inv_r + tol_dir);
                                viol(at_start ? "helix:direction-kink-landing-at-start-of-long-substep"
                                              : "helix:end-direction-off-helix",
                                     fmt("call %d |dir - helix dir|=%Lg tol=%Lg (eps-term=%Lg, arc slack %Lg / R %Lg) "
                                         "dist=%s kind=%d finds=%d accepts=%d retries=%d steppercalls=%d",
                                         j, ddev, tol_dir, (zh ? 0 : T.eps * (1 + nst)) * (1 + Dj * inv_r), arc_slack, 1 / std::max<LD>(inv_r, 1e-300L),
                                         vf::dstr(Dj).c_str(), kind, tg.n_find, tg.n_accept, tg.n_retry, nst));
                            }
                            // cumulative over the subdivided trajectory: position tolerances add, and
                            // a direction error admitted at the end of call i is carried over the
                            // remaining path
                            tol_cum += tol_pos;
                            if (k > 1 && kind != 3 && traj_helix)
                            {
                                LD carried = 0;
                                for (auto const& kk : kinks)
                                    carried += kk.second * (D_total - kk.first);
                                H0.eval(D_total, hp, nullptr);
                                LD devc = dist3(hp, pe);
                                LD tolc = tol_cum + carried;
                                if (!(devc <= tolc))
                                {
                                    viol("helix:subdivided-path-off-helix",
                                         fmt("after call %d of %d: dev=%Lg tol=%Lg (sum of per-call %Lg + carried "
                                             "direction %Lg) D=%Lg",
                                             j, k, devc, tolc, tol_cum, carried, D_total));
                                }
                            }
                            kinks.push_back({D_total, tol_dir});
                            if (dir_bad)
                                stop_traj = true;  // what follows would only repeat this finding

                            //// skipped boundary: samples of the analytic helix ////
                            if (kind != 3)
                            {
                                LD tol_skip_base = T.d_chord + T.dchord_tol + arc_slack;
                                if (zh)
                                {
                                    // The sagitta is measured at the mid point only; an exact stepper
                                    // can be handed substeps of more than one turn, for which the mid
                                    // point says nothing (documented algorithm); allow the tube radius.
                                    tol_skip_base += 2 * H.radius_perp();
                                }
                                int const NS = 32;
                                for (int m = 1; m <= NS; ++m)
                                {
                                    LD s = Dj * m / NS;
                                    LD sp[3];
                                    H.eval(s, sp, nullptr);
                                    if (region_depth(G.prims, G.regions[reg0], sp) >= 0)
                                        continue;
                                    LD tol_s = tol_skip_base + eps_n * s + 1e-12L * xn;
                                    bool bad = false;
                                    for (size_t rr = 0; rr < G.regions.size() && !bad; ++rr)
                                    {
                                        if (int(rr) == reg0)
                                            continue;
                                        LD dd2 = region_depth(G.prims, G.regions[rr], sp);
                                        if (dd2 > tol_s)
                                        {
                                            viol("skip:path-crossed-foreign-volume",
                                                 fmt("call %d helix sample s=%Lg of %s is %Lg deep inside '%s' "
                                                     "(travelling in '%s', tol %Lg) kind=%d steppercalls=%d",
                                                     j, s, vf::dstr(Dj).c_str(), dd2,
                                                     G.regions[rr].name.c_str(),
                                                     G.regions[reg0].name.c_str(), tol_s, kind, nst));
                                            bad = true;
                                        }
                                    }
                                    LD dw = prim_depth(G.prims[0], sp);
                                    if (!bad && -dw > tol_s)
                                    {
                                        viol("skip:path-left-the-world",
                                             fmt("call %d helix sample s=%Lg is %Lg outside the world", j, s, -dw));
                                        bad = true;
                                    }
                                    if (bad)
                                        break;
                                }
                            }
                        }

                        //// coverage tags ////
                        static char const* const kn[] = {"full", "looping", "boundary", "bump"};
                        R.tag(std::string("outcome:") + kn[kind]);
                        tagbits |= 1u << kind;
                        if (onb0)
                        {
                            R.tag("start:on-boundary");
                            tagbits |= 1u << 4;
                        }
                        if (sub <= O.o.minimum_step)
                        {
                            R.tag("driver:quick-advance");
                            tagbits |= 1u << 5;
                        }
                        if (tg.n_retry)
                        {
                            R.tag("loop:retry-shorter-substep");
                            tagbits |= 1u << 6;
                        }
                        if (tg.n_accept > 1)
                        {
                            R.tag("loop:multiple-substeps");
                            tagbits |= 1u << 7;
                        }
                        if (tg.endpoint_before_intercept)
                        {
                            R.tag("loop:intercept-beyond-endpoint");
                            tagbits |= 1u << 8;
                        }
                        if (kind == 2 && tg.n_find == 1)
                            R.tag("loop:boundary-on-first-chord");
                        if (tg.n_setdir <= 1)
                        {
                            R.tag("loop:chord-below-minimum-substep");
                            tagbits |= 1u << 9;
                        }
                        if (nst > tg.n_find)
                        {
                            R.tag("driver:chord-search-or-accurate-advance");
                            tagbits |= 1u << 10;
                        }
                        R.maxi("max_finds_per_call", tg.n_find);
                        R.maxi("max_stepper_calls_per_call", nst);

                        if (stop_traj)
                            break;
                        if (zh && kind == 2)
                        {
                            // the landing moves the track off its exact circle by up to
                            // delta_intersection, i.e. the gyration centre off the z axis, which is
                            // outside ZHelixStepper's working domain (see zhelix_domain_cases)
                            R.tag("zhelix:stopped-at-first-landing");
                            break;
                        }
                        if (onb0 && kind != 2 && geo.pos() == x_start)
                        {
                            // A step below the resolution of the coordinates was accepted from a
                            // start ON a boundary: move_internal() to the identical position clears
                            // the surface state although the point still lies on the surface.  The
                            // next query would find that surface at distance ~0 and crossing it can
                            // fail inside ORANGE; that is the navigation state problem recorded for
                            // C05 ("internal move rounded onto a surface"), not a claim of C08.
                            R.tag("traj:stopped-after-zero-length-move-off-a-boundary");
                            break;
                        }
                        if (kind == 3)
                        {
                            // After the bump the navigation state is, by the class's own comment,
                            // only hoped to be right; nothing further is claimed for this track.
                            R.tag("traj:stopped-after-bump");
                            break;
                        }
                        if (kind == 2)
                        {
                            geo.cross_boundary();
                            if (geo.failed())
                            {
                                // ORANGE could not cross the surface the propagator says it landed
                                // on (flag and surface state agreed, the point is on the analytic
                                // surface): the landing is not a point where the path leaves the
                                // volume.  Never seen on the unchanged code.
                                viol("member:reported-landing-cannot-be-crossed",
                                     fmt("call %d: cross_boundary() failed at (%s,%s,%s) dir (%s,%s,%s)", j,
                                         vf::dstr(geo.pos()[0]).c_str(), vf::dstr(geo.pos()[1]).c_str(),
                                         vf::dstr(geo.pos()[2]).c_str(), vf::dstr(geo.dir()[0]).c_str(),
                                         vf::dstr(geo.dir()[1]).c_str(), vf::dstr(geo.dir()[2]).c_str()));
                                break;
                            }
                            if (R.verbose())
                                fprintf(stderr, "  crossed -> vol=%s onb=%d\n", vname(geo).c_str(), geo.is_on_boundary());
                            if (geo.is_outside())
                            {
                                R.tag("traj:left-world");
                                break;
                            }
                            {
                                // the volume ORANGE reports after the crossing must contain the
                                // landing point (which was just verified to lie on the surface of
                                // the old volume): otherwise every later call starts from an
                                // inconsistent navigation state
                                VolumeId vn = geo.volume_id();
                                int regn = (vn && vn.get() < G.vol2reg.size()) ? G.vol2reg[vn.unchecked_get()] : -1;
                                LD pc[3] = {geo.pos()[0], geo.pos()[1], geo.pos()[2]};
                                if (regn < 0 || region_depth(G.prims, G.regions[regn], pc) < -1e-6L)
                                {
                                    viol("nav:volume-after-crossing-does-not-contain-the-landing-point",
                                         fmt("call %d landed in '%s' at (%s,%s,%s) dir (%s,%s,%s); cross_boundary() "
                                             "-> '%s', analytic depth there %Lg",
                                             j, G.regions[reg0].name.c_str(), vf::dstr(geo.pos()[0]).c_str(),
                                             vf::dstr(geo.pos()[1]).c_str(), vf::dstr(geo.pos()[2]).c_str(),
                                             vf::dstr(geo.dir()[0]).c_str(), vf::dstr(geo.dir()[1]).c_str(),
                                             vf::dstr(geo.dir()[2]).c_str(), vname(geo).c_str(),
                                             regn < 0 ? LD(0) : region_depth(G.prims, G.regions[regn], pc)));
                                    break;
                                }
                            }
                        }
                    }
                    R.count("trajectories");
                    if (tagbits & ~1ull)
                    {
                        uint64_t h = vf::hash_mix(vf::hash_str(G.name + sf.name + O.name), tagbits);
                        h = vf::hash_mix(h, uint64_t(ir) * 7 + uint64_t(C.kind));
                        R.nontrivial(h);
                    }
                    R.outcome(vf::hash_mix(vf::hash_str(bid), vf::hash_mix(tagbits, uint64_t(ncalls) * 8 + C.kind)));
                    if ((bi * 131 + ic * 17 + is * 3 + k) % 50021 == 0)
                        R.sample(full_id() + " " + describe()
                                 + fmt(" -> D=%Lg calls=%d end=(%g,%g,%g)", D_total, ncalls, geo.pos()[0],
                                       geo.pos()[1], geo.pos()[2]));
                }
            }
        }
        R.end_case();
        R.count("blocks");
        if (getenv("C08_BLOCK_TIMES"))
            fprintf(stderr, "BLOCKTIME %s %.3f\n", bid.c_str(), R.elapsed() - t_block);
    }
    return R.finish();
}
