// Shared pieces of the C07 harnesses (free-running ThreadSanitizer pass and schedule explorer)
#pragma once

#include <algorithm>

#include "harness/loop_explore.hh"

using namespace celeritas;
using namespace vf;

struct HashChooser : LoopChooser
{
    int choose(int n, InteractionQuery const& q) override
    {
        uint64_t h = hash_pod(q.event);
        h = hash_mix(h, q.track);
        h = hash_mix(h, q.step);
        h = hash_mix(h, uint64_t(q.particle));
        h = hash_mix(h, hash_pod(q.energy));
        return int(h % uint64_t(n));
    }
};

static std::vector<Primary> event_primaries(LoopProblem const& P, unsigned e)
{
    std::vector<Primary> v;
    double const s = 0.03 * e;
    v.push_back(P.primary(0, 20.0 + e, {0.2 + s, 0.1, 0.05}, {1, 0, 0}, e));
    v.push_back(P.primary(1, 8.0, {0.1, -0.2 + s, 0.3}, {0, 0.6, 0.8}, e));
    v.push_back(P.primary(2, 3.0 + e, {-0.2, 0.3, -0.1 - s}, {0.6, 0, -0.8}, e));
    // events differ in their NUMBER of primaries (e%3 = 0: two more, 1: none, 2: one more): a
    // stream that runs event 1 after event 0 inserts a smaller batch after a larger one - its
    // primary buffer is a high-water mark and must not replay the tail
    unsigned const extra = (e % 3 == 0) ? 2 : (e % 3 == 2) ? 1 : 0;
    if (extra >= 1)
        v.push_back(P.primary(0, 1.5, {0.2 + s, 0.1, 0.05}, {0, 1, 0}, e));
    if (extra >= 2)
        v.push_back(P.primary(0, 2.5, {0.2 + s, 0.1, 0.05}, {0, 0, -1}, e));
    return v;
}

static uint64_t per_track_hash(std::vector<StepRec> recs, std::map<int, std::string> const& labels)
{
    std::sort(recs.begin(), recs.end(), [](StepRec const& a, StepRec const& b) {
        return std::make_tuple(a.event, a.track, a.step_count)
               < std::make_tuple(b.event, b.track, b.step_count);
    });
    uint64_t h = 1469598103934665603ull;
    for (auto const& r : recs)
    {
        h = hash_mix(h, hash_pod(r.event) ^ (hash_pod(r.track) << 1) ^ (hash_pod(r.parent) << 2));
        h = hash_mix(h, hash_pod(r.step_count));
        h = hash_mix(h, hash_pod(r.particle) ^ hash_str(labels.at(r.action)));
        h = hash_mix(h, hash_pod(r.step_length));
        h = hash_mix(h, hash_pod(r.edep));
        for (auto const* p : {&r.pre, &r.post})
        {
            h = hash_mix(h, hash_pod(p->time));
            h = hash_mix(h, hash_pod(p->energy));
            h = hash_mix(h, hash_pod(p->pos));
            h = hash_mix(h, hash_pod(p->dir));
        }
    }
    return h;
}

struct Variant
{
    char const* name;
    bool calo;
    TrackOrder order{TrackOrder::none};
    bool checker{false};  // StatusChecker attached (a second begin-run action on the shared registry)
    AlongStep along{AlongStep::linear_fluct};
};

// rec        recorder + diagnostics
// calo       SimpleCalo + diagnostics, charge-partitioned initialisation
// recsort    recorder, track re-indexing by particle type (sort_tracks)
// recsortact recorder, re-indexing by along-step AND step-limit action (both SortTracksActions,
//            count_tracks_per_action / action_thread_offsets)
// recfield   recorder, uniform-field + Urban-MSC along-step with fluctuations (field driver,
//            propagator, looping logic, UrbanMscParams consumers)
// recchk     recorder + StatusChecker (debug status checking after every action)
// recpart    recorder + charge-partitioned initialisation (init_charge): the per-event HISTORIES
//            are compared under init_charge too (calo compares totals only); the serial reference
//            uses the same order
static std::vector<Variant> all_variants()
{
    return {{"rec", false, TrackOrder::none},
            {"calo", true, TrackOrder::init_charge},
            {"recsort", false, TrackOrder::reindex_particle_type},
            {"recsortact", false, TrackOrder::reindex_both_action},
            {"recfield", false, TrackOrder::none, false, AlongStep::field_msc_fluct},
            {"recchk", false, TrackOrder::none, true},
            {"recpart", false, TrackOrder::init_charge}};
}

static std::unique_ptr<LoopProblem> make_problem(Variant const& v, unsigned streams, unsigned slots)
{
    LoopConfig cfg;
    cfg.geometry = 1;
    cfg.along = v.along;
    cfg.status_checker = v.checker;
    cfg.slots = slots;
    cfg.max_streams = streams;
    cfg.max_events = 16;
    cfg.xs_gamma = 2.0;
    cfg.xs_electron = 3.0;
    cfg.action_diagnostic = true;
    cfg.step_diagnostic = true;
    cfg.track_order = v.order;
    if (v.calo)
    {
        cfg.with_recorder = false;
        cfg.calo_volumes = {"inner", "g1"};
    }
    auto P = make_loop_problem(cfg);
    if (P->recorder)
        P->recorder->split_streams = true;
    return P;
}

// transport one event on an existing stepper; returns per-track hash (0 if no recorder)
static uint64_t transport(LoopProblem& P, Stepper<MemSpace::host>& st, unsigned stream, unsigned e,
                          bool* ok)
{
    HashChooser ch;
    g_loop_chooser = &ch;
    if (P.recorder)
        P.recorder->stream_steps(stream).clear();
    st.reseed(UniqueEventId{e});
    auto prim = event_primaries(P, e);
    StepperResult r = st(make_span(prim));
    unsigned n = 1;
    while (r && n++ < 100000)
        r = st();
    *ok = !r;
    g_loop_chooser = nullptr;
    return P.recorder ? per_track_hash(P.recorder->stream_steps(stream), P.action_labels) : 0;
}

struct Tallies
{
    std::vector<std::vector<size_type>> actions, steps;
    std::vector<real_type> calo;
};
static Tallies tallies(LoopProblem& P)
{
    Tallies t;
    t.actions = P.action_diag->calc_actions();
    t.steps = P.step_diag->calc_steps();
    if (P.calo)
        t.calo = P.calo->calc_total_energy_deposition();
    return t;
}

