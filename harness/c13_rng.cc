// C13 - RNG skip-ahead equals sequential generation; streams never overlap; canonicals in [0,1).
//
// The xorshift part of XORWOW is F2-linear on its 160-bit state, so "every state" is covered
// by a basis.  All reference arithmetic (160x160 bit matrices, big exponents) is done here and
// shares no code with the engine; the only thing taken from the engine is the one-step
// transition T, read off the *real* operator() on the 160 unit states and then cross-checked
// for linearity on all pairs / triples of unit states and on dense states.
//
//  parts (case ids):
//   lin:*        real one-step map is linear (pairs, triples, dense)                    [states]
//   discard:i,d  real discard(d*4^i) == T^(d*4^i) on all 160 unit states + dense states
//   subseq:i,d   real discard_subsequence(d*4^i) (private; and through the public Initializer
//                path) == T^(d*4^i*2^67); the Initializer is run with 4 seeds x the 64-bit offset
//                lattice {0, 5, 2^32-1, 2^32, 2^32+5, 2^63, 2^64-1} == T^offset T^(n*2^67) s0(seed),
//                Weyl == w0 + offset*362437 mod 2^32, state never all-zero
//   subseq:n=0   the same seed x offset lattice with Initializer.subsequence == 0 (the first
//                stream keeps its offset): == T^offset s0(seed)
//   count:*      discard(n) for composite 64-bit n (pairs of digits, all-ones, carries) == T^n
//   weyl:*       Weyl counter after discard(n) == n*362437 mod 2^32
//   seq:*        discard(n) == n calls of operator() for all n <= N on dense states
//   period       T has multiplicative order 2^160-1 (factorisation re-verified) => one cycle
//   reseed:*     reseed_rng(event, slots): slot state == T^((event*slots+slot)*2^67) s0(seed),
//                indices pairwise distinct, segments inside one period; events 0..E, 1000003,
//                2^32-1, 2^40+7, 2^60+3 and the last event whose slots all fit below 2^64
//                (floor(2^64/slots)-1, index computed in 128 bits); events 0, 2^32-1, 2^60+3
//                again with StreamId 1 and 7 (the stream must not enter the index)
//   dbl:* flt:*  GenerateCanonical32<double/float> in [0,1): float over ALL 2^32 words,
//                double over all upper words x extreme lower words (thorough) / strided (quick)
//   canon:engine:W  the engine-specific path: the REAL engine is forced (Weyl word solved, x.w[1]
//                solved through a 32x32 F2 system) to yield the boundary words (W, L) next, then
//                generate_canonical<float/double>(engine), generate_canonical(engine) and the
//                GenerateCanonical<XorwowRngEngine,T> functor must return the documented function
//                of the words, inside [0,1), consuming exactly 1 / 2 words
#include <algorithm>
#include <array>
#include <cmath>
#include <cstdint>
#include <set>
#include <string>
#include <vector>

#include "corecel/data/CollectionStateStore.hh"
#include "corecel/data/Ref.hh"
#include "celeritas/random/RngParams.hh"
#include "celeritas/random/RngReseed.hh"
#include "celeritas/random/XorwowRngEngine.hh"
#include "celeritas/random/XorwowRngParams.hh"
#include "celeritas/random/detail/GenerateCanonical32.hh"
#include "celeritas/random/distribution/GenerateCanonical.hh"
#include "celeritas/random/RngEngine.hh"
#include "engine/harness.hh"

using namespace celeritas;
using vf::fmt;

//---------------------------------------------------------------------------//
// F2 linear algebra on 160-bit vectors
struct V160
{
    uint32_t w[5] = {0, 0, 0, 0, 0};
    bool operator==(V160 const& o) const
    {
        return w[0] == o.w[0] && w[1] == o.w[1] && w[2] == o.w[2] && w[3] == o.w[3]
               && w[4] == o.w[4];
    }
    bool operator!=(V160 const& o) const { return !(*this == o); }
    V160& operator^=(V160 const& o)
    {
        for (int k = 0; k < 5; ++k)
            w[k] ^= o.w[k];
        return *this;
    }
    bool bit(int i) const { return (w[i >> 5] >> (i & 31)) & 1u; }
    void set(int i) { w[i >> 5] |= (1u << (i & 31)); }
    bool zero() const { return !(w[0] | w[1] | w[2] | w[3] | w[4]); }
    std::string str() const
    {
        return fmt("%08x:%08x:%08x:%08x:%08x", w[0], w[1], w[2], w[3], w[4]);
    }
};
static V160 unit(int i)
{
    V160 v;
    v.set(i);
    return v;
}

struct M160
{
    std::array<V160, 160> col;  // col[j] = M e_j
    V160 operator*(V160 const& x) const
    {
        V160 r;
        for (int j = 0; j < 160; ++j)
            if (x.bit(j))
                r ^= col[j];
        return r;
    }
    M160 operator*(M160 const& b) const
    {
        M160 r;
        for (int j = 0; j < 160; ++j)
            r.col[j] = (*this) * b.col[j];
        return r;
    }
    bool operator==(M160 const& o) const { return col == o.col; }
    static M160 identity()
    {
        M160 r;
        for (int j = 0; j < 160; ++j)
            r.col[j] = unit(j);
        return r;
    }
};

// Arbitrary-size unsigned integers as little-endian 32-bit limbs (only what is needed)
using Big = std::vector<uint32_t>;
static Big big_from(unsigned __int128 v)
{
    Big b;
    while (v)
    {
        b.push_back(uint32_t(v));
        v >>= 32;
    }
    return b;
}
static Big big_mul_small(Big const& a, uint64_t m)
{
    Big r;
    unsigned __int128 carry = 0;
    for (size_t i = 0; i < a.size() || carry; ++i)
    {
        unsigned __int128 cur = carry;
        if (i < a.size())
            cur += (unsigned __int128)a[i] * m;
        r.push_back(uint32_t(cur));
        carry = cur >> 32;
    }
    while (!r.empty() && r.back() == 0)
        r.pop_back();
    return r;
}
static Big big_shl(Big const& a, int bits)
{
    Big r(bits / 32, 0);
    int s = bits % 32;
    uint64_t carry = 0;
    for (uint32_t x : a)
    {
        uint64_t cur = (uint64_t(x) << s) | carry;
        r.push_back(uint32_t(cur));
        carry = cur >> 32;
    }
    if (carry)
        r.push_back(uint32_t(carry));
    while (!r.empty() && r.back() == 0)
        r.pop_back();
    return r;
}
static Big big_div_small(Big const& a, uint64_t d, uint64_t* rem)
{
    Big q(a.size(), 0);
    unsigned __int128 r = 0;
    for (size_t i = a.size(); i-- > 0;)
    {
        unsigned __int128 cur = (r << 32) | a[i];
        q[i] = uint32_t(cur / d);
        r = cur % d;
    }
    while (!q.empty() && q.back() == 0)
        q.pop_back();
    *rem = uint64_t(r);
    return q;
}
static bool big_bit(Big const& a, size_t i)
{
    return i / 32 < a.size() && ((a[i / 32] >> (i % 32)) & 1u);
}
static size_t big_bits(Big const& a)
{
    return a.size() * 32;
}

struct Powers
{
    std::vector<M160> p2;  // p2[k] = T^(2^k)
    explicit Powers(M160 const& T, int n = 200)
    {
        p2.push_back(T);
        for (int k = 1; k < n; ++k)
            p2.push_back(p2.back() * p2.back());
    }
    V160 apply(Big const& e, V160 x) const
    {
        for (size_t i = 0; i < big_bits(e); ++i)
            if (big_bit(e, i))
                x = p2.at(i) * x;
        return x;
    }
    M160 matrix(Big const& e) const
    {
        M160 r = M160::identity();
        for (size_t i = 0; i < big_bits(e); ++i)
            if (big_bit(e, i))
                r = p2.at(i) * r;
        return r;
    }
};

//---------------------------------------------------------------------------//
// Real engine wrapper (one slot)
struct Real
{
    std::shared_ptr<XorwowRngParams> params;
    CollectionStateStore<XorwowRngStateData, MemSpace::host> store;
    explicit Real(unsigned seed, size_type slots = 1)
        : params(std::make_shared<XorwowRngParams>(seed))
        , store(params->host_ref(), StreamId{0}, slots)
    {
    }
    XorwowState& st(size_type i = 0) { return store.ref().state[TrackSlotId{i}]; }
    XorwowRngEngine engine(size_type i = 0)
    {
        return XorwowRngEngine(params->host_ref(), store.ref(), TrackSlotId{i});
    }
    void set(V160 const& v, uint32_t weyl, size_type i = 0)
    {
        for (int k = 0; k < 5; ++k)
            st(i).xorstate[k] = v.w[k];
        st(i).weylstate = weyl;
    }
    V160 get(size_type i = 0)
    {
        V160 v;
        for (int k = 0; k < 5; ++k)
            v.w[k] = st(i).xorstate[k];
        return v;
    }
};

static uint64_t splitmix(uint64_t& s)
{
    uint64_t z = (s += 0x9e3779b97f4a7c15ull);
    z = (z ^ (z >> 30)) * 0xbf58476d1ce4e5b9ull;
    z = (z ^ (z >> 27)) * 0x94d049bb133111ebull;
    return z ^ (z >> 31);
}
static std::vector<V160> dense_states(int n, uint64_t seed)
{
    std::vector<V160> r;
    uint64_t s = seed * 77 + 12345;
    for (int i = 0; i < n; ++i)
    {
        V160 v;
        for (int k = 0; k < 5; ++k)
            v.w[k] = uint32_t(splitmix(s));
        r.push_back(v);
    }
    // a few extreme ones
    V160 ones;
    for (int k = 0; k < 5; ++k)
        ones.w[k] = 0xffffffffu;
    r.push_back(ones);
    V160 lo;
    lo.w[0] = 1;
    r.push_back(lo);
    V160 hi;
    hi.w[4] = 0x80000000u;
    r.push_back(hi);
    return r;
}

//---------------------------------------------------------------------------//
int main(int argc, char** argv)
{
    vf::Run R(argc, argv, "C13", "c13_rng");
    bool const thorough = R.thorough();
    Real real(12345u);
    constexpr uint32_t weyl_inc = 362437u;

    auto transition = [&](char const* what) {
        R.count("transitions");
        R.count(what);
    };

    bool const algebra = (R.shard() == 0) || R.replay();

    //// T read off the real engine ////
    M160 T;
    for (int j = 0; j < 160; ++j)
    {
        real.set(unit(j), 0);
        auto e = real.engine();
        (void)e();
        T.col[j] = real.get();
    }
    Powers P(T, 200);
    auto dense = dense_states(thorough ? 256 : 32, R.seed());
    std::vector<V160> basis;
    for (int j = 0; j < 160; ++j)
        basis.push_back(unit(j));
    std::vector<V160> probe = basis;
    probe.insert(probe.end(), dense.begin(), dense.end());

    if (algebra)
    {
        // ---- lin: one-step map is linear, output word/weyl as documented ----
        auto step_real = [&](V160 const& x, uint32_t weyl, uint32_t* out, uint32_t* wout) {
            real.set(x, weyl);
            auto e = real.engine();
            *out = e();
            *wout = real.st().weylstate;
            transition("op_step");
            return real.get();
        };
        if (R.want("lin:pairs"))
        {
            R.begin_case("lin:pairs", 60);
            for (int i = 0; i < 160; ++i)
                for (int j = i + 1; j < 160; ++j)
                {
                    V160 x = unit(i);
                    x ^= unit(j);
                    uint32_t o, w;
                    V160 y = step_real(x, 7u * i + j, &o, &w);
                    V160 ref = T.col[i];
                    ref ^= T.col[j];
                    R.state(vf::hash_pod(x));
                    if (y != ref || w != 7u * i + j + weyl_inc || o != w + y.w[4])
                        R.violation("lin:step-not-linear", "lin:pairs",
                                    fmt("state %s: real %s ref %s out %08x weyl %08x",
                                        x.str().c_str(), y.str().c_str(), ref.str().c_str(), o, w));
                }
            R.end_case();
        }
        if (R.want("lin:triples"))
        {
            R.begin_case("lin:triples", 120);
            int stride = thorough ? 1 : 5;
            for (int i = 0; i < 160; i += 1)
                for (int j = i + 1; j < 160; j += stride)
                    for (int k = j + 1; k < 160; k += stride)
                    {
                        V160 x = unit(i);
                        x ^= unit(j);
                        x ^= unit(k);
                        uint32_t o, w;
                        V160 y = step_real(x, 0, &o, &w);
                        V160 ref = T.col[i];
                        ref ^= T.col[j];
                        ref ^= T.col[k];
                        if (y != ref)
                            R.violation("lin:step-not-linear", "lin:triples",
                                        fmt("state %s: real %s ref %s", x.str().c_str(),
                                            y.str().c_str(), ref.str().c_str()));
                    }
            R.end_case();
        }
        if (R.want("lin:dense"))
        {
            for (auto const& x : dense)
            {
                uint32_t o, w;
                V160 y = step_real(x, 0xfffffff0u, &o, &w);
                R.state(vf::hash_pod(x));
                if (y != T * x || w != uint32_t(0xfffffff0u + weyl_inc) || o != uint32_t(w + y.w[4]))
                    R.violation("lin:step-not-linear", "lin:dense",
                                fmt("state %s: real %s ref %s", x.str().c_str(), y.str().c_str(),
                                    (T * x).str().c_str()));
            }
        }
        // T must be invertible (a permutation of the state space)
        {
            // rank via elimination
            std::vector<V160> rows(T.col.begin(), T.col.end());
            int rank = 0;
            for (int b = 0; b < 160 && rank < 160; ++b)
            {
                int piv = -1;
                for (int r = rank; r < 160; ++r)
                    if (rows[r].bit(b))
                    {
                        piv = r;
                        break;
                    }
                if (piv < 0)
                    continue;
                std::swap(rows[rank], rows[piv]);
                for (int r = 0; r < 160; ++r)
                    if (r != rank && rows[r].bit(b))
                        rows[r] ^= rows[rank];
                ++rank;
            }
            R.count("evaluations");
            if (rank != 160)
                R.violation("lin:singular", "lin:rank", fmt("rank(T)=%d", rank));
        }

        // public path: Initializer{seed, subsequence, offset}; the 64-bit offset runs over a
        // lattice that includes values >= 2^32 (a truncation of the offset on its way into
        // discard() leaves the Weyl word right and the xorshift state wrong).  ref == nullptr
        // means subsequence 0 (base state == s0(seed)): the offset of the FIRST stream must not
        // be dropped by an "if (subsequence > 0)" shortcut around both skips.
        auto init_lattice = [&](std::string const& cid, unsigned long long n, M160 const* ref,
                                std::string const& sig_small) {
            static unsigned long long const offsets[]
                = {0ull, 5ull, 0xffffffffull, 1ull << 32, (1ull << 32) + 5, 1ull << 63, ~0ull};
            for (unsigned seed : {0u, 1u, 12345u, 0xffffffffu})
            {
                XorwowRngInitializer init0;
                init0.seed = {seed};
                real.engine() = init0;
                V160 s0 = real.get();
                uint32_t w0 = real.st().weylstate;
                if (s0.zero())
                    R.violation("init:zero-state", cid,
                                fmt("Initializer{seed=%u}: all-zero xorshift state", seed));
                V160 const base = ref ? (*ref) * s0 : s0;
                for (unsigned long long off : offsets)
                {
                    // scramble the slot first so that a skipped assignment cannot pass by
                    // leaving the reference state s0 of the previous initialisation in place
                    real.set(unit(7), 0x5a5a5a5au);
                    XorwowRngInitializer init;
                    init.seed = {seed};
                    init.subsequence = n;
                    init.offset = off;
                    real.engine() = init;
                    transition("op_init");
                    V160 want = P.apply(big_from(off), base);
                    uint32_t wwant = uint32_t(w0 + uint32_t(off) * weyl_inc);
                    R.state(vf::hash_mix(vf::hash_pod(want), off));
                    if (real.get() != want || real.st().weylstate != wwant)
                        R.violation(
                            off <= 5 ? sig_small : std::string("init:offset"), cid,
                            fmt("Initializer{seed=%u,subseq=%llu,offset=%llu}: real %s/%08x "
                                "ref %s/%08x",
                                seed, n, off, real.get().str().c_str(), real.st().weylstate,
                                want.str().c_str(), wwant));
                    if (real.get().zero())
                        R.violation("init:zero-state", cid, "all-zero xorshift state");
                }
            }
        };

        // ---- discard / subsequence on single base-4 digits: every stored polynomial ----
        for (int i = 0; i < 32; ++i)
            for (int d = 1; d <= 3; ++d)
            {
                unsigned long long n = (unsigned long long)d << (2 * i);
                std::string cid = fmt("discard:i=%d,d=%d", i, d);
                if (R.want(cid))
                {
                    R.begin_case(cid, 60);
                    Big e = big_from(n);
                    M160 ref = P.matrix(e);
                    for (auto const& x : probe)
                    {
                        real.set(x, 99u);
                        real.engine().discard(n);
                        transition("op_discard");
                        V160 y = real.get();
                        R.state(vf::hash_mix(vf::hash_pod(x), n));
                        uint32_t wref = uint32_t(99u + uint32_t(n) * weyl_inc);
                        if (y != ref * x)
                            R.violation(fmt("discard:poly[%d]", i), cid,
                                        fmt("discard(%llu) on %s: real %s ref %s", n,
                                            x.str().c_str(), y.str().c_str(),
                                            (ref * x).str().c_str()));
                        if (real.st().weylstate != wref)
                            R.violation("weyl:discard", cid,
                                        fmt("weyl after discard(%llu): real %08x ref %08x", n,
                                            real.st().weylstate, wref));
                    }
                    R.nontrivial(vf::hash_str(cid));
                    R.count("evaluations", probe.size());
                    R.end_case();
                }
                cid = fmt("subseq:i=%d,d=%d", i, d);
                if (R.want(cid))
                {
                    R.begin_case(cid, 60);
                    Big e = big_shl(big_from(n), 67);
                    M160 ref = P.matrix(e);
                    for (auto const& x : probe)
                    {
                        real.set(x, 1234u);
                        real.engine().discard_subsequence(n);  // private: -fno-access-control
                        transition("op_subseq");
                        V160 y = real.get();
                        if (y != ref * x)
                            R.violation(fmt("subseq:poly[%d]", i), cid,
                                        fmt("discard_subsequence(%llu) on %s: real %s ref %s", n,
                                            x.str().c_str(), y.str().c_str(),
                                            (ref * x).str().c_str()));
                        if (real.st().weylstate != 1234u)
                            R.violation("weyl:subseq", cid, "weyl changed by subsequence skip");
                    }
                    init_lattice(cid, n, &ref, fmt("subseq:init[%d]", i));
                    R.nontrivial(vf::hash_str(cid));
                    R.count("evaluations", probe.size() + 4 * 7);
                    R.end_case();
                }
            }

        // ---- Initializer{subsequence = 0, offset != 0}: stream 0 keeps its offset ----
        if (R.want("subseq:n=0"))
        {
            R.begin_case("subseq:n=0", 60);
            init_lattice("subseq:n=0", 0ull, nullptr, "init:subseq0-offset");
            R.nontrivial(vf::hash_str("subseq:n=0"));
            R.count("evaluations", 4 * 7);
            R.end_case();
        }

        // ---- composite counts: pairs of digits, carries, extremes ----
        {
            std::vector<unsigned long long> counts = {0ull, 1ull, 2ull, 3ull, 4ull, 5ull, 15ull, 16ull,
                                                      0xffffffffull, 0x100000000ull, 0xffffffffffffffffull,
                                                      0x8000000000000000ull, 0x5555555555555555ull,
                                                      0xaaaaaaaaaaaaaaaaull, 0x123456789abcdef0ull};
            for (int i = 0; i < 32; ++i)
                for (int j = i + 1; j < 32; ++j)
                {
                    if (!thorough && (i + j) % 3)
                        continue;
                    for (int di = 1; di <= 3; ++di)
                        for (int dj = 1; dj <= 3; ++dj)
                            counts.push_back(((unsigned long long)di << (2 * i))
                                             | ((unsigned long long)dj << (2 * j)));
                }
            std::vector<V160> few(dense.begin(), dense.begin() + 4);
            few.push_back(unit(0));
            few.push_back(unit(159));
            for (auto n : counts)
            {
                std::string cid = fmt("count:n=%llu", n);
                if (!R.want(cid))
                    continue;
                R.begin_case(cid, 60);
                Big e = big_from(n);
                for (auto const& x : few)
                {
                    real.set(x, 0xdeadbeefu);
                    real.engine().discard(n);
                    transition("op_discard");
                    V160 y = real.get();
                    V160 ref = P.apply(e, x);
                    uint32_t wref
                        = uint32_t(0xdeadbeefu + uint32_t((unsigned __int128)n * weyl_inc));
                    if (y != ref)
                        R.violation("count:discard", cid,
                                    fmt("discard(%llu) on %s: real %s ref %s", n, x.str().c_str(),
                                        y.str().c_str(), ref.str().c_str()));
                    if (real.st().weylstate != wref)
                        R.violation("weyl:discard", cid,
                                    fmt("weyl after discard(%llu): real %08x ref %08x", n,
                                        real.st().weylstate, wref));
                    // subsequence with the same count
                    real.set(x, 3u);
                    real.engine().discard_subsequence(n);
                    transition("op_subseq");
                    V160 ref2 = P.apply(big_shl(e, 67), x);
                    if (real.get() != ref2)
                        R.violation("count:subseq", cid,
                                    fmt("discard_subsequence(%llu) on %s: real %s ref %s", n,
                                        x.str().c_str(), real.get().str().c_str(),
                                        ref2.str().c_str()));
                }
                R.nontrivial(vf::hash_str(cid));
                R.count("evaluations", few.size() * 2);
                R.end_case();
            }
        }

        // ---- seq: discard(n) == n draws, all n <= N ----
        {
            int N = thorough ? 65536 : 4096;
            int nstates = thorough ? 8 : 3;
            for (int s = 0; s < nstates; ++s)
            {
                std::string cid = fmt("seq:state=%d", s);
                if (!R.want(cid))
                    continue;
                R.begin_case(cid, 300);
                V160 x0 = dense[s];
                uint32_t w0 = 0x1000u * s + 17;
                // sequential reference by drawing from the real engine
                Real seqr(1u);
                seqr.set(x0, w0);
                auto es = seqr.engine();
                for (int n = 0; n <= N; ++n)
                {
                    if (n > 0)
                    {
                        (void)es();
                        transition("op_step");
                    }
                    // jump n from the start
                    real.set(x0, w0);
                    real.engine().discard(n);
                    transition("op_discard");
                    if (real.get() != seqr.get() || real.st().weylstate != seqr.st().weylstate)
                    {
                        R.violation("seq:discard-vs-draws", cid,
                                    fmt("discard(%d) != %d draws from state %s: %s/%08x vs %s/%08x",
                                        n, n, x0.str().c_str(), real.get().str().c_str(),
                                        real.st().weylstate, seqr.get().str().c_str(),
                                        seqr.st().weylstate));
                        break;
                    }
                    // and the next draw is the same word
                    if ((n & 255) == 0)
                    {
                        Real a(1u), b(1u);
                        a.set(real.get(), real.st().weylstate);
                        b.set(seqr.get(), seqr.st().weylstate);
                        if (a.engine()() != b.engine()())
                            R.violation("seq:next-word", cid, "next word differs");
                    }
                }
                R.nontrivial(vf::hash_str(cid));
                R.count("evaluations", N + 1);
                R.end_case();
            }
        }

        // ---- period: ord(T) == 2^160 - 1 ----
        if (R.want("period"))
        {
            R.begin_case("period", 120);
            uint64_t const primes[] = {3, 5, 11, 17, 31, 41, 257, 61681, 65537, 414721,
                                       4278255361ull, 44479210368001ull};
            int const mult[] = {1, 2, 1, 1, 1, 1, 1, 1, 1, 1, 1, 1};
            // N = 2^160-1
            Big N(5, 0xffffffffu);
            // re-verify the factorisation by multiplication and primality by trial division
            Big prod = big_from(1);
            bool ok = true;
            for (int k = 0; k < 12; ++k)
            {
                for (int m = 0; m < mult[k]; ++m)
                    prod = big_mul_small(prod, primes[k]);
                uint64_t p = primes[k];
                for (uint64_t q = 2; q * q <= p; ++q)
                    if (p % q == 0)
                    {
                        ok = false;
                        break;
                    }
            }
            if (!ok || prod != N)
                R.harness_error("factorisation of 2^160-1 is wrong");
            M160 full = P.matrix(N);
            transition("ref_order");
            if (!(full == M160::identity()))
                R.violation("period:not-full", "period", "T^(2^160-1) != I");
            for (uint64_t p : primes)
            {
                uint64_t rem = 0;
                Big e = big_div_small(N, p, &rem);
                if (rem)
                    R.harness_error("prime does not divide");
                if (P.matrix(e) == M160::identity())
                    R.violation("period:not-full", "period",
                                fmt("T^((2^160-1)/%llu) == I: period is shorter than 2^160-1",
                                    (unsigned long long)p));
                transition("ref_order");
            }
            R.count("evaluations", 13);
            R.nontrivial(vf::hash_str("period"));
            R.end_case();
        }

        // ---- reseed: (event, slots, slot) -> subsequence event*slots+slot ----
        {
            int max_event = thorough ? 64 : 12;
            int max_slots = thorough ? 16 : 6;
            for (unsigned seed : {12345u, 0u})
                for (int slots = 1; slots <= max_slots; ++slots)
                {
                    std::string cid = fmt("reseed:seed=%u,slots=%d", seed, slots);
                    if (!R.want(cid))
                        continue;
                    R.begin_case(cid, 120);
                    auto rp = std::make_shared<RngParams>(seed);
                    CollectionStateStore<RngStateData, MemSpace::host> st(
                        rp->host_ref(), StreamId{0}, slots);
                    // s0(seed)
                    Real r0(seed);
                    XorwowRngInitializer init0;
                    init0.seed = {seed};
                    r0.engine() = init0;
                    V160 s0 = r0.get();
                    uint32_t w0 = r0.st().weylstate;
                    std::set<unsigned long long> indices;
                    std::vector<unsigned long long> events;
                    for (int e = 0; e <= max_event; ++e)
                        events.push_back(e);
                    events.push_back(1000003ull);
                    events.push_back(0xffffffffull);
                    events.push_back((1ull << 40) + 7);
                    // top of the 64-bit index range: 2^60+3 (index > 2^53, < 2^63 for slots <= 8)
                    // and the LAST event whose slots all fit below 2^64 (beyond it two events
                    // share a segment by construction: the disjointness claim ends there);
                    // slots == 1 would give the invalid id 2^64-1, so the largest valid id is used
                    // (2^59+3 for 16 slots, where 2^60+3 would itself wrap)
                    unsigned long long const ev_top = (1ull << (slots < 16 ? 60 : 59)) + 3;
                    unsigned long long const ev_last = std::min<unsigned __int128>(
                        (((unsigned __int128)1 << 64) / (unsigned)slots) - 1, ~0ull - 1);
                    events.push_back(ev_top);
                    events.push_back(ev_last);
                    // the StreamId argument must not enter the index: events 0, 2^32-1, 2^60+3
                    // are reseeded again as streams 1 and 7 (store built for that stream)
                    CollectionStateStore<RngStateData, MemSpace::host> st1(
                        rp->host_ref(), StreamId{1}, slots);
                    CollectionStateStore<RngStateData, MemSpace::host> st7(
                        rp->host_ref(), StreamId{7}, slots);
                    size_t nreseed = 0;
                    for (auto ev : events)
                    {
                        bool const all_streams = (ev == 0 || ev == 0xffffffffull || ev == ev_top);
                        for (int stream : {0, 1, 7})
                        {
                            if (stream != 0 && !all_streams)
                                continue;
                            auto& store = stream == 0 ? st : stream == 1 ? st1 : st7;
                            reseed_rng(rp->host_ref(), store.ref(), StreamId(stream),
                                       UniqueEventId{ev});
                            transition("op_reseed");
                            ++nreseed;
                            for (int s = 0; s < slots; ++s)
                            {
                                auto const& xs = store.ref().state[TrackSlotId(s)];
                                V160 got;
                                for (int k = 0; k < 5; ++k)
                                    got.w[k] = xs.xorstate[k];
                                // 128-bit: a wrap of event*slots+slot must be noticed here, not
                                // reproduced
                                unsigned __int128 const idx128
                                    = (unsigned __int128)ev * (unsigned)slots + (unsigned)s;
                                if (idx128 >> 64)
                                    R.harness_error("reseed lattice: index >= 2^64");
                                unsigned long long idx = (unsigned long long)idx128;
                                V160 want = P.apply(big_shl(big_from(idx128), 67), s0);
                                R.state(vf::hash_mix(vf::hash_pod(got),
                                                     vf::hash_mix(idx, stream)));
                                if (got != want || xs.weylstate != w0)
                                    R.violation(
                                        stream == 0 ? "reseed:wrong-subsequence"
                                                    : "reseed:stream-dependent",
                                        cid,
                                        fmt("event %llu stream %d slot %d/%d: state %s expected "
                                            "subsequence %llu = %s",
                                            ev, stream, s, slots, got.str().c_str(), idx,
                                            want.str().c_str()));
                                if (stream == 0 && !indices.insert(idx).second)
                                    R.violation("reseed:overlap", cid,
                                                fmt("subsequence %llu assigned twice", idx));
                                if (got.zero())
                                    R.violation("reseed:zero-state", cid,
                                                "all-zero xorshift state");
                            }
                        }
                    }
                    R.count("evaluations", nreseed * slots);
                    R.nontrivial(vf::hash_str(cid));
                    R.end_case();
                }
            // (max index + 1) * 2^67 <= 2^64 * 2^67 = 2^131 < 2^160 - 1: segments of one cycle;
            // the lattice reaches index 2^64-1 (slots | 2^64) resp. the last full event below it
        }

        // ---- canon: the engine-specific path generate_canonical<T>(XorwowRngEngine&) ----
        // The real engine is put into a state whose next output word(s) are the chosen boundary
        // words: with y = T x the first output is weyl + 362437 + y.w[4], so the Weyl word is
        // solved for W; the second output is weyl + 2*362437 + (T^2 x).w[4], which depends on
        // x.w[1] through an invertible 32x32 F2-linear map (solved by elimination) and on nothing
        // that the first output depends on.  Then generate_canonical<float/double>(engine),
        // generate_canonical(engine) and the GenerateCanonical<XorwowRngEngine,T> functor are
        // called: the result must lie in [0,1), must be the documented function of the words
        // (float: W/2^32 rounded to nearest float, clamped below 1; double: ((W<<21)^L)/2^53
        // exactly - GenerateCanonical32.hh), and exactly one resp. two words must be consumed
        // (state == T x resp. T^2 x, Weyl advanced by 1 resp. 2 increments).
        {
            M160 const& T2 = P.p2[1];
            // G: x.w[1] -> (T^2 x).w[4]
            uint32_t G[32];
            for (int j = 0; j < 32; ++j)
                G[j] = T2.col[32 + j].w[4];
            auto solve = [&](uint32_t rhs, uint32_t* sol) {
                // Gauss-Jordan on [G | I]: find d with XOR_{j in d} G[j] == rhs
                uint32_t a[32], c[32];
                for (int j = 0; j < 32; ++j)
                {
                    a[j] = G[j];
                    c[j] = 1u << j;
                }
                uint32_t d = 0;
                int used = 0;
                for (int b = 0; b < 32; ++b)
                {
                    int piv = -1;
                    for (int j = used; j < 32; ++j)
                        if ((a[j] >> b) & 1u)
                        {
                            piv = j;
                            break;
                        }
                    if (piv < 0)
                        return false;
                    std::swap(a[used], a[piv]);
                    std::swap(c[used], c[piv]);
                    for (int j = 0; j < 32; ++j)
                        if (j != used && ((a[j] >> b) & 1u))
                        {
                            a[j] ^= a[used];
                            c[j] ^= c[used];
                        }
                    ++used;
                }
                // a[] is now a permutation of unit vectors: a[k] has exactly bit k set
                for (int k = 0; k < 32; ++k)
                    if ((rhs >> k) & 1u)
                        d ^= c[k];
                *sol = d;
                return true;
            };
            std::vector<uint32_t> Ws = {0u, 1u, 0x7fffffffu, 0x80000000u, 0xffffff00u, 0xffffff7fu,
                                        0xffffff80u, 0xffffff81u, 0xfffffffeu, 0xffffffffu};
            if (thorough)
                for (uint32_t k = 2; k < 512; ++k)
                    Ws.push_back(0xffffffffu - k);
            uint32_t const Ls[] = {0u, 1u, 0x001fffffu, 0x00200000u, 0x7fffffffu, 0xffe00000u,
                                   0xffffffffu};
            float const flt_max = std::nextafterf(1.0f, 0.0f);
            for (size_t wi = 0; wi < Ws.size(); ++wi)
            {
                uint32_t const W = Ws[wi];
                std::string cid = fmt("canon:engine:W=0x%08x", W);
                if (!R.want(cid))
                    continue;
                R.begin_case(cid, 60);
                for (uint32_t L : Ls)
                    for (int si = 0; si < 3; ++si)
                    {
                        V160 x = dense[(wi + si) % dense.size()];
                        uint32_t a = (T * x).w[4];
                        uint32_t weyl = W - weyl_inc - a;
                        uint32_t bwant = L - weyl - 2 * weyl_inc;
                        uint32_t d = 0;
                        if (!solve(bwant ^ (T2 * x).w[4], &d))
                        {
                            R.harness_error("canon: second-word map is singular");
                            break;
                        }
                        x.w[1] ^= d;
                        V160 const x1 = T * x, x2 = T2 * x;
                        // the forced words really are what the engine yields
                        real.set(x, weyl);
                        {
                            auto e = real.engine();
                            uint32_t o1 = e(), o2 = e();
                            transition("op_step");
                            transition("op_step");
                            if (o1 != W || o2 != L)
                            {
                                R.violation("canon:forced-words", cid,
                                            fmt("state %s/%08x: engine yields %08x,%08x, reference "
                                                "model %08x,%08x",
                                                x.str().c_str(), weyl, o1, o2, W, L));
                                continue;
                            }
                        }
                        long double const exact_f = std::ldexp((long double)W, -32);
                        float want_f = float(exact_f);  // round to nearest (W < 2^32: exact in long double)
                        if (!(want_f < 1.0f))
                            want_f = flt_max;
                        double const want_d
                            = std::ldexp(double((uint64_t(W) << 21) ^ uint64_t(L)), -53);
                        auto judge = [&](char const* what, double got, double want, int words) {
                            transition("op_canonical");
                            V160 const& xs = words == 1 ? x1 : x2;
                            uint32_t ws = weyl + words * weyl_inc;
                            if (!(got >= 0.0 && got < 1.0))
                                R.violation(fmt("canonical:engine-%s-not-in-[0,1)",
                                                words == 1 ? "float" : "double"),
                                            cid,
                                            fmt("%s with next words 0x%08x,0x%08x -> %.17g", what, W,
                                                L, got));
                            if (got != want)
                                R.violation("canonical:engine-path-value", cid,
                                            fmt("%s with next words 0x%08x,0x%08x -> %.17g, documented "
                                                "construction gives %.17g",
                                                what, W, L, got, want));
                            if (real.get() != xs || real.st().weylstate != ws)
                                R.violation("canonical:engine-path-words-consumed", cid,
                                            fmt("%s did not consume exactly %d word(s): state %s/%08x "
                                                "expected %s/%08x",
                                                what, words, real.get().str().c_str(),
                                                real.st().weylstate, xs.str().c_str(), ws));
                        };
                        {
                            real.set(x, weyl);
                            auto e = real.engine();
                            float f = generate_canonical<float>(e);
                            judge("generate_canonical<float>(xorwow)", f, want_f, 1);
                        }
                        {
                            real.set(x, weyl);
                            auto e = real.engine();
                            float f = GenerateCanonical<XorwowRngEngine, float>()(e);
                            judge("GenerateCanonical<XorwowRngEngine,float>", f, want_f, 1);
                        }
                        {
                            real.set(x, weyl);
                            auto e = real.engine();
                            double v = generate_canonical<double>(e);
                            judge("generate_canonical<double>(xorwow)", v, want_d, 2);
                        }
                        {
                            real.set(x, weyl);
                            auto e = real.engine();
                            double v = GenerateCanonical<XorwowRngEngine, double>()(e);
                            judge("GenerateCanonical<XorwowRngEngine,double>", v, want_d, 2);
                        }
                        {
                            static_assert(std::is_same<real_type, double>::value,
                                          "harness assumes a double-precision build");
                            real.set(x, weyl);
                            RngEngine e(real.params->host_ref(), real.store.ref(), TrackSlotId{0});
                            real_type v = generate_canonical(e);
                            judge("generate_canonical(RngEngine)", v, want_d, 2);
                        }
                        R.state(vf::hash_mix(vf::hash_pod(x), (uint64_t(W) << 32) | L));
                        R.count("evaluations", 5);
                    }
                R.nontrivial(vf::hash_str(cid));
                R.end_case();
            }
        }
    }

    //// canonical reals: sharded ////
    {
        ::celeritas::detail::GenerateCanonical32<float> genf;
        ::celeritas::detail::GenerateCanonical32<double> gend;
        struct Words
        {
            using result_type = unsigned int;
            static constexpr unsigned int min() { return 0u; }
            static constexpr unsigned int max() { return 0xffffffffu; }
            unsigned int a, b;
            int k = 0;
            unsigned int operator()() { return (k++ & 1) ? b : a; }
        };
        uint64_t const nblocks = 4096;  // blocks of 2^20 words
        uint64_t bad_f = 0, bad_d = 0;
        unsigned const lows[] = {0u, 0xffffffffu, 0x001fffffu, 0xffe00000u, 0x00200000u, 0x7fffffffu};
        for (uint64_t blk = 0; blk < nblocks; ++blk)
        {
            if (!R.mine(blk))
                continue;
            std::string cid = fmt("flt:block=%llu", (unsigned long long)blk);
            if (R.want(cid))
            {
                for (uint64_t w = blk << 20; w < ((blk + 1) << 20); ++w)
                {
                    Words g{unsigned(w), unsigned(w)};
                    float f = genf(g);
                    if (!(f >= 0.0f && f < 1.0f))
                    {
                        if (bad_f++ < 3)
                            R.violation("canonical:float-not-below-1", cid,
                                        fmt("GenerateCanonical32<float> word 0x%08x -> %.9g",
                                            unsigned(w), double(f)));
                        else
                            R.count("float_out_of_range");
                    }
                }
                R.count("evaluations", 1u << 20);
                R.count("transitions", 1u << 20);
                R.nontrivial(vf::hash_str(cid));
            }
            cid = fmt("dbl:block=%llu", (unsigned long long)blk);
            if (R.want(cid))
            {
                uint64_t stride = thorough ? 1 : 64;
                uint64_t n = 0;
                double prev = -1;
                for (uint64_t w = blk << 20; w < ((blk + 1) << 20); w += stride)
                {
                    for (unsigned lo : lows)
                    {
                        Words g{unsigned(w), lo};
                        double d = gend(g);
                        ++n;
                        if (!(d >= 0.0 && d < 1.0))
                        {
                            if (bad_d++ < 3)
                                R.violation("canonical:double-not-in-[0,1)", cid,
                                            fmt("GenerateCanonical32<double> words 0x%08x,0x%08x -> %.17g",
                                                unsigned(w), lo, d));
                        }
                    }
                    // monotone in the upper word for lower word 0: justifies checking the
                    // extreme lower words only
                    Words g{unsigned(w), 0u};
                    double d0 = gend(g);
                    if (w != (blk << 20) && !(d0 > prev))
                        R.violation("canonical:double-not-monotone", cid,
                                    fmt("upper word 0x%08x", unsigned(w)));
                    prev = d0;
                }
                R.count("evaluations", n);
                R.count("transitions", n);
            }
            if (R.expired())
                break;
        }
        // the extreme pairs: top 2^11 upper words x top/bottom 2^11 lower words
        if (algebra && R.want("dbl:extreme"))
        {
            uint64_t n = 0;
            for (unsigned u = 0xffffffffu; u > 0xffffffffu - 2048; --u)
                for (unsigned l = 0; l < 2048; ++l)
                    for (unsigned lo : {l, 0xffffffffu - l, 0x001fffffu - l, 0x00200000u + l})
                    {
                        Words g{u, lo};
                        double d = gend(g);
                        ++n;
                        if (!(d >= 0.0 && d < 1.0))
                            R.violation("canonical:double-not-in-[0,1)", "dbl:extreme",
                                        fmt("words 0x%08x,0x%08x -> %.17g", u, lo, d));
                    }
            R.count("evaluations", n);
            R.count("transitions", n);
            R.nontrivial(vf::hash_str("dbl:extreme"));
        }
    }
    R.sample("discard:i=20,d=2 on unit states e_0..e_159 + dense states vs T^(2*4^20)");
    R.sample("reseed:seed=12345,slots=3 events 0..12 vs T^((event*3+slot)*2^67) s0");
    R.sample("flt:block=4095 words 0xfff00000..0xffffffff");
    R.sample("count:n=18446744073709551615 (all base-4 digits = 3)");
    return R.finish();
}
