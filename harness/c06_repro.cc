// C06 - event results are reproducible and independent of history and thread order.
//
// Explicit-state search over HISTORIES of one Stepper: alphabet
//   E<e>      reseed(e) and transport event e to completion                     (e in {0,1,2})
//   A<e>.<k>  reseed(e), transport event e for k Stepper calls, abandon it between two calls
//             and reset_state()                                     (e in {0,2}, k in {1,3})
//   X<e>.<n>.<where>  event e is ABORTED BY AN EXCEPTION in the middle of a step, then
//             reset_state():  where = post : a user action (StepActionOrder::user_post) throws at
//             its n-th invocation (slots are killed / carry pending secondaries at that point),
//             where = start: the same at user_start (slots are `initializing`),
//             where = int  : the n-th interaction of the event throws inside the interaction
//             kernel (some slots have interacted, others not)
//             letters: X0.2.post, X2.4.post, X2.2.start, X0.2.int
//   V         reseed(0), a Stepper call whose primaries carry the invalid event id max_events
//             (rejected with an exception), reset_state()
//   W         warm_up() (first letter only)
// All histories up to depth D are executed; every completed event in every history must give
//   (1) a per-track step history,
//   (2) a StepperResult sequence (generated, active, alive, queued of every Stepper call),
//   (3) tallies (SimpleCalo energy per detector, ActionDiagnostic and StepDiagnostic counts,
//       cleared before the event)
// that are bit-identical to the same event on a FRESH state with the same number of track slots
// and TrackOrder::none, no timing, no status checker (init_charge: a fresh state with
// init_charge - its slot assignment differs, what is decided is the independence of the history).
// After histories of length <= 1 the probes E0,E1,E2 are followed by two events whose
// UniqueEventId differs from the EventId of their primaries: E0u5 (event 0, reseed(5)) and E2u0
// (event 2, reseed(0)), each against its own fresh-state reference.
// Configuration lattice: track order {none + the 6 re-indexing orders + init_charge} x
// action_times {off,on} x StatusChecker {off,on} x slots {1,2,4,8} (4 on g1 only: the tie
// "primaries of the event == slots") x along-step {linear+msc+fluct,
// field+msc+fluct} x geometry {g1 box-in-box (one universe), g3 rotated daughter universe (two
// levels; primaries start in the daughter's sphere and cylinder and in a world-level ball)}.
// With a field every event has a 4th primary: a 0.2 MeV e- in the vacuum world perpendicular to
// B, whose FIRST step is already a looping step (stale looping counters of the slot's previous
// occupant become observable).
// The interaction outcomes are a fixed deterministic function of (event, track, step,
// particle, energy), so the only history-dependent inputs are the ones under test: the RNG
// streams and whatever state survives in the slots / counters / auxiliary data.
#include <algorithm>

#include "harness/loop_explore.hh"

using namespace celeritas;
using namespace vf;

struct AbortInteraction : std::runtime_error
{
    AbortInteraction() : std::runtime_error("verif: interaction aborts the event") {}
};

struct HashChooser : LoopChooser
{
    unsigned throw_at{0};  // throw at the throw_at-th interaction (0: never)
    unsigned calls{0};
    bool fired{false};
    int choose(int n, InteractionQuery const& q) override
    {
        if (throw_at && ++calls == throw_at)
        {
            fired = true;
            throw AbortInteraction{};
        }
        uint64_t h = hash_pod(q.event);
        h = hash_mix(h, q.track);
        h = hash_mix(h, q.step);
        h = hash_mix(h, uint64_t(q.particle));
        h = hash_mix(h, hash_pod(q.energy));
        // bias towards branching outcomes but keep it terminating: energies halve
        return int(h % uint64_t(n));
    }
};

static std::array<double, 3> unit(std::array<double, 3> v)
{
    double n = std::sqrt(v[0] * v[0] + v[1] * v[1] + v[2] * v[2]);
    return {v[0] / n, v[1] / n, v[2] / n};
}

static unsigned const looper_track = 3;  // the 4th primary

static std::vector<Primary> event_primaries(LoopProblem const& P, unsigned e, unsigned event_id)
{
    std::vector<Primary> v;
    double const s = 0.03 * e;
    if (P.cfg.geometry == 1)
    {
        // all three inside "inner" (material)
        v.push_back(P.primary(0, 20.0 + e, {0.2 + s, 0.1, 0.05}, {1, 0, 0}, event_id));
        v.push_back(P.primary(1, 8.0, {0.1, -0.2 + s, 0.3}, {0, 0.6, 0.8}, event_id));
        v.push_back(P.primary(2, 3.0 + e, {-0.2, 0.3, -0.1 - s}, {0.6, 0, -0.8}, event_id));
    }
    else
    {
        // g3 variant 1: daughter "d" rotated by 30 deg about z and translated by
        // (0.5,-0.75,0.25); global centres: d:sph (-0.2745,-0.9085,0.25) r 0.5,
        // d:cyl (1.2062,-0.5732,0.35) r 0.4 half-height 0.6; world-level "ball" (-3,3,-2.5) r 0.8
        v.push_back(P.primary(0, 20.0 + e, {-0.2745 + s, -0.9085, 0.25},
                              unit({1.4807, 0.3353, 0.1}), event_id));  // sphere -> cylinder
        v.push_back(P.primary(1, 8.0, {1.2062 + 0.05, -0.5732 + s, 0.35 + 0.1}, {0, 0.6, 0.8},
                              event_id));
        v.push_back(P.primary(2, 3.0 + e, {-2.9, 3.0, -2.5 - s}, unit({3.4, -3.75, 2.75}),
                              event_id));  // ball (level 0) -> daughter
    }
    if (has_field(P.cfg.along))
    {
        // looper: gyroradius 0.165 cm in 1 T, no motion along B, hard vacuum (no physics)
        v.push_back(P.primary(1, 0.2, {-3.0, -3.0 + s, 0.0}, {1, 0, 0}, event_id));
    }
    // events differ in their NUMBER of primaries (e%3 = 0: two more, 1: none, 2: one more), so
    // that a smaller batch follows a larger one on the same state: per-stream primary
    // buffers are high-water marks and must not replay their tail
    Real3 const p0 = v.front().position;
    std::array<double, 3> const at = {p0[0], p0[1], p0[2]};
    unsigned const extra = (e % 3 == 0) ? 2 : (e % 3 == 2) ? 1 : 0;
    if (extra >= 1)
        v.push_back(P.primary(0, 1.5, at, {0, 1, 0}, event_id));
    if (extra >= 2)
        v.push_back(P.primary(0, 2.5, at, {0, 0, -1}, event_id));
    return v;
}

// what is compared between a test event and its fresh-state reference
struct EventObs
{
    uint64_t tracks{0};  // canonical per-track hash of the step stream
    uint64_t results{0};  // StepperResult sequence
    uint64_t calo{0}, actions{0}, steps{0};  // tallies
    size_t nrec{0}, ncalls{0};
    int looper_steps{-1};  // number of steps of the looper primary (field configs)
    std::string looper_last_action;
};

// canonical per-track hash of a step stream (order of delivery within a step is irrelevant)
static uint64_t per_track_hash(std::vector<StepRec> recs, std::map<int, std::string> const& labels)
{
    std::sort(recs.begin(), recs.end(), [](StepRec const& a, StepRec const& b) {
        return std::make_tuple(a.event, a.track, a.step_count)
               < std::make_tuple(b.event, b.track, b.step_count);
    });
    uint64_t h = 1469598103934665603ull;
    for (auto const& r : recs)
    {
        h = hash_mix(h, hash_pod(r.event) ^ (hash_pod(r.track) << 1) ^ (hash_pod(r.parent) << 2));
        h = hash_mix(h, hash_pod(r.step_count));
        // action ids depend on which optional actions are registered: compare labels
        h = hash_mix(h, hash_pod(r.particle) ^ hash_str(labels.at(r.action)));
        h = hash_mix(h, hash_pod(r.step_length));
        h = hash_mix(h, hash_pod(r.edep));
        for (auto const* p : {&r.pre, &r.post})
        {
            h = hash_mix(h, hash_pod(p->time));
            h = hash_mix(h, hash_pod(p->energy));
            h = hash_mix(h, hash_pod(p->pos));
            h = hash_mix(h, hash_pod(p->dir));
            h = hash_mix(h, hash_pod(p->volume));
        }
    }
    return h;
}

struct Op
{
    char kind;  // 'E', 'A', 'W', 'X', 'V'
    unsigned event;
    unsigned steps;  // A: Stepper calls; X: n
    char const* where;  // X: "post" | "start" | "int"
    int unique{-1};  // E: UniqueEventId handed to reseed() when it differs from the event id
    std::string str() const
    {
        switch (kind)
        {
            case 'W': return "W";
            case 'V': return "V";
            case 'E': return unique < 0 ? fmt("E%u", event) : fmt("E%uu%d", event, unique);
            case 'A': return fmt("A%u.%u", event, steps);
            default: return fmt("X%u.%u.%s", event, steps, where);
        }
    }
};

struct CfgCase
{
    std::string id;
    TrackOrder order;
    bool times, checker;
    unsigned slots;
    AlongStep along;
    int geometry;
};

static void clear_tallies(LoopProblem& P)
{
    if (P.calo)
        P.calo->clear();
    if (P.action_diag)
        P.action_diag->clear();
    if (P.step_diag)
        P.step_diag->clear();
}

// run one event to completion (or for max_steps Stepper calls) on an existing stepper
// abort: nullptr, or the X operation to arm
static bool run_on(LoopProblem& P, Stepper<MemSpace::host>& st, unsigned e, unsigned max_steps,
                   EventObs* obs, std::string* err, Op const* abort = nullptr,
                   bool* abort_fired = nullptr, int unique = -1)
{
    P.recorder->steps.clear();
    HashChooser ch;
    g_loop_chooser = &ch;
    bool done = false;
    uint64_t rh = 1469598103934665603ull;
    size_t ncalls = 0;
    auto push = [&](StepperResult const& r) {
        rh = hash_mix(rh, hash_pod(r.generated));
        rh = hash_mix(rh, hash_pod(r.active));
        rh = hash_mix(rh, hash_pod(r.alive));
        rh = hash_mix(rh, hash_pod(r.queued));
        ++ncalls;
    };
    if (abort)
    {
        std::string w = abort->where;
        if (w == "int")
            ch.throw_at = abort->steps;
        else
        {
            P.throw_ctl->armed_order
                = int(w == "post" ? StepActionOrder::user_post : StepActionOrder::user_start);
            P.throw_ctl->countdown = abort->steps;
        }
    }
    unsigned long long fired0 = P.throw_ctl ? P.throw_ctl->fired : 0;
    try
    {
        clear_tallies(P);
        st.reseed(UniqueEventId{unique < 0 ? e : unsigned(unique)});
        auto prim = event_primaries(P, e, e);
        StepperResult r = st(make_span(prim));
        push(r);
        unsigned n = 1;
        while (r && n < max_steps)
        {
            r = st();
            push(r);
            ++n;
        }
        done = !r;
    }
    catch (std::exception const& ex)
    {
        *err = ex.what();
    }
    if (P.throw_ctl)
    {
        if (abort_fired)
            *abort_fired = ch.fired || P.throw_ctl->fired != fired0;
        P.throw_ctl->armed_order = -1;
        P.throw_ctl->countdown = 0;
    }
    g_loop_chooser = nullptr;
    if (obs)
    {
        auto const& recs = P.recorder->steps;
        obs->tracks = per_track_hash(recs, P.action_labels);
        obs->results = rh;
        obs->nrec = recs.size();
        obs->ncalls = ncalls;
        if (has_field(P.cfg.along))
        {
            unsigned best = 0;
            for (auto const& r : recs)
                if (r.track == looper_track && r.step_count >= best)
                {
                    best = r.step_count;
                    obs->looper_steps = int(r.step_count);
                    obs->looper_last_action = P.action_labels.at(r.action);
                }
        }
        // tallies (exact: the calorimeter accumulates per detector in slot order, the
        // diagnostics are integer counts)
        uint64_t h = 1469598103934665603ull;
        for (double x : P.calo->calc_total_energy_deposition())
            h = hash_mix(h, hash_pod(x));
        obs->calo = h;
        h = 1469598103934665603ull;
        for (auto const& kv : P.action_diag->calc_actions_map())
            if (kv.second)
                h = hash_mix(hash_mix(h, hash_str(kv.first)), uint64_t(kv.second));
        obs->actions = h;
        h = 1469598103934665603ull;
        for (auto const& row : P.step_diag->calc_steps())
        {
            h = hash_mix(h, 0x9e37u);
            for (auto c : row)
                h = hash_mix(h, uint64_t(c));
        }
        obs->steps = h;
    }
    return done;
}

int main(int argc, char** argv)
{
    vf::Run R(argc, argv, "C06", "c06_repro");
    bool const thorough = R.thorough();
    int const depth = thorough ? 3 : 2;
    std::vector<TrackOrder> orders = {TrackOrder::none,
                                      TrackOrder::reindex_shuffle,
                                      TrackOrder::reindex_status,
                                      TrackOrder::reindex_particle_type,
                                      TrackOrder::reindex_along_step_action,
                                      TrackOrder::reindex_step_limit_action,
                                      TrackOrder::reindex_both_action,
                                      TrackOrder::init_charge};
    std::vector<CfgCase> cfgs;
    for (auto o : orders)
        for (bool times : {false, true})
            for (bool chk : {false, true})
                for (unsigned s : {1u, 2u, 4u, 8u})
                    for (auto a : {AlongStep::linear_msc_fluct, AlongStep::field_msc_fluct})
                        for (int g : {1, 3})
                        {
                            // slots 4 = the tie "primaries == slots" (linear: event 2 has 4,
                            // event 1 one fewer, event 0 one more; field: event 1 has 4): g1 only
                            if (s == 4 && g != 1)
                                continue;
                            // init_charge (own reference, see below): 2 slots on g1 in quick
                            if (o == TrackOrder::init_charge && !thorough && !(g == 1 && s == 2))
                                continue;
                            if (!thorough)
                            {
                                if (times != chk)
                                    continue;  // quick: (off,off) and (on,on)
                                // quick: (field, g1, slots 1|2|4|8), (linear, g1, slots 2|4),
                                // (linear, g3, slots 2), (field, g3, slots 2)
                                bool keep = (has_field(a) && g == 1) || s == 2 || s == 4;
                                if (!keep)
                                    continue;
                            }
                            cfgs.push_back({fmt("o%d.t%d.c%d.s%u.%s.g%d", int(o), int(times),
                                                int(chk), s, along_name(a), g),
                                            o, times, chk, s, a, g});
                        }
    // alphabet
    std::vector<Op> alphabet;
    for (unsigned e : {0u, 1u, 2u})
        alphabet.push_back({'E', e, 0, ""});
    for (unsigned e : {0u, 2u})
        for (unsigned k : {1u, 3u})
            alphabet.push_back({'A', e, k, ""});
    alphabet.push_back({'W', 0, 0, ""});
    alphabet.push_back({'X', 0, 2, "post"});
    alphabet.push_back({'X', 2, 4, "post"});
    alphabet.push_back({'X', 2, 2, "start"});
    alphabet.push_back({'X', 0, 2, "int"});
    alphabet.push_back({'V', 0, 0, ""});

    uint64_t outer = 0;
    for (auto const& cc : cfgs)
    {
        if (!R.mine(outer++))
            continue;
        if (R.expired())
            break;
        if (R.replay() && R.replay_case().compare(0, cc.id.size() + 1, cc.id + "|") != 0)
            continue;
        auto make = [&](TrackOrder o, bool checker) {
            LoopConfig cfg;
            cfg.geometry = cc.geometry;
            cfg.geo_variant = 1;
            cfg.along = cc.along;
            cfg.slots = cc.slots;
            cfg.track_order = o;
            cfg.status_checker = checker;
            cfg.xs_gamma = 2.0;
            cfg.xs_electron = 3.0;
            cfg.max_events = 8;
            cfg.throwers = {StepActionOrder::user_start, StepActionOrder::user_post};
            // the real SimpleCalo over every volume, fed with the recorder's step state
            cfg.calo_volumes = {"*"};
            cfg.calo_tee = true;
            cfg.action_diagnostic = true;
            cfg.step_diagnostic = true;
            return make_loop_problem(cfg);
        };
        // reference: fresh state, TrackOrder::none, no timing, no checker.  init_charge
        // assigns the slots (hence the per-slot RNG stream of a track) differently from every
        // other order, so its reference is a fresh state with init_charge: what is decided for
        // it is the independence of the HISTORY (init.indices / init.parents survive in the
        // state and CoreState::reset() touches neither), not of the order
        TrackOrder const ref_order
            = cc.order == TrackOrder::init_charge ? TrackOrder::init_charge : TrackOrder::none;
        auto Pref = make(ref_order, false);
        // ref[3], ref[4]: UniqueEventId != EventId (Geant4 integration: every event is event 0
        // with a changing unique id): (event 0, unique 5) and (event 2, unique 0)
        static Op const crossed[2] = {{'E', 0, 0, "", 5}, {'E', 2, 0, "", 0}};
        EventObs ref[5];
        for (unsigned e = 0; e < 5; ++e)
        {
            auto st = Pref->make_stepper();
            std::string err;
            if (!run_on(*Pref, *st, e < 3 ? e : crossed[e - 3].event, 100000, &ref[e], &err, nullptr,
                        nullptr, e < 3 ? -1 : crossed[e - 3].unique))
                R.harness_error("reference event does not complete: " + err);
            R.maxi("max_steps_per_event", ref[e].nrec);
            R.maxi("max_stepper_calls_per_event", ref[e].ncalls);
            if (has_field(cc.along))
            {
                // the looper must really be a looper from its first step on (otherwise the
                // "stale looping counter" state is not exercised): it is killed by the
                // tracking cut after exactly max_subthreshold_steps looping steps
                R.tag(fmt("looper:last-action=%s:steps=%d", ref[e].looper_last_action.c_str(),
                          ref[e].looper_steps));
                if (ref[e].looper_last_action == "tracking-cut")
                    R.tag("looping-seen");
            }
        }
        // the reference itself must be reproducible
        {
            auto st = Pref->make_stepper();
            EventObs again;
            std::string err;
            run_on(*Pref, *st, 1, 100000, &again, &err);
            if (again.tracks != ref[1].tracks || again.results != ref[1].results
                || again.calo != ref[1].calo || again.actions != ref[1].actions
                || again.steps != ref[1].steps)
                R.harness_error("fresh-state reference is not deterministic");
        }
        auto P = make(cc.order, cc.checker);
        R.tag("config:" + cc.id);
        // enumerate all histories up to `depth`, each followed by each probe event
        std::vector<std::vector<int>> hists = {{}};
        for (int d = 0; d < depth; ++d)
        {
            size_t n0 = hists.size();
            for (size_t i = 0; i < n0; ++i)
                if (int(hists[i].size()) == d)
                    for (size_t a = 0; a < alphabet.size(); ++a)
                    {
                        // warm_up() is only allowed on a state without active tracks: the
                        // documented use is before any stepping
                        if (alphabet[a].kind == 'W' && d != 0)
                            continue;
                        auto h = hists[i];
                        h.push_back(int(a));
                        hists.push_back(h);
                    }
        }
        for (auto const& h : hists)
        {
            std::string hid;
            for (int a : h)
                hid += (hid.empty() ? "" : ",") + alphabet[a].str();
            std::string cid = cc.id + "|" + hid;
            if (!R.want(cid))
                continue;
            if (R.expired())
                break;
            R.begin_case(cid, 600);
            auto st = P->make_stepper(0, cc.times);
            bool ok = true;
            for (size_t i = 0; i <= h.size() && ok; ++i)
            {
                // after the history, probe every event once (i == h.size())
                std::vector<Op> ops;
                if (i < h.size())
                    ops.push_back(alphabet[h[i]]);
                else
                {
                    for (unsigned e : {0u, 1u, 2u})
                        ops.push_back({'E', e, 0, ""});
                    // crossed ids after the plain probes (event 0 under unique id 5 follows an
                    // event 0, event 2 under unique id 0 follows an event 2): histories of
                    // length <= 1 only
                    if (h.size() <= 1)
                        for (auto const& x : crossed)
                            ops.push_back(x);
                }
                for (auto const& op : ops)
                {
                    R.count("transitions");
                    std::string err;
                    if (op.kind == 'W')
                    {
                        try
                        {
                            st->warm_up();
                        }
                        catch (std::exception const& e)
                        {
                            err = e.what();
                        }
                        if (!err.empty())
                        {
                            R.violation("repro:warm-up-failed", cid, err);
                            ok = false;
                        }
                        continue;
                    }
                    if (op.kind == 'A')
                    {
                        run_on(*P, *st, op.event, op.steps, nullptr, &err);
                        try
                        {
                            st->reset_state();
                        }
                        catch (std::exception const& e)
                        {
                            err += e.what();
                        }
                        if (!err.empty())
                        {
                            R.violation("repro:abandon-reset-failed", cid, err);
                            ok = false;
                        }
                        continue;
                    }
                    if (op.kind == 'X')
                    {
                        bool fired = false;
                        bool done = run_on(*P, *st, op.event, 100000, nullptr, &err, &op, &fired);
                        // the event may end before the n-th invocation: then nothing was
                        // aborted and the reset follows a complete event (legal, harmless)
                        R.tag(fired ? fmt("abort-by-exception:%s", op.where)
                                    : "abort-point-not-reached");
                        if (!fired && (!done || !err.empty()))
                        {
                            R.violation("repro:event-does-not-complete", cid,
                                        fmt("%s: event %u (abort point not reached) after history "
                                            "[%s]: %s",
                                            cc.id.c_str(), op.event, hid.c_str(), err.c_str()));
                            ok = false;
                            break;
                        }
                        err.clear();
                        try
                        {
                            st->reset_state();
                        }
                        catch (std::exception const& e)
                        {
                            err = e.what();
                        }
                        if (!err.empty())
                        {
                            R.violation("repro:reset-after-exception-failed", cid, err);
                            ok = false;
                        }
                        continue;
                    }
                    if (op.kind == 'V')
                    {
                        bool threw = false;
                        try
                        {
                            st->reseed(UniqueEventId{0});
                            auto prim = event_primaries(*P, 0, P->cfg.max_events);
                            (*st)(make_span(prim));
                        }
                        catch (std::exception const&)
                        {
                            threw = true;
                        }
                        if (!threw)
                        {
                            // accepting the id would write past the per-event counters; not this
                            // property's business, but the history is meaningless then
                            R.tag("invalid-event-id-not-rejected");
                            ok = false;
                            break;
                        }
                        R.tag("abort-by-exception:invalid-event-id");
                        try
                        {
                            st->reset_state();
                        }
                        catch (std::exception const& e)
                        {
                            err = e.what();
                        }
                        if (!err.empty())
                        {
                            R.violation("repro:reset-after-exception-failed", cid, err);
                            ok = false;
                        }
                        continue;
                    }
                    EventObs got;
                    bool done = run_on(*P, *st, op.event, 100000, &got, &err, nullptr, nullptr,
                                       op.unique);
                    R.count("events_compared");
                    if (op.unique >= 0)
                        R.count("crossed_id_events_compared");
                    if (!done || !err.empty())
                    {
                        R.violation("repro:event-does-not-complete", cid,
                                    fmt("%s: event %u after history [%s]: %s", cc.id.c_str(), op.event,
                                        hid.c_str(), err.c_str()));
                        ok = false;
                        break;
                    }
                    EventObs const& want
                        = ref[op.unique < 0 ? op.event : (op.event == crossed[0].event ? 3 : 4)];
                    bool const first = h.empty() && i == h.size() && op.event == 0;
                    auto report = [&](char const* what_sig, char const* what_txt) {
                        std::string sig = first ? fmt("repro:first-%s-differs-from-reference-"
                                                      "configuration",
                                                      what_sig)
                                                : fmt("repro:%s-differs-from-fresh-state", what_sig);
                        R.violation(fmt("%s[order=%d]", sig.c_str(), int(cc.order)), cid,
                                    fmt("%s: event %s transported after history [%s] (position %zu) "
                                        "has a different %s than on a fresh state with "
                                        "TrackOrder::%s (%zu steps recorded in %zu Stepper calls; "
                                        "reference %zu in %zu)",
                                        cc.id.c_str(), op.str().c_str(), hid.c_str(), i, what_txt,
                                        ref_order == TrackOrder::none ? "none" : "init_charge",
                                        got.nrec, got.ncalls, want.nrec, want.ncalls));
                        ok = false;
                    };
                    if (got.tracks != want.tracks)
                    {
                        report("event", "per-track step history");
                        break;
                    }
                    if (got.results != want.results)
                    {
                        report("stepper-result-sequence",
                               "StepperResult sequence (generated, active, alive, queued)");
                        break;
                    }
                    if (got.calo != want.calo)
                    {
                        report("calorimeter-tally", "SimpleCalo energy deposition");
                        break;
                    }
                    if (got.actions != want.actions)
                    {
                        report("action-diagnostic-tally", "ActionDiagnostic count table");
                        break;
                    }
                    if (got.steps != want.steps)
                    {
                        report("step-diagnostic-tally", "StepDiagnostic count table");
                        break;
                    }
                }
            }
            R.count("evaluations");
            R.state(hash_str(cid));
            if (!h.empty())
                R.nontrivial(hash_str(cid));
            R.end_case();
        }
    }
    R.sample("o3.t1.c1.s2.fieldmscfluct.g1|X2.4.post,E1 = reindex_particle_type + action timing + "
             "status checker, 2 slots, field, box-in-box: event 2 is aborted by a user action "
             "throwing at its 4th user_post invocation, reset_state(), run event 1, then probe "
             "events 0,1,2: each must equal its fresh-state step history, StepperResult sequence "
             "and tallies");
    return R.finish();
}
