// C06 - event results are reproducible and independent of history and thread order.
//
// Explicit-state search over HISTORIES of one Stepper: alphabet
//   E<e>   reseed(e) and transport event e to completion            (e in {0,1,2})
//   A<e><k> reseed(e), transport event e for k steps, abandon it and reset_state() (k in {1,3})
//   W      warm_up()
// All histories up to depth D are executed; every completed event in every history must give
// a per-track step history that is bit-identical to the same event on a FRESH state with the
// same number of track slots and TrackOrder::none.  Configuration lattice: re-indexing track
// order {none + the 6 re-indexing orders} x action_times {off,on} x StatusChecker {off,on} x
// slots {2,8} x along-step {linear+fluct, field+fluct}.
// The interaction outcomes are a fixed deterministic function of (event, track, step,
// particle, energy), so the only history-dependent inputs are the ones under test: the RNG
// streams and whatever state survives in the slots.
#include <algorithm>

#include "harness/loop_explore.hh"

using namespace celeritas;
using namespace vf;

struct HashChooser : LoopChooser
{
    int choose(int n, InteractionQuery const& q) override
    {
        uint64_t h = hash_pod(q.event);
        h = hash_mix(h, q.track);
        h = hash_mix(h, q.step);
        h = hash_mix(h, uint64_t(q.particle));
        h = hash_mix(h, hash_pod(q.energy));
        // bias towards branching outcomes but keep it terminating: energies halve
        return int(h % uint64_t(n));
    }
};

static std::vector<Primary> event_primaries(LoopProblem const& P, unsigned e)
{
    std::vector<Primary> v;
    double const s = 0.03 * e;
    v.push_back(P.primary(0, 20.0 + e, {0.2 + s, 0.1, 0.05}, {1, 0, 0}, e));
    v.push_back(P.primary(1, 8.0, {0.1, -0.2 + s, 0.3}, {0, 0.6, 0.8}, e));
    v.push_back(P.primary(2, 3.0 + e, {-0.2, 0.3, -0.1 - s}, {0.6, 0, -0.8}, e));
    return v;
}

// canonical per-track hash of a step stream (order of delivery within a step is irrelevant)
static uint64_t per_track_hash(std::vector<StepRec> recs, std::map<int, std::string> const& labels)
{
    std::sort(recs.begin(), recs.end(), [](StepRec const& a, StepRec const& b) {
        return std::make_tuple(a.event, a.track, a.step_count)
               < std::make_tuple(b.event, b.track, b.step_count);
    });
    uint64_t h = 1469598103934665603ull;
    for (auto const& r : recs)
    {
        h = hash_mix(h, hash_pod(r.event) ^ (hash_pod(r.track) << 1) ^ (hash_pod(r.parent) << 2));
        h = hash_mix(h, hash_pod(r.step_count));
        // action ids depend on which optional actions are registered: compare labels
        h = hash_mix(h, hash_pod(r.particle) ^ hash_str(labels.at(r.action)));
        h = hash_mix(h, hash_pod(r.step_length));
        h = hash_mix(h, hash_pod(r.edep));
        for (auto const* p : {&r.pre, &r.post})
        {
            h = hash_mix(h, hash_pod(p->time));
            h = hash_mix(h, hash_pod(p->energy));
            h = hash_mix(h, hash_pod(p->pos));
            h = hash_mix(h, hash_pod(p->dir));
            h = hash_mix(h, hash_pod(p->volume));
        }
    }
    return h;
}

struct Op
{
    char kind;  // 'E', 'A', 'W'
    unsigned event;
    unsigned steps;
    std::string str() const
    {
        return kind == 'W' ? "W" : kind == 'E' ? fmt("E%u", event) : fmt("A%u.%u", event, steps);
    }
};

struct CfgCase
{
    std::string id;
    TrackOrder order;
    bool times, checker;
    unsigned slots;
    AlongStep along;
};

// run one event to completion (or for max_steps) on an existing stepper
static bool run_on(LoopProblem& P, Stepper<MemSpace::host>& st, unsigned e, unsigned max_steps,
                   uint64_t* hash, std::string* err)
{
    P.recorder->steps.clear();
    HashChooser ch;
    g_loop_chooser = &ch;
    bool done = false;
    try
    {
        st.reseed(UniqueEventId{e});
        auto prim = event_primaries(P, e);
        StepperResult r = st(make_span(prim));
        unsigned n = 1;
        while (r && n < max_steps)
        {
            r = st();
            ++n;
        }
        done = !r;
    }
    catch (std::exception const& ex)
    {
        *err = ex.what();
    }
    g_loop_chooser = nullptr;
    if (hash)
        *hash = per_track_hash(P.recorder->steps, P.action_labels);
    return done;
}

int main(int argc, char** argv)
{
    vf::Run R(argc, argv, "C06", "c06_repro");
    bool const thorough = R.thorough();
    int const depth = thorough ? 3 : 2;
    std::vector<TrackOrder> orders = {TrackOrder::none,
                                      TrackOrder::reindex_shuffle,
                                      TrackOrder::reindex_status,
                                      TrackOrder::reindex_particle_type,
                                      TrackOrder::reindex_along_step_action,
                                      TrackOrder::reindex_step_limit_action,
                                      TrackOrder::reindex_both_action};
    std::vector<CfgCase> cfgs;
    for (auto o : orders)
        for (bool times : {false, true})
            for (bool chk : {false, true})
                for (unsigned s : {2u, 8u})
                    for (auto a : {AlongStep::linear_msc_fluct, AlongStep::field_msc_fluct})
                    {
                        if (!thorough && (times != chk))
                            continue;  // quick: (off,off) and (on,on)
                        if (!thorough && a == AlongStep::linear_msc_fluct && s == 8)
                            continue;
                        cfgs.push_back({fmt("o%d.t%d.c%d.s%u.%s", int(o), int(times), int(chk), s,
                                            along_name(a)),
                                        o, times, chk, s, a});
                    }
    // alphabet
    std::vector<Op> alphabet;
    for (unsigned e : {0u, 1u, 2u})
        alphabet.push_back({'E', e, 0});
    for (unsigned e : {0u, 2u})
        for (unsigned k : {1u, 3u})
            alphabet.push_back({'A', e, k});
    alphabet.push_back({'W', 0, 0});

    uint64_t outer = 0;
    for (auto const& cc : cfgs)
    {
        if (!R.mine(outer++))
            continue;
        if (R.expired())
            break;
        if (R.replay() && R.replay_case().compare(0, cc.id.size() + 1, cc.id + "|") != 0)
            continue;
        auto make = [&](TrackOrder o, bool checker) {
            LoopConfig cfg;
            cfg.geometry = 1;
            cfg.along = cc.along;
            cfg.slots = cc.slots;
            cfg.track_order = o;
            cfg.status_checker = checker;
            cfg.xs_gamma = 2.0;
            cfg.xs_electron = 3.0;
            cfg.max_events = 8;
            return make_loop_problem(cfg);
        };
        // reference: fresh state, TrackOrder::none, no timing, no checker
        auto Pref = make(TrackOrder::none, false);
        uint64_t ref[3];
        for (unsigned e = 0; e < 3; ++e)
        {
            auto st = Pref->make_stepper();
            std::string err;
            if (!run_on(*Pref, *st, e, 100000, &ref[e], &err))
                R.harness_error("reference event does not complete: " + err);
            R.maxi("max_steps_per_event", Pref->recorder->steps.size());
        }
        // the reference itself must be reproducible
        {
            auto st = Pref->make_stepper();
            uint64_t again;
            std::string err;
            run_on(*Pref, *st, 1, 100000, &again, &err);
            if (again != ref[1])
                R.harness_error("fresh-state reference is not deterministic");
        }
        auto P = make(cc.order, cc.checker);
        R.tag("config:" + cc.id);
        // enumerate all histories up to `depth`, each followed by each probe event
        std::vector<std::vector<int>> hists = {{}};
        for (int d = 0; d < depth; ++d)
        {
            size_t n0 = hists.size();
            for (size_t i = 0; i < n0; ++i)
                if (int(hists[i].size()) == d)
                    for (size_t a = 0; a < alphabet.size(); ++a)
                    {
                        // warm_up() is only allowed on a state without active tracks: the
                        // documented use is before any stepping
                        if (alphabet[a].kind == 'W' && d != 0)
                            continue;
                        auto h = hists[i];
                        h.push_back(int(a));
                        hists.push_back(h);
                    }
        }
        for (auto const& h : hists)
        {
            std::string hid;
            for (int a : h)
                hid += (hid.empty() ? "" : ",") + alphabet[a].str();
            std::string cid = cc.id + "|" + hid;
            if (!R.want(cid))
                continue;
            if (R.expired())
                break;
            R.begin_case(cid, 600);
            auto st = P->make_stepper(0, cc.times);
            bool ok = true;
            for (size_t i = 0; i <= h.size() && ok; ++i)
            {
                // after the history, probe every event once (i == h.size())
                std::vector<Op> ops;
                if (i < h.size())
                    ops.push_back(alphabet[h[i]]);
                else
                    for (unsigned e : {0u, 1u, 2u})
                        ops.push_back({'E', e, 0});
                for (auto const& op : ops)
                {
                    R.count("transitions");
                    std::string err;
                    if (op.kind == 'W')
                    {
                        try
                        {
                            st->warm_up();
                        }
                        catch (std::exception const& e)
                        {
                            err = e.what();
                        }
                        if (!err.empty())
                        {
                            R.violation("repro:warm-up-failed", cid, err);
                            ok = false;
                        }
                        continue;
                    }
                    if (op.kind == 'A')
                    {
                        run_on(*P, *st, op.event, op.steps, nullptr, &err);
                        try
                        {
                            st->reset_state();
                        }
                        catch (std::exception const& e)
                        {
                            err += e.what();
                        }
                        if (!err.empty())
                        {
                            R.violation("repro:abandon-reset-failed", cid, err);
                            ok = false;
                        }
                        continue;
                    }
                    uint64_t hh = 0;
                    bool done = run_on(*P, *st, op.event, 100000, &hh, &err);
                    R.count("events_compared");
                    if (!done || !err.empty())
                    {
                        R.violation("repro:event-does-not-complete", cid,
                                    fmt("%s: event %u after history [%s]: %s", cc.id.c_str(), op.event,
                                        hid.c_str(), err.c_str()));
                        ok = false;
                        break;
                    }
                    if (hh != ref[op.event])
                    {
                        std::string sig = "repro:event-differs-from-fresh-state";
                        if (h.empty() && i == h.size() && op.event == 0)
                            sig = "repro:first-event-differs-from-reference-configuration";
                        R.violation(fmt("%s[order=%d]", sig.c_str(), int(cc.order)), cid,
                                    fmt("%s: event %u transported after history [%s] (position %zu) "
                                        "has a different per-track step history than on a fresh "
                                        "state with TrackOrder::none (%zu steps recorded)",
                                        cc.id.c_str(), op.event, hid.c_str(), i,
                                        P->recorder->steps.size()));
                        ok = false;
                        break;
                    }
                }
            }
            R.count("evaluations");
            R.state(hash_str(cid));
            if (!h.empty())
                R.nontrivial(hash_str(cid));
            R.end_case();
        }
    }
    R.sample("o3.t1.c1.s2.fieldfluct|A2.3,E1 = reindex_particle_type + action timing + status "
             "checker, 2 slots: abandon event 2 after 3 steps, reset, run event 1, then probe events "
             "0,1,2: each must equal its fresh-state history");
    return R.finish();
}
