// Minimal stand-alone reproductions of what harness/c04_muhad.cc reports on the unchanged tree.
// Not part of any registered check.  Build and run:
//
//   g++ -std=c++17 -O2 -DCELERITAS_VERIF=1 -I/verif -I/repo/src \
//       -I/verif/build/rel/celeritas/include -isystem /root/miniconda/include \
//       /verif/harness/c04_muhad_repro.cc -o /tmp/c04_muhad_repro \
//       -L/verif/build/rel/celeritas/lib -Wl,-rpath,/verif/build/rel/celeritas/lib \
//       -lceleritas -lorange -lgeocel -lcorecel && /tmp/c04_muhad_repro
//
// F1  ChipsNeutronElasticInteractor returns NaN energy / deposit / direction when the sampled
//     momentum transfer reaches Q^2_max (backward scattering): cos(theta) = 1 - Q^2/(2 k^2) is
//     not clamped (CELER_ASSERT only) and rounds to -1-4.4e-16, from_spherical() then takes
//     sqrt(1 - cos^2) = NaN.  Q^2 is clamped to Q^2_max whenever the quadratic-slope inversion
//     (sqrt(b (b + 2 tss q)) - b)/tss, which loses ~8 digits to cancellation, lands above it:
//     for n + 4He at 0.098-0.1 MeV (just above the S-wave limit) the 6-7 upper words closest
//     to 0xffffffff do it (1 - u <~ 1.6e-9): about one in 1e9 such interactions, a positive-
//     measure event that a production run (>1e9 draws/s) meets.
//     Proposed fix: cos_theta = clamp(cos_theta, real_type{-1}, real_type{1}) in
//     ChipsNeutronElasticInteractor::operator().
// F2  BraggICRU73QOEnergyDistribution uses T_min = min(cut, lowest*M/m_p): delta rays are
//     emitted *below* the electron production cut whenever cut > lowest*M/m_p (mu-: 0.563 keV,
//     mu+: 28 eV).  Geant4's G4BraggModel/G4ICRU73QOModel use max(lowest*massRate, min(cut,
//     tmax)); with "min" the unit test's own configuration (1 keV cut, 0.1 MeV mu-) samples
//     electrons in [0.563, 1] keV.  Proposed fix: max(electron_cutoff, lowest*M/m_p).
// O1  (observation, measure-zero input) IoniFinalStateHelper: cos(theta_e) is not clamped; for
//     T = T_max to rounding (incident energy within ~1e-15 of T_max(E) = cut) the direction of
//     both products is NaN.  Proposed fix: costheta = min(costheta, real_type{1}).
#include <cmath>
#include <cstdio>

#include "engine/scripted_rng.hh"
#include "problems/interactor_env.hh"

#include "celeritas/em/data/MuHadIonizationData.hh"
#include "celeritas/em/distribution/BetheBlochEnergyDistribution.hh"
#include "celeritas/em/distribution/BraggICRU73QOEnergyDistribution.hh"
#include "celeritas/em/interactor/MuHadIonizationInteractor.hh"
#include "celeritas/io/NeutronXsReader.hh"
#include "celeritas/neutron/interactor/ChipsNeutronElasticInteractor.hh"
#include "celeritas/neutron/model/ChipsNeutronElasticModel.hh"

using namespace celeritas;
using units::MevEnergy;
using units::MevMass;

int main()
{
    vf::InteractorEnv env;
    char const* repo = std::getenv("VERIF_REPO");
    std::string data = std::string(repo ? repo : "/repo") + "/test/celeritas/data";

    //// F1 ////
    {
        MaterialParams::Input m;
        MaterialParams::IsotopeInput i;
        i.atomic_number = AtomicNumber{2};
        i.atomic_mass_number = AtomicNumber{4};
        i.binding_energy = MevEnergy{28.296};
        i.proton_loss_energy = MevEnergy{19.8};
        i.neutron_loss_energy = MevEnergy{20.6};
        i.nuclear_mass = MevMass{3727.379};
        i.label = Label{"4He"};
        m.isotopes = {i};
        m.elements = {{AtomicNumber{2}, units::AmuMass{4.0026}, {{IsotopeId{0}, 1.0}}, Label{"He"}}};
        MaterialParams::MaterialInput mi;
        mi.number_density = 1e22;
        mi.temperature = 293;
        mi.matter_state = MatterState::gas;
        mi.elements_fractions = {{ElementId{0}, 1.0}};
        mi.label = Label{"He"};
        m.materials = {mi};
        env.set_material_params(m);
        NeutronXsReader reader(NeutronXsType::el, data.c_str());
        ChipsNeutronElasticModel model(ActionId{0}, *env.particle_params(), *env.material_params(),
                                       reader);
        auto target = env.material_view()
                          .make_element_view(ElementComponentId{0})
                          .make_isotope_view(IsotopeComponentId{0});
        env.set_inc_direction({0, 0, 1});
        std::printf("F1: n + 4He, canonical #1 tiny (selects the first diffraction term), canonical "
                    "#2 = 1 - k*2^-33:\n");
        int nan = 0, total = 0;
        for (double E : {0.098, 0.1, 0.12, 0.15, 0.2, 0.3, 0.5, 1.0})
        {
            env.set_inc_particle(pdg::neutron(), MevEnergy{E});
            ChipsNeutronElasticInteractor interact(model.host_ref(), env.particle_track(),
                                                   env.direction(), target);
            int here = 0;
            for (uint32_t k = 0; k < 256; ++k)
            {
                // upper word ffffffff-k, lower word in the middle of the cell
                vf::ScriptedEngine rng({1u, 0xffffffffu - k, 0x80000000u}, 0, 0x00100000u);
                Interaction r = interact(rng);
                ++total;
                if (!std::isfinite(r.energy.value()) || !std::isfinite(r.direction[2]))
                {
                    if (!here)
                        std::printf("  E=%-5g MeV  upper word %08x: E_out=%g dep=%g dir=(%g,%g,%g)\n", E,
                                    0xffffffffu - k, r.energy.value(), r.energy_deposition.value(),
                                    r.direction[0], r.direction[1], r.direction[2]);
                    ++here;
                    ++nan;
                }
            }
            std::printf("  E=%-5g MeV: %d of 256 words closest to 0xffffffff give a NaN final state\n",
                        E, here);
        }
        std::printf("F1: %d NaN final states in %d interactions\n\n", nan, total);
    }

    //// F2 + O1 ////
    {
        vf::InteractorEnv env2;
        MuHadIonizationData data;
        data.electron = env2.pid(pdg::electron());
        data.electron_mass = env2.particle_params()->get(data.electron).mass();
        env2.set_material("Cu");
        env2.set_inc_direction({0, 0, 1});
        env2.resize_secondaries(8);

        // the configuration of BraggICRU73QO.test.cc "basic": 1 keV cut, 0.1 MeV mu-
        env2.set_cutoffs({{pdg::electron(), MevEnergy{1e-3}}});
        env2.set_inc_particle(pdg::mu_minus(), MevEnergy{0.1});
        MuHadIonizationInteractor<BraggICRU73QOEnergyDistribution> icru(
            data, env2.particle_track(), env2.cutoff_view(), env2.direction(),
            env2.secondary_allocator());
        int below = 0;
        double tmin = 1;
        for (uint32_t w : {0xfffffffeu, 0xc0000000u, 0x80000000u, 0x40000000u, 0x00000001u})
        {
            env2.set_free_slots(8);
            vf::ScriptedEngine rng({w, 0x00000001u, 0x80000000u}, 0, 0x00100000u);
            Interaction r = icru(rng);
            double T = r.secondaries.front().energy.value();
            tmin = std::min(tmin, T);
            below += (T < 1e-3);
            std::printf("F2: ICRU73QO mu- 0.1 MeV, cut 1 keV, first word %08x: delta-ray T = %.6g MeV%s\n",
                        w, T, T < 1e-3 ? "  < cut" : "");
        }
        std::printf("F2: %d of 5 secondaries below the production cut (smallest %.6g MeV)\n\n", below,
                    tmin);

        // O1: Bethe-Bloch mu-, cut 10 MeV, E such that T_max(E) = cut to rounding
        env2.set_cutoffs({{pdg::electron(), MevEnergy{10.0}}});
        env2.set_inc_particle(pdg::mu_minus(), MevEnergy{0x1.ecbae689a6ce7p+7});
        MuHadIonizationInteractor<BetheBlochEnergyDistribution> bb(
            data, env2.particle_track(), env2.cutoff_view(), env2.direction(),
            env2.secondary_allocator());
        env2.set_free_slots(8);
        vf::ScriptedEngine rng({1u, 1u, 1u, 1u}, 0, 0x00100000u);
        Interaction r = bb(rng);
        std::printf("O1: Bethe-Bloch mu- E=%.17g cut=10: action=%d T=%.17g primary dir=(%g,%g,%g)\n",
                    0x1.ecbae689a6ce7p+7, int(r.action),
                    r.secondaries.empty() ? -1.0 : r.secondaries.front().energy.value(),
                    r.direction[0], r.direction[1], r.direction[2]);
    }
    return 0;
}
