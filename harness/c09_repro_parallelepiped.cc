// Standalone minimal reproduction for the C09 finding "Parallelepiped does not describe the
// documented solid" (not a registered check; build by hand):
//
//   B=/verif/build/rel/celeritas
//   g++ -std=c++17 -w -O1 -I/repo/src -I$B/include -isystem /root/miniconda/include \
//       harness/c09_repro_parallelepiped.cc -o /tmp/c09_repro -L$B/lib -Wl,-rpath,$B/lib \
//       -lorange -lgeocel -lcorecel
//   CELER_LOG=error CELER_LOG_LOCAL=critical /tmp/c09_repro
//
// src/orange/orangeinp/IntersectRegion.cc, Parallelepiped::build:
//   (a) the y faces are placed at  +-dY*cos(alpha)  instead of +-dY  (the class comment and
//       G4Para, from which g4org::SolidConverter::para passes GetYHalfLength() unchanged, define
//       dY as the half-length of the *projection* on y): the edge vector is built as
//       dY*(sin a, cos a, 0) instead of dY*(tan a, 1, 0);
//   (b) the exterior bounding box is  a + b + c  with  c = dZ*(sin th cos ph, sin th sin ph,
//       cos th): its z half-extent is dZ*cos(theta) although the z faces are at +-dZ, and its x/y
//       extents use sin instead of tan and signed instead of absolute components.  Points that
//       satisfy all six planes of the volume but lie outside that box are not found by the BIH
//       (reported as background, or initialisation fails when there is no background).
#include <iostream>

#include "corecel/data/CollectionStateStore.hh"
#include "orange/OrangeData.hh"
#include "orange/OrangeInput.hh"
#include "orange/OrangeParams.hh"
#include "orange/OrangeTrackView.hh"
#include "orange/orangeinp/InputBuilder.hh"
#include "orange/orangeinp/Shape.hh"
#include "orange/orangeinp/UnitProto.hh"

using namespace celeritas;
using namespace celeritas::orangeinp;

std::string where(OrangeParams const& p, Real3 pos)
{
    CollectionStateStore<OrangeStateData, MemSpace::host> st(p.host_ref(), 1);
    OrangeTrackView geo(p.host_ref(), st.ref(), TrackSlotId{0});
    geo = GeoTrackInitializer{pos, Real3{0, 0, 1}};
    if (geo.failed())
        return "<failed>";
    if (geo.is_outside())
        return "<outside>";
    return p.volumes().at(geo.volume_id()).name;
}

void run(char const* what, Parallelepiped para, std::vector<std::pair<Real3, char const*>> pts)
{
    UnitProto::Input inp;
    inp.label = "world";
    inp.boundary.interior = std::make_shared<BoxShape>("wbox", Box{Real3{3, 3, 3}});
    inp.boundary.zorder = ZOrder::exterior;
    inp.background.fill = GeoMaterialId{0};
    inp.background.label = Label{"background"};
    UnitProto::MaterialInput m;
    m.interior = std::make_shared<ParallelepipedShape>("para", std::move(para));
    m.fill = GeoMaterialId{1};
    m.label = Label{"para"};
    inp.materials.push_back(m);
    UnitProto world{std::move(inp)};
    InputBuilder::Options o;
    o.tol = Tolerance<>::from_default();
    OrangeInput oi = InputBuilder{std::move(o)}(world);
    auto const& u = std::get<UnitInput>(oi.universes[0]);
    std::cout << "== " << what << "\n";
    for (auto const& v : u.volumes)
        if (v.label.name == "para")
            std::cout << "   volume bbox {" << v.bbox.lower()[0] << "," << v.bbox.lower()[1] << ","
                      << v.bbox.lower()[2] << "}..{" << v.bbox.upper()[0] << "," << v.bbox.upper()[1]
                      << "," << v.bbox.upper()[2] << "}\n";
    OrangeParams params(std::move(oi));
    for (auto const& p : pts)
        std::cout << "   point (" << p.first[0] << "," << p.first[1] << "," << p.first[2] << ") -> "
                  << where(params, p.first) << "   [documented solid: " << p.second << "]\n";
}

int main()
{
    run("(a) halfedges (1, 0.8, 1.2), alpha = 0.05 turn: y faces must be at y = +-0.8",
        Parallelepiped{Real3{1, 0.8, 1.2}, Turn{0.05}, Turn{0}, Turn{0}},
        {{{0, 0.75, 0}, "para"}, {{0, 0.78, 0}, "para"}, {{0, 0.82, 0}, "background"}});
    run("(b) halfedges (0.9, 1.1, 1.0), theta = 0.06, phi = 0.2: z faces at z = +-1.0",
        Parallelepiped{Real3{0.9, 1.1, 1.0}, Turn{0}, Turn{0.06}, Turn{0.2}},
        {{{0.1, 0.35, 0.90}, "para"},
         {{0.1, 0.35, 0.95}, "para"},
         {{0.1, 0.35, 0.99}, "para"},
         {{0.1, 0.35, 1.01}, "background"}});
    return 0;
}
