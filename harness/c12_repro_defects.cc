// C12 - minimal standalone reproductions of the three defects the check found on the original
// tree.  Uses only the real library; no oracle.  Not part of config/C12.py.
//   (1) repaired by /repo commit ab1a0ba ("fix: translating a SimpleQuadric doubled ...")
//   (2), (3) recorded in known_findings.json (involute:translated-surface-has-different-point-set,
//            involute:missed-nearer-crossing)
//
//   B=/verif/build/rel/celeritas
//   g++ -std=c++17 -O1 -I/repo/src -I$B/include -isystem /root/miniconda/include \
//       /verif/harness/c12_repro_defects.cc -o /tmp/c12_repro -L$B/lib -Wl,-rpath,$B/lib \
//       -lorange -lgeocel -lcorecel && /tmp/c12_repro
//
// exit status = number of defects still present.
#include <cmath>
#include <cstdio>

#include "orange/surf/Involute.hh"
#include "orange/surf/SimpleQuadric.hh"
#include "orange/surf/detail/SurfaceTranslator.hh"
#include "orange/transform/Translation.hh"

using namespace celeritas;

int main()
{
    int present = 0;

    // (1) SurfaceTranslator::operator()(SimpleQuadric const&): constant term
    //     zeroth += second[i]*t_i^2 - 2*first[i]*t_i     should be    ... - first[i]*t_i
    {
        // x^2 + y^2 + z^2 - 2x = 0 : unit sphere centred (1,0,0)
        SimpleQuadric sq{{1, 1, 1}, {-2, 0, 0}, 0};
        auto moved = detail::SurfaceTranslator{Translation{{1, 0, 0}}}(sq);
        auto d = moved.data();
        // expected x^2+y^2+z^2 - 4x + 3 = 0 (centre (2,0,0)); observed constant 5: no real points
        std::printf("(1) translated SimpleQuadric: first=(%g,%g,%g) zeroth=%g   expected (-4,0,0) 3\n", d[3], d[4],
                    d[5], d[6]);
        int s_old = int(sq.calc_sense({1, 0, 0}));
        int s_new = int(moved.calc_sense({2, 0, 0}));
        std::printf("    sense at the centre: original %d, translated %d (expected equal)\n", s_old, s_new);
        present += (s_old != s_new);
    }

    // (2) SurfaceTranslator::operator()(Involute const&): passes displacement_angle() (which is
    //     already pi - a for clockwise involutes) to the constructor, which converts it again
    {
        Involute inv{{0, 0}, 0.5, 0.0, Chirality::right, 0.5, 4.0};
        auto moved = detail::SurfaceTranslator{Translation{{1, -2, 0.5}}}(inv);
        std::printf("(2) clockwise involute: stored displacement angle %.17g -> %.17g after translation "
                    "(expected unchanged)\n",
                    inv.displacement_angle(), moved.displacement_angle());
        int s_old = int(inv.calc_sense({-1.25, -1.25, 0}));
        int s_new = int(moved.calc_sense({-0.25, -3.25, 0.5}));
        std::printf("    sense at x=(-1.25,-1.25): %d ; translated surface at x+t: %d (expected equal)\n", s_old,
                    s_new);
        present += (s_old != s_new);
    }

    // (3) InvoluteSolver: bracket points beta - a + k pi all give the same sign of the root function
    //     when the line misses the base circle; the roots in between are never looked for
    {
        Involute inv{{0, 0}, 0.5, 0.0, Chirality::left, 0.0, 1.5};
        Real3 pos{-0.75, 1.5, 0};
        double s = std::sqrt(0.5);
        Real3 dir{s, -s, 0};
        auto d = inv.calc_intersections(pos, dir, SurfaceState::off);
        Real3 before{pos[0] + 1.9 * dir[0], pos[1] + 1.9 * dir[1], 0};
        Real3 after{pos[0] + 2.1 * dir[0], pos[1] + 2.1 * dir[1], 0};
        int sb = int(inv.calc_sense(before)), sa = int(inv.calc_sense(after));
        std::printf("(3) involute r_b=0.5 a=0 t in [0,1.5], ray (-0.75,1.5)+s(1,-1)/sqrt2: distances = %g %g %g\n",
                    d[0], d[1], d[2]);
        std::printf("    calc_sense at s=1.9: %d, at s=2.1: %d  (the ray crosses P(t=0.86) at s=1.983)\n", sb, sa);
        bool none = !(d[0] < 3 || d[1] < 3 || d[2] < 3);
        present += (sb != sa && none);
    }
    std::printf("%d defect(s) present\n", present);
    return present;
}
