// C02 - every primary and secondary is transported exactly once.
//
// Explicit-state breadth-first search (engine E2) over the REAL track bookkeeping: the state
// is a real Stepper<host> (box-in-box geometry, scripted physics in "bookkeeping mode" with a
// huge cross section so that every active track interacts in every step).  One transition =
// one Stepper call with (a) p in {0,1,2} new primaries (two primaries of one call belong to
// the two DIFFERENT events 0 and 1 = max_events-1, injection letters i1/i2, or both to the SAME
// event, injection letter i3; the first event alternates from call to call) and (b) a
// complete list of interaction outcomes, one per active track, from the
// 11-letter alphabet of problems/loop_zoo.hh bk_outcomes_ext():
//   {die|survive} x {0,1,2 secondaries (gamma / e-)} x {sub-cut secondary}  (letters 0-9) and
//   "unchanged" (letter a: Interaction::from_unchanged(), the track's secondaries span of the
//   previous step is NOT rewritten by the interactor).
// States are operation histories replayed on a fresh Stepper; canon(state) = every datum the
// slot/initializer index arithmetic reads (per-slot status + charge class, the queue of
// pending initializers as charge classes, counters).  Track/event ids are abstracted away.
// The abstraction is tested while searching: the first two histories that reach the same
// canon are both expanded, and for every injection count p the SET of successor canons over
// all outcome vectors must be identical (sets, because the query order of the outcome vector
// is the thread order, which the re-indexing track orders permute).
//
// The search runs in ONE process: every child of every expanded node is evaluated (worker
// threads, one private problem per thread), the frontier is built sequentially in enumeration
// order, so the result does not depend on the thread schedule.
//
// Oracle = reference ledger (std::map) built only from the public step stream
// (StepInterface records), the StepperResult of every call and the outcomes the explorer
// chose; see Ledger below for the invariants.  In addition:
//   * species and start point of every child are compared with what its parent emitted
//     (per-parent multiset of (kind, position of the emitting step));
//   * a capacity error (celeritas::RuntimeError out of a Stepper call) is legitimate only if
//     the ledger says that the pending initializers really exceed the capacity Q:
//       need = queued_prev + injected                                  (thrown by insert)
//       need = queued_prev + injected - tracks started in this call
//              + surviving secondaries of this call
//              - [order != init_charge] dying parents with >= 1 surviving secondary (their
//                first secondary is initialised in place)                (thrown at `end`)
//     need <= Q  => "tracks:spurious-capacity-error" (exact fit must work); need > Q: the
//     history is cut (that regime is C16's).
#include <algorithm>
#include <atomic>
#include <csignal>
#include <cstring>
#include <map>
#include <set>
#include <sstream>
#include <string>
#include <thread>
#include <unordered_map>
#include <vector>

#include "engine/harness.hh"
#include "problems/loop_zoo.hh"
#if defined(__SANITIZE_ADDRESS__)
#    include <sanitizer/asan_interface.h>
#    include <sanitizer/common_interface_defs.h>
#endif

using namespace celeritas;
using vf::fmt;
using vf::LoopProblem;

static constexpr int NLET = vf::bk_num_outcomes_ext;
static vf::BkOutcome const& letter(int c)
{
    return vf::bk_outcomes_ext()[c];
}

//---------------------------------------------------------------------------//
struct StepOp
{
    // injection letter: 0/1/2 = that many primaries (two: DIFFERENT events), 3 = two primaries
    // of the SAME event (the per-event track counter is bumped twice by one span)
    int inject{0};
    std::vector<int> choices;  // outcome per interaction query, in query order
};
using History = std::vector<StepOp>;
//! Number of primaries of an injection letter
static int ninj(int inject)
{
    return inject == 3 ? 2 : inject;
}

static char letter_char(int c)
{
    return c < 10 ? char('0' + c) : char('a' + (c - 10));
}
static int letter_index(char ch)
{
    return ch >= 'a' ? 10 + (ch - 'a') : ch - '0';
}
static std::string to_string(History const& h)
{
    std::string s;
    for (auto const& op : h)
    {
        s += fmt("i%d:", op.inject);
        for (int c : op.choices)
            s += letter_char(c);
        s += "/";
    }
    return s;
}
static History parse_history(std::string const& s)
{
    History h;
    size_t i = 0;
    while (i < s.size())
    {
        StepOp op;
        if (s[i] != 'i')
            break;
        op.inject = s[i + 1] - '0';
        i += 3;
        while (i < s.size() && s[i] != '/')
            op.choices.push_back(letter_index(s[i++]));
        ++i;
        h.push_back(op);
    }
    return h;
}

struct Query
{
    unsigned event, track, step, slot;
    int kind;
    int chosen;
};

struct ScriptChooser : vf::LoopChooser
{
    std::vector<int> const* script{nullptr};
    std::vector<Query> log;
    int choose(int n, vf::InteractionQuery const& q) override
    {
        int c = (script && log.size() < script->size()) ? (*script)[log.size()] : 0;
        if (c >= n)
            c = 0;
        log.push_back({q.event, q.track, q.step, q.slot, q.particle, c});
        return c;
    }
};

//---------------------------------------------------------------------------//
// Reference ledger
//---------------------------------------------------------------------------//
using Pos = std::array<double, 3>;
struct Emitted
{
    int kind;  // 0 gamma, 1 e-
    Pos pos;  // where the parent stood when it emitted (post-step point of that step)
};

struct TrackInfo
{
    unsigned parent{vf::no_id};
    unsigned steps{0};
    bool alive{true};
    unsigned slot{0};
    int kind{0};
    unsigned children_expected{0}, children_seen{0};
    std::vector<Emitted> pending;  // emitted surviving secondaries that have not started yet
};

struct Ledger
{
    std::map<std::pair<unsigned, unsigned>, TrackInfo> tracks;
    std::map<unsigned, unsigned> primaries_injected, primaries_started;
    unsigned long created{0}, died{0};
    std::string error;  // first violation (signature|message)

    void fail(std::string sig, std::string msg)
    {
        if (error.empty())
            error = sig + "|" + msg;
    }

    // process the records and queries of one Stepper call
    void step(std::vector<vf::StepRec> const& recs, size_t begin, std::vector<Query> const& queries,
              StepperResult const& res, std::vector<unsigned> const& inject_events,
              unsigned nslots, int gamma_id, int electron_id)
    {
        int const injected = int(inject_events.size());
        for (unsigned ev : inject_events)
        {
            primaries_injected[ev] += 1;
            created += 1;
        }
        std::set<unsigned> slots_seen;
        std::map<std::pair<unsigned, unsigned>, size_t> stepped;  // key -> record index
        for (size_t i = begin; i < recs.size(); ++i)
        {
            auto const& r = recs[i];
            auto key = std::make_pair(r.event, r.track);
            if (!slots_seen.insert(r.slot).second)
                fail("tracks:slot-holds-two-tracks",
                     fmt("slot %u delivered two step records in one step", r.slot));
            if (!stepped.emplace(key, i).second)
                fail("tracks:track-stepped-twice",
                     fmt("event %u track %u delivered two records in one step", r.event, r.track));
            int const rkind = r.particle == gamma_id ? 0 : r.particle == electron_id ? 1 : 2;
            auto it = tracks.find(key);
            if (it == tracks.end())
            {
                TrackInfo t;
                t.parent = r.parent;
                t.slot = r.slot;
                t.kind = rkind;
                if (r.step_count != 1)
                    fail("tracks:first-step-count",
                         fmt("event %u track %u first record has step count %u", r.event, r.track,
                             r.step_count));
                if (r.parent == vf::no_id)
                {
                    if (++primaries_started[r.event] > primaries_injected[r.event])
                        fail("tracks:unknown-primary",
                             fmt("event %u track %u has no parent but only %u primaries were given",
                                 r.event, r.track, primaries_injected[r.event]));
                }
                else
                {
                    auto pit = tracks.find({r.event, r.parent});
                    if (pit == tracks.end())
                        fail("tracks:parent-missing",
                             fmt("event %u track %u names parent %u which never existed", r.event,
                                 r.track, r.parent));
                    else if (++pit->second.children_seen > pit->second.children_expected)
                        fail("tracks:too-many-children",
                             fmt("event %u parent %u emitted %u surviving secondaries but track %u "
                                 "is its child number %u",
                                 r.event, r.parent, pit->second.children_expected, r.track,
                                 pit->second.children_seen));
                    else
                    {
                        // the child must BE one of the secondaries its parent emitted: same
                        // species, starting where the parent stood in the emitting step
                        auto& pend = pit->second.pending;
                        auto exact = pend.end(), same_kind = pend.end();
                        for (auto e = pend.begin(); e != pend.end(); ++e)
                        {
                            if (e->kind != rkind)
                                continue;
                            if (same_kind == pend.end())
                                same_kind = e;
                            if (e->pos == r.pre.pos)
                            {
                                exact = e;
                                break;
                            }
                        }
                        if (exact != pend.end())
                            pend.erase(exact);
                        else if (same_kind != pend.end())
                        {
                            fail("tracks:child-position",
                                 fmt("event %u track %u (child of %u, kind %d) starts at "
                                     "[%.17g,%.17g,%.17g]; its parent emitted that kind at "
                                     "[%.17g,%.17g,%.17g]",
                                     r.event, r.track, r.parent, rkind, r.pre.pos[0], r.pre.pos[1],
                                     r.pre.pos[2], same_kind->pos[0], same_kind->pos[1],
                                     same_kind->pos[2]));
                            pend.erase(same_kind);
                        }
                        else
                        {
                            std::string have;
                            for (auto const& e : pend)
                                have += e.kind ? "e-" : "g";
                            fail("tracks:child-species",
                                 fmt("event %u track %u is a %s but the not yet started "
                                     "secondaries of its parent %u are {%s}",
                                     r.event, r.track,
                                     rkind == 0   ? "gamma"
                                     : rkind == 1 ? "e-"
                                                  : "e+",
                                     r.parent, have.c_str()));
                        }
                    }
                }
                t.steps = 1;
                tracks[key] = t;
            }
            else
            {
                TrackInfo& t = it->second;
                if (!t.alive)
                    fail("tracks:finished-track-stepped-again",
                         fmt("event %u track %u was finished after step %u but delivered step %u",
                             r.event, r.track, t.steps, r.step_count));
                if (r.step_count != t.steps + 1)
                    fail("tracks:step-count-not-consecutive",
                         fmt("event %u track %u step count %u after %u", r.event, r.track,
                             r.step_count, t.steps));
                if (rkind != t.kind)
                    fail("tracks:species-changed",
                         fmt("event %u track %u was kind %d and is now kind %d", r.event, r.track,
                             t.kind, rkind));
                t.steps = r.step_count;
            }
        }
        // every track that was alive must have stepped
        for (auto& kv : tracks)
            if (kv.second.alive && !stepped.count(kv.first))
                fail("tracks:alive-track-skipped-a-step",
                     fmt("event %u track %u is alive but delivered no record", kv.first.first,
                         kv.first.second));
        // outcomes
        std::set<std::pair<unsigned, unsigned>> asked;
        for (auto const& q : queries)
        {
            auto key = std::make_pair(q.event, q.track);
            if (!asked.insert(key).second)
                fail("tracks:interacted-twice",
                     fmt("event %u track %u interacted twice in one step", q.event, q.track));
            auto it = tracks.find(key);
            auto sit = stepped.find(key);
            if (it == tracks.end() || sit == stepped.end())
            {
                fail("tracks:interaction-without-step",
                     fmt("event %u track %u interacted but delivered no step record", q.event,
                         q.track));
                continue;
            }
            auto const& o = letter(q.chosen);
            TrackInfo& t = it->second;
            unsigned k = o.surviving_secondaries();
            t.children_expected += k;
            created += k;
            for (int i = 0; i < o.nsec; ++i)
                if (!o.subcut[i])
                    t.pending.push_back({o.kinds[i], recs[sit->second].post.pos});
            if (!o.survive)
            {
                t.alive = false;
                ++died;
            }
        }
        // counters
        size_t nrec = recs.size() - begin;
        if (res.generated != size_type(injected))
            fail("counters:generated", fmt("generated=%u, %d primaries given", res.generated, injected));
        if (res.active != nrec)
            fail("counters:active",
                 fmt("active=%u but %zu tracks delivered a step", res.active, nrec));
        if (res.alive > nslots)
            fail("counters:alive", fmt("alive=%u > %u slots", res.alive, nslots));
        if ((unsigned long)res.alive + res.queued != created - died)
            fail("counters:alive+queued",
                 fmt("alive=%u queued=%u but %lu tracks created and %lu finished", res.alive,
                     res.queued, created, died));
    }

    // after the loop has drained
    void finish()
    {
        for (auto const& kv : tracks)
        {
            if (kv.second.alive)
                fail("tracks:never-finished",
                     fmt("event %u track %u still alive after the loop drained", kv.first.first,
                         kv.first.second));
            if (kv.second.children_seen != kv.second.children_expected)
                fail("tracks:secondary-lost",
                     fmt("event %u track %u emitted %u surviving secondaries, %u became tracks",
                         kv.first.first, kv.first.second, kv.second.children_expected,
                         kv.second.children_seen));
        }
        for (auto const& kv : primaries_injected)
            if (primaries_started[kv.first] != kv.second)
                fail("tracks:primary-lost",
                     fmt("event %u: %u primaries given, %u started", kv.first, kv.second,
                         primaries_started[kv.first]));
        if (tracks.size() != created)
            fail("tracks:count", fmt("%zu tracks seen, %lu created", tracks.size(), created));
    }
};

//---------------------------------------------------------------------------//
struct Config
{
    unsigned slots, capacity;
    TrackOrder order;
    std::string name() const
    {
        return fmt("S=%u,Q=%u,ord=%d", slots, capacity, int(order));
    }
};

struct Replay
{
    bool overflow{false};  // capacity really exceeded (exception): C16's regime
    std::string canon;
    int last_queries{0};  // interactions executed by the last call of the history
    std::string error;  // ledger violation
    unsigned steps_to_drain{0};
    unsigned long transitions{0}, drain_steps{0};
    bool exact_fit{false};  // some call ended with queued == capacity, or was given it
    bool unchanged_after_emission{false};
    int asan{0};
};

static int asan_errors()
{
#if defined(__SANITIZE_ADDRESS__)
    return vf::detail::g_asan_errors;
#else
    return 0;
#endif
}

struct Sys
{
    Config cfg;
    std::unique_ptr<LoopProblem> P;

    explicit Sys(Config c) : cfg(c)
    {
        vf::LoopConfig lc;
        lc.geometry = 1;
        lc.along = vf::AlongStep::linear;
        lc.slots = cfg.slots;
        lc.init_capacity = cfg.capacity;
        lc.max_events = 2;  // both valid event ids (0 and max_events-1) are used
        lc.track_order = cfg.order;
        lc.xs_gamma = 1e5;
        lc.xs_electron = 1e5;
        lc.dedx = 0;
        lc.bookkeeping = true;
        lc.bookkeeping_extended = true;
        lc.at_rest_annihilation = false;
        lc.secondary_stack_factor = 3;  // 3 x slots >= 2 secondaries per slot: never starved
        P = vf::make_loop_problem(lc);
    }

    std::string canon(Stepper<MemSpace::host>& st) const
    {
        auto const& s = st.state_ref();
        auto const& cnt = st.state().counters();
        std::string c;
        for (unsigned i = 0; i < cfg.slots; ++i)
        {
            TrackSlotId ts{i};
            auto status = s.sim.status[ts];
            if (status == TrackStatus::inactive)
                c += '.';
            else
            {
                bool neutral = (s.particles.particle_id[ts] == P->gamma);
                c += status == TrackStatus::alive ? (neutral ? 'g' : 'e')
                                                  : (neutral ? 'G' : 'E');
            }
        }
        c += '|';
        for (size_type i = 0; i < cnt.num_initializers; ++i)
        {
            auto const& init = s.init.initializers[ItemId<TrackInitializer>{i}];
            c += (init.particle.particle_id == P->gamma) ? 'g' : 'e';
        }
        c += fmt("|a%u", cnt.num_alive);
        return c;
    }

    // Replay a history on a fresh stepper with the ledger; optionally drain afterwards.
    // Touches only this Sys (thread-safe across different Sys objects).
    //! drain: 0 = stop after the history, 1 = continue with all-die until the loop drains,
    //! 2 = ABANDON the tracks in flight: Stepper::reset_state(), then one fresh single-primary
    //!     event transported to completion under a new ledger (no slot may resurrect a track of
    //!     the abandoned event, the counters must be true from the first step on)
    Replay replay(History const& h, int drain)
    {
        Replay out;
        int const asan0 = asan_errors();
        P->recorder->steps.clear();
        auto st = P->make_stepper();
        st->reseed(UniqueEventId{0});
        Ledger L;
        ScriptChooser ch;
        vf::g_loop_chooser = &ch;
        int const gamma_id = int(P->gamma.unchecked_get());
        int const electron_id = int(P->electron.unchecked_get());
        unsigned next_event = 0;
        size_t stepno = 0;
        // what the capacity oracle needs when a call throws
        unsigned queued_prev = 0, alive_prev = 0;
        int cur_inject = 0;
        size_t cur_begin = 0;
        std::set<std::pair<unsigned, unsigned>> emitted_last;  // tracks that emitted in the previous call
        try
        {
            for (auto const& op : h)
            {
                size_t begin = P->recorder->steps.size();
                cur_begin = begin;
                int const np = ninj(op.inject);
                cur_inject = np;
                ch.script = &op.choices;
                ch.log.clear();
                StepperResult res;
                std::vector<unsigned> events;
                if (queued_prev + np == cfg.capacity && np > 0)
                    out.exact_fit = true;
                if (np > 0)
                {
                    // primary k: kind k%2 (gamma, e-); the first one belongs to event `ev`, the
                    // second to the OTHER event: one span with two different event ids
                    // (letter 3: both belong to event `ev`)
                    unsigned ev = next_event;
                    std::vector<Primary> prim;
                    for (int k = 0; k < np; ++k)
                    {
                        unsigned e = (k == 0 || op.inject == 3) ? ev : 1 - ev;
                        events.push_back(e);
                        prim.push_back(P->primary(k % 2, 1.0, {0.2 + 0.1 * k, 0.1, 0.05},
                                                  {k ? 0.0 : 1.0, k ? 1.0 : 0.0, 0}, e));
                    }
                    next_event = 1 - next_event;
                    res = (*st)(make_span(prim));
                }
                else
                {
                    res = (*st)();
                }
                ++out.transitions;
                if (asan_errors() != asan0)
                    break;  // reported by the caller; do not go on with damaged memory
                L.step(P->recorder->steps, begin, ch.log, res, events, cfg.slots, gamma_id,
                       electron_id);
                // true numbers from the state
                auto const& sr = st->state_ref();
                unsigned alive_true = 0;
                for (unsigned i = 0; i < cfg.slots; ++i)
                {
                    // secondaries initialised in place of their dying parent are
                    // "initializing" until the next pre-step; both count as alive
                    auto stt = sr.sim.status[TrackSlotId{i}];
                    alive_true += (stt == TrackStatus::alive || stt == TrackStatus::initializing);
                }
                if (alive_true != res.alive)
                    L.fail("counters:alive-vs-state",
                           fmt("alive=%u but %u slots hold an alive track", res.alive, alive_true));
                auto const& cnt = st->state().counters();
                if (cnt.num_initializers != res.queued || cnt.num_alive != res.alive
                    || cnt.num_active != res.active)
                    L.fail("counters:state-vs-result", "CoreStateCounters differ from StepperResult");
                out.last_queries = int(ch.log.size());
                if (op.choices.size() != ch.log.size() && stepno + 1 != h.size())
                    L.fail("harness:choice-count", "replayed prefix consumed a different number of choices");
                if (ch.log.size() != P->recorder->steps.size() - begin)
                    L.fail("harness:not-every-active-track-interacted",
                           fmt("%zu step records but %zu interactions", P->recorder->steps.size() - begin,
                               ch.log.size()));
                // coverage: a track that emitted in the previous call and is "unchanged" now
                std::set<std::pair<unsigned, unsigned>> emitted_now;
                for (auto const& q : ch.log)
                {
                    auto const& o = letter(q.chosen);
                    if (o.unchanged && emitted_last.count({q.event, q.track}))
                        out.unchanged_after_emission = true;
                    if (o.nsec > 0)
                        emitted_now.insert({q.event, q.track});
                }
                emitted_last.swap(emitted_now);
                if (res.queued == cfg.capacity)
                    out.exact_fit = true;
                queued_prev = res.queued;
                alive_prev = res.alive;
                ++stepno;
            }
            out.canon = canon(*st);
            if (drain == 2 && asan_errors() == asan0)
            {
                st->reset_state();
                auto const& sr = st->state_ref();
                unsigned held = 0;
                for (unsigned i = 0; i < cfg.slots; ++i)
                    held += (sr.sim.status[TrackSlotId{i}] != TrackStatus::inactive);
                auto const& c0 = st->state().counters();
                if (held != 0 || c0.num_alive != 0 || c0.num_initializers != 0 || c0.num_active != 0)
                    L.fail("tracks:state-not-clean-after-reset",
                           fmt("after reset_state(): %u slots still hold a track, counters alive=%u "
                               "queued=%u active=%u",
                               held, unsigned(c0.num_alive), unsigned(c0.num_initializers),
                               unsigned(c0.num_active)));
                Ledger L2;
                static std::vector<int> const none;
                ch.script = &none;
                st->reseed(UniqueEventId{7});
                unsigned guard = 0;
                bool first = true;
                StepperResult res;
                bool more = true;
                while (more && L.error.empty() && L2.error.empty())
                {
                    size_t begin = P->recorder->steps.size();
                    cur_begin = begin;
                    ch.log.clear();
                    std::vector<unsigned> events;
                    if (first)
                    {
                        cur_inject = 1;
                        events.push_back(0);
                        Primary prim = P->primary(0, 1.0, {0.2, 0.1, 0.05}, {1, 0, 0}, 0);
                        res = (*st)(Span<Primary const>{&prim, 1});
                        first = false;
                    }
                    else
                    {
                        cur_inject = 0;
                        res = (*st)();
                    }
                    if (asan_errors() != asan0)
                        break;
                    L2.step(P->recorder->steps, begin, ch.log, res, events, cfg.slots, gamma_id,
                            electron_id);
                    unsigned alive_true = 0;
                    for (unsigned i = 0; i < cfg.slots; ++i)
                    {
                        auto stt = sr.sim.status[TrackSlotId{i}];
                        alive_true += (stt == TrackStatus::alive || stt == TrackStatus::initializing);
                    }
                    if (alive_true != res.alive)
                        L2.fail("counters:alive-vs-state",
                                fmt("after reset_state(): alive=%u but %u slots hold an alive track",
                                    res.alive, alive_true));
                    more = bool(res);
                    if (++guard > 4 * (cfg.slots + cfg.capacity) + 16)
                    {
                        L2.fail("tracks:loop-does-not-drain", "event after reset_state() does not end");
                        break;
                    }
                }
                if (!more && L2.error.empty())
                    L2.finish();
                if (L.error.empty() && !L2.error.empty())
                    L.error = L2.error.substr(0, L2.error.find('|')) + "[after-reset]"
                              + L2.error.substr(L2.error.find('|'));
            }
            else if (drain && asan_errors() == asan0)
            {
                // continue with the all-die default until the loop drains
                static std::vector<int> const none;
                ch.script = &none;
                unsigned guard = 0;
                StepperResult res;
                auto const& cnt0 = st->state().counters();
                bool more = cnt0.num_alive > 0 || cnt0.num_initializers > 0;
                while (more)
                {
                    size_t begin = P->recorder->steps.size();
                    cur_begin = begin;
                    cur_inject = 0;
                    ch.log.clear();
                    res = (*st)();
                    ++out.drain_steps;
                    if (asan_errors() != asan0)
                        break;
                    L.step(P->recorder->steps, begin, ch.log, res, {}, cfg.slots, gamma_id,
                           electron_id);
                    queued_prev = res.queued;
                    alive_prev = res.alive;
                    more = bool(res);
                    if (++guard > 4 * (cfg.slots + cfg.capacity) + 16)
                    {
                        L.fail("tracks:loop-does-not-drain",
                               fmt("alive=%u queued=%u after %u all-die steps", res.alive,
                                   res.queued, guard));
                        break;
                    }
                }
                out.steps_to_drain = guard;
                if (!more)
                    L.finish();
            }
        }
        catch (RuntimeError const& e)
        {
            // Is the capacity really exceeded?  (ledger only: what was pending before the call,
            // what the call was given, how many tracks it started = records - alive before,
            // what the interactions of the call emitted)
            auto const& recs = P->recorder->steps;
            size_t const nrec = recs.size() - cur_begin;
            bool const in_insert = (nrec == 0 && ch.log.empty());
            long need = long(queued_prev) + cur_inject;
            if (!in_insert)
            {
                need -= long(nrec) - long(alive_prev);
                for (auto const& q : ch.log)
                {
                    auto const& o = letter(q.chosen);
                    int k = o.surviving_secondaries();
                    need += k;
                    if (!o.survive && k > 0 && cfg.order != TrackOrder::init_charge)
                        --need;
                }
            }
            if (need <= long(cfg.capacity))
            {
                std::string what = e.what();
                auto nl = what.find("celeritas:");
                // (own signature for errors that are not about the capacity at all, e.g. a valid
                // event id rejected)
                L.fail(what.find("capacity") != std::string::npos ? "tracks:spurious-capacity-error"
                                                                  : "tracks:spurious-runtime-error",
                       fmt("call %zu (%d primaries, %u queued and %u alive before it, %zu tracks "
                           "stepped, thrown %s) needs %ld pending initializers, capacity %u, but "
                           "a RuntimeError was thrown: %s",
                           stepno, cur_inject, queued_prev, alive_prev, nrec,
                           in_insert ? "before the step" : "at the end of the step", need,
                           cfg.capacity, what.substr(0, 400).c_str()));
                (void)nl;
            }
            else
                out.overflow = true;
        }
        catch (std::exception const& e)
        {
            L.fail("tracks:unexpected-exception", std::string(e.what()).substr(0, 600));
        }
        vf::g_loop_chooser = nullptr;
        out.error = L.error;
        out.asan = asan_errors() - asan0;
        return out;
    }
};

//---------------------------------------------------------------------------//
// crash attribution with worker threads: the crashing thread's own case id
static thread_local char t_case[4096] = "";
static void on_fatal_mt(int sig)
{
    if (t_case[0])
    {
        size_t n = strnlen(t_case, sizeof(t_case) - 1);
        memcpy(vf::detail::g_case, t_case, n);
        vf::detail::g_case[n] = 0;
    }
    vf::detail::on_fatal(sig);
}

#if defined(__SANITIZE_ADDRESS__)
//! AddressSanitizer ends the process on its own (fatal report / internal CHECK after wild
//! writes): leave a crash record naming the dying thread's history, so that the driver reports
//! a violation (asan:tracks) instead of a broken check
static void on_asan_death()
{
    if (t_case[0])
    {
        size_t n = strnlen(t_case, sizeof(t_case) - 1);
        memcpy(vf::detail::g_case, t_case, n);
        vf::detail::g_case[n] = 0;
    }
    vf::detail::write_crash("ASAN", 0);
    _exit(5);
}
//! Called by AddressSanitizer with the text of every report, BEFORE the offending access is
//! executed: the report becomes a violation of the history the reporting thread is running and
//! the run ends in an orderly way instead of going on with memory that is about to be damaged.
static vf::Run* g_run = nullptr;
static void on_asan_report(char const* text)
{
    static std::atomic<bool> entered{false};
    if (entered.exchange(true) || !g_run)
        return;
    std::string t = text ? text : "";
    g_run->violation("tracks:asan-report", t_case[0] ? t_case : vf::detail::g_case,
                     "AddressSanitizer: " + t.substr(0, 1500));
    g_run->end_case();
    g_run->cap_hit("run stopped after its first AddressSanitizer report");
    int rc = g_run->finish();
    fflush(nullptr);
    _exit(rc);
}
#endif

template<class F>
static void parallel_for(size_t n, unsigned nthreads, F&& f)
{
    if (n == 0)
        return;
    if (nthreads <= 1 || n == 1)
    {
        for (size_t i = 0; i < n; ++i)
            f(i, 0u);
        return;
    }
    std::atomic<size_t> next{0};
    std::vector<std::thread> th;
    unsigned const nt = unsigned(std::min<size_t>(nthreads, n));
    for (unsigned t = 0; t < nt; ++t)
        th.emplace_back([&, t] {
            for (;;)
            {
                size_t i = next.fetch_add(1);
                if (i >= n)
                    break;
                f(i, t);
            }
            t_case[0] = 0;
        });
    for (auto& x : th)
        x.join();
}

static void enumerate_choices(int nq, std::vector<std::vector<int>>* out)
{
    std::vector<int> cur(nq, 0);
    while (true)
    {
        out->push_back(cur);
        int i = 0;
        while (i < nq && ++cur[i] == NLET)
            cur[i++] = 0;
        if (i == nq)
            break;
    }
}

struct Mismatch
{
    std::string text;
};

static void search(vf::Run& R, Config cfg, int max_depth, int max_primaries, unsigned nthreads,
                   Mismatch* mismatch)
{
    std::string const cname = cfg.name();
    if (R.replay())
    {
        std::string rc = R.replay_case();
        if (rc.compare(0, cname.size() + 1, cname + "|") != 0)
            return;
        R.begin_case(rc, 600);
        Sys sys(cfg);
        bool const reset_mode = rc.size() > 7 && rc.compare(rc.size() - 7, 7, "|reset|") == 0;
        History h = parse_history(
            rc.substr(cname.size() + 1, rc.size() - cname.size() - 1 - (reset_mode ? 7 : 0)));
        auto rp = sys.replay(h, reset_mode ? 2 : 1);
        fprintf(stderr, "replay %s: canon=%s overflow=%d error=%s\n", rc.c_str(), rp.canon.c_str(),
                int(rp.overflow), rp.error.c_str());
        for (auto const& r : sys.P->recorder->steps)
            fprintf(stderr, "  ev%u trk%u parent %d step %u slot %u particle %d action %s\n", r.event,
                    r.track, int(r.parent), r.step_count, r.slot, r.particle,
                    sys.P->action_labels[r.action].c_str());
        if (!rp.error.empty())
        {
            auto bar = rp.error.find('|');
            R.violation(rp.error.substr(0, bar), rc, rp.error.substr(bar + 1));
        }
        if (rp.asan)
            R.violation("tracks:asan-report", rc, "AddressSanitizer reported an error");
        R.count("evaluations");
        return;
    }

    std::vector<std::unique_ptr<Sys>> sys;
    for (unsigned t = 0; t < nthreads; ++t)
        sys.push_back(std::make_unique<Sys>(cfg));

    struct Node
    {
        History h;
        int primaries;
        std::string canon;
        int occurrence;  // 1 or 2: which history of that canon this is
    };
    std::vector<Node> frontier = {{{}, 0, "<init>", 1}};
    std::unordered_map<std::string, int> seen;  // canon -> histories kept for expansion
    // bisimulation test: successor sets of the first expanded history of each canon
    std::unordered_map<std::string, std::map<int, std::set<std::string>>> succ_of;
    seen["<init>"] = 1;
    bool checked_determinism = false;

    struct Task
    {
        size_t node;
        int inject;
        std::vector<int> choices;
        Replay rp;
    };
    struct Probe
    {
        size_t node;
        int inject;
        Replay rp;
    };

    for (int depth = 0; depth < max_depth && !frontier.empty(); ++depth)
    {
        std::vector<Node> next;
        size_t pos = 0;
        while (pos < frontier.size())
        {
            if (R.expired())
                return;
            // ---- batch of nodes: learn the number of interactions of each (node, inject)
            size_t const batch_begin = pos;
            std::vector<Probe> probes;
            size_t est = 0;
            while (pos < frontier.size() && est < 6000)
            {
                auto const& node = frontier[pos];
                for (int inject = 0; inject <= 3; ++inject)
                {
                    if (node.primaries + ninj(inject) > max_primaries)
                        continue;
                    if (node.h.empty() && inject == 0)
                        continue;  // nothing to transport
                    probes.push_back({pos, inject, {}});
                    // at most `slots` interactions per call
                    size_t m = 1;
                    for (unsigned k = 0; k < cfg.slots; ++k)
                        m *= NLET;
                    est += m;
                }
                ++pos;
            }
            R.begin_case(cname + "|" + to_string(frontier[batch_begin].h) + " (batch of "
                             + std::to_string(pos - batch_begin) + " nodes)",
                         900);
            parallel_for(probes.size(), nthreads, [&](size_t i, unsigned t) {
                History probe = frontier[probes[i].node].h;
                probe.push_back({probes[i].inject, {}});
                std::string id = cname + "|" + to_string(probe);
                strncpy(t_case, id.c_str(), sizeof(t_case) - 1);
                // the default-choice execution IS one of the transitions (all die+0)
                probes[i].rp = sys[t]->replay(probe, 0);
            });
            bool asan_seen = false;
            auto stop_if_asan = [&] {
                if (!asan_seen)
                    return;
                // the heap may be corrupted (recover mode): end the run in an orderly way
                R.end_case();
                R.cap_hit("run stopped after the first batch with an AddressSanitizer report");
                int rc = R.finish();
                fflush(nullptr);
                _exit(rc);
            };
            std::vector<Task> tasks;
            // successor sets of the nodes of this batch, per injection count
            std::map<std::pair<size_t, int>, std::set<std::string>> succ_now;
            for (auto& pr : probes)
            {
                R.count("transitions", pr.rp.transitions);
                if (pr.rp.asan)
                {
                    History probe = frontier[pr.node].h;
                    probe.push_back({pr.inject, {}});
                    R.violation("tracks:asan-report", cname + "|" + to_string(probe),
                                cname + ": AddressSanitizer reported an error while this history "
                                        "(or one evaluated concurrently) ran");
                    asan_seen = true;
                    continue;
                }
                if (pr.rp.overflow)
                {
                    // all-die choices: the queue cannot grow during the call, so the capacity
                    // was exceeded by the primaries themselves and every child is cut
                    R.tag("overflow-cut");
                    succ_now[{pr.node, pr.inject}].insert("#overflow");
                    continue;
                }
                if (pr.rp.canon.empty())
                {
                    // the probe call threw although nothing was exceeded (or threw something
                    // unexpected): report here, the children cannot be evaluated
                    History probe = frontier[pr.node].h;
                    probe.push_back({pr.inject, {}});
                    std::string cid = cname + "|" + to_string(probe);
                    auto bar = pr.rp.error.find('|');
                    R.violation(pr.rp.error.substr(0, bar), cid,
                                cname + ": " + pr.rp.error.substr(bar + 1));
                    continue;
                }
                std::vector<std::vector<int>> all;
                enumerate_choices(pr.rp.last_queries, &all);
                for (auto& ch : all)
                    tasks.push_back({pr.node, pr.inject, std::move(ch), {}});
            }
            stop_if_asan();
            // ---- evaluate every child (parallel), then judge in enumeration order
            parallel_for(tasks.size(), nthreads, [&](size_t i, unsigned t) {
                History h2 = frontier[tasks[i].node].h;
                h2.push_back({tasks[i].inject, tasks[i].choices});
                std::string id = cname + "|" + to_string(h2);
                strncpy(t_case, id.c_str(), sizeof(t_case) - 1);
                tasks[i].rp = sys[t]->replay(h2, 1);
            });
            for (auto& tk : tasks)
            {
                auto const& node = frontier[tk.node];
                History h2 = node.h;
                h2.push_back({tk.inject, tk.choices});
                std::string cid = cname + "|" + to_string(h2);
                Replay& rp = tk.rp;
                R.count("evaluations");
                R.count("transitions", rp.transitions);
                R.count("drain_steps", rp.drain_steps);
                if (!checked_determinism)
                {
                    Replay again = sys[0]->replay(h2, 1);
                    if (again.canon != rp.canon || again.error != rp.error)
                        R.harness_error("replay of the same history is not deterministic: " + cid);
                    checked_determinism = true;
                }
                if (rp.asan)
                {
                    R.violation("tracks:asan-report", cid,
                                cname + ": AddressSanitizer reported an error while this history "
                                        "(or one evaluated concurrently) ran");
                    asan_seen = true;
                }
                if (rp.exact_fit)
                    R.tag("capacity:exact-fit-reached");
                if (rp.unchanged_after_emission)
                    R.tag("letter:unchanged-after-emission");
                if (!rp.error.empty())
                {
                    auto bar = rp.error.find('|');
                    R.violation(rp.error.substr(0, bar), cid,
                                cname + ": " + rp.error.substr(bar + 1));
                }
                if (rp.overflow)
                {
                    R.tag("overflow-cut");
                    succ_now[{tk.node, tk.inject}].insert("#overflow");
                    continue;
                }
                if (rp.canon.empty())
                    continue;  // spurious error before the end of the history (reported)
                succ_now[{tk.node, tk.inject}].insert(rp.canon);
                R.maxi("max_drain_steps", rp.steps_to_drain);
                R.outcome(vf::hash_str(rp.canon));
                R.state(vf::hash_mix(vf::hash_str(cname), vf::hash_str(rp.canon)));
                int& times = seen[rp.canon];
                ++times;
                if (times == 1)
                {
                    // first time this bookkeeping state is reached: abandon it, reset, run a
                    // fresh event (see replay(), drain mode 2)
                    Replay rr = sys[0]->replay(h2, 2);
                    R.count("reset_epilogues");
                    R.count("transitions", rr.transitions);
                    if (!rr.error.empty())
                    {
                        auto bar = rr.error.find('|');
                        R.violation(rr.error.substr(0, bar), cid + "|reset|",
                                    cname + ": " + rr.error.substr(bar + 1));
                    }
                }
                if (times <= 2)
                {
                    // expand the first two histories of each canon (bisimulation test)
                    next.push_back({h2, node.primaries + ninj(tk.inject), rp.canon, times});
                }
            }
            stop_if_asan();
            // ---- bisimulation: equal canon => equal successor sets, per injection count
            for (auto& kv : succ_now)
            {
                auto const& node = frontier[kv.first.first];
                int const inject = kv.first.second;
                if (node.occurrence == 1)
                {
                    auto& s = succ_of[node.canon][inject];
                    s.insert(kv.second.begin(), kv.second.end());
                }
            }
            for (auto& kv : succ_now)
            {
                auto const& node = frontier[kv.first.first];
                int const inject = kv.first.second;
                if (node.occurrence != 2)
                    continue;
                auto it = succ_of.find(node.canon);
                if (it == succ_of.end())
                    continue;  // the first history was at the depth bound: not expanded
                auto jt = it->second.find(inject);
                if (jt == it->second.end())
                    continue;  // primaries bound differed
                R.count("bisimulation_pairs");
                if (jt->second != kv.second && mismatch->text.empty())
                {
                    std::string a, b;
                    for (auto const& s : jt->second)
                        if (!kv.second.count(s))
                            a += s + " ";
                    for (auto const& s : kv.second)
                        if (!jt->second.count(s))
                            b += s + " ";
                    mismatch->text = fmt("%s: canon %s, %d primaries: second history %s has "
                                         "successors {%s} that the first lacks and lacks {%s}",
                                         cname.c_str(), node.canon.c_str(), inject,
                                         to_string(node.h).c_str(), b.c_str(), a.c_str());
                }
            }
            R.end_case();
        }
        R.maxi("depth_completed", depth + 1);
        fprintf(stderr, "[c02] %s depth %d: %zu nodes expanded, %zu kept, %llu evaluations so far, %.1f s\n",
                cname.c_str(), depth + 1, frontier.size(), next.size(),
                (unsigned long long)R.counter("evaluations"), R.elapsed());
        frontier.swap(next);
    }
    if (!frontier.empty())
        R.tag("depth-bound-reached:" + cname);
    else
        R.tag("fixpoint:" + cname);
    R.nontrivial(vf::hash_str(cname));
}

int main(int argc, char** argv)
{
    vf::Run R(argc, argv, "C02", "c02_tracks");
    for (int sig : {SIGSEGV, SIGBUS, SIGFPE, SIGILL, SIGABRT})
        signal(sig, on_fatal_mt);
#if defined(__SANITIZE_ADDRESS__)
    __sanitizer_set_death_callback(on_asan_death);
    g_run = &R;
    __asan_set_error_report_callback(on_asan_report);
#endif
    bool const thorough = R.thorough();
    unsigned nthreads = std::thread::hardware_concurrency();
    if (char const* e = getenv("VERIF_THREADS"))
        nthreads = unsigned(atoi(e));
    if (nthreads < 1)
        nthreads = 1;
    if (nthreads > 16)
        nthreads = 16;
    if (R.nshards() != 1)
        R.harness_error("this harness is parallel inside one process: configure shards = 1");
    // Configuration lattice with its depth bound (0 = not run in this tier).  The search below
    // a configuration is complete up to the bound; 'fixpoint:' tags mark configurations whose
    // frontier emptied before it (all of Q <= 2S do: the primaries bound makes them finite).
    // Costs (evaluations) were measured per configuration; the largest come last so that a
    // deadline cuts those.
    struct Plan
    {
        Config cfg;
        int depth;
    };
    std::vector<Plan> plan;
    TrackOrder const none = TrackOrder::none, charge = TrackOrder::init_charge,
                     status = TrackOrder::reindex_status, ptype = TrackOrder::reindex_particle_type,
                     shuffle = TrackOrder::reindex_shuffle;
    std::vector<TrackOrder> const all = {none, charge, status, ptype, shuffle};
    auto add = [&](unsigned s, unsigned q, std::vector<TrackOrder> const& orders, int depth) {
        for (auto o : orders)
            plan.push_back({{s, q, o}, depth});
    };
    if (!thorough)
    {
        add(1, 1, all, 5);
        add(1, 2, all, 5);
        add(1, 16, all, 4);
        add(2, 2, {none, charge, status}, 4);
        add(2, 4, {none, charge}, 2);
        add(3, 3, {none}, 2);
    }
    else
    {
        add(1, 1, all, 6);
        add(1, 2, all, 6);
        add(1, 16, all, 6);
        add(2, 2, all, 6);
        add(2, 4, all, 6);
        add(2, 16, {status, ptype, shuffle}, 2);
        add(2, 16, {none, charge}, 3);
        add(3, 3, all, 2);
        add(3, 6, {none, charge}, 2);
        add(3, 16, {none}, 2);
        add(4, 8, {none}, 2);
    }
    Mismatch mismatch;
    char const* only = getenv("VERIF_C02_CONFIG");  // development aid: one configuration
    for (auto const& pl : plan)
    {
        if (only && pl.cfg.name() != only)
            continue;
        search(R, pl.cfg, pl.depth, /*max_primaries=*/thorough ? 4 : 3, nthreads, &mismatch);
        if (R.expired())
            break;
    }
    R.sample("S=2,Q=4,ord=0|i1:5/i2:53a/i0:02/ = 2 slots, capacity 4: call 1 one primary of event 0 "
             "(survive + e- + gamma), call 2 two more primaries (events 1 and 0), outcomes 5, 3 and "
             "'unchanged', call 3 ...; then drained with all-die and checked against the ledger");
    if (!mismatch.text.empty() && R.num_violations() == 0)
        R.harness_error("canon is not a bisimulation (equal canon, different successor sets): "
                        + mismatch.text);
    return R.finish();
}
