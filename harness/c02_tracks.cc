// C02 - every primary and secondary is transported exactly once.
//
// Explicit-state breadth-first search (engine E2) over the REAL track bookkeeping: the state
// is a real Stepper<host> (box-in-box geometry, scripted physics in "bookkeeping mode" with a
// huge cross section so that every active track interacts in every step).  One transition =
// one Stepper call with (a) p in {0,1,2} new primaries of alternating events and (b) a
// complete list of interaction outcomes, one per active track, from the 8-letter alphabet
// {die|survive} x {0,1,2 secondaries} x {sub-cut secondary} (problems/loop_zoo.hh).
// States are operation histories replayed on a fresh Stepper; canon(state) = every datum the
// slot/initializer index arithmetic reads (per-slot status + charge class, the queue of
// pending initializers as charge classes, counters).  Track/event ids are abstracted away;
// the abstraction is tested while searching: the first two histories that reach the same
// canon are both expanded and must have identical successor canons for every operation.
//
// Oracle = reference ledger (std::map) built only from the public step stream
// (StepInterface records), the StepperResult of every call and the outcomes the explorer
// chose; see Ledger below for the invariants.
#include <algorithm>
#include <map>
#include <set>
#include <sstream>
#include <string>
#include <unordered_map>
#include <vector>

#include "engine/harness.hh"
#include "problems/loop_zoo.hh"

using namespace celeritas;
using vf::fmt;
using vf::LoopProblem;

//---------------------------------------------------------------------------//
struct StepOp
{
    int inject{0};  // primaries handed to this call
    std::vector<int> choices;  // outcome per interaction query, in query order
};
using History = std::vector<StepOp>;

static std::string to_string(History const& h)
{
    std::string s;
    for (auto const& op : h)
    {
        s += fmt("i%d:", op.inject);
        for (int c : op.choices)
            s += char('0' + c);
        s += "/";
    }
    return s;
}
static History parse_history(std::string const& s)
{
    History h;
    size_t i = 0;
    while (i < s.size())
    {
        StepOp op;
        if (s[i] != 'i')
            break;
        op.inject = s[i + 1] - '0';
        i += 3;
        while (i < s.size() && s[i] != '/')
            op.choices.push_back(s[i++] - '0');
        ++i;
        h.push_back(op);
    }
    return h;
}

struct Query
{
    unsigned event, track, step, slot;
    int kind;
    int chosen;
};

struct ScriptChooser : vf::LoopChooser
{
    std::vector<int> const* script{nullptr};
    std::vector<Query> log;
    int choose(int n, vf::InteractionQuery const& q) override
    {
        int c = (script && log.size() < script->size()) ? (*script)[log.size()] : 0;
        if (c >= n)
            c = 0;
        log.push_back({q.event, q.track, q.step, q.slot, q.particle, c});
        return c;
    }
};

//---------------------------------------------------------------------------//
// Reference ledger
//---------------------------------------------------------------------------//
struct TrackInfo
{
    unsigned parent{vf::no_id};
    unsigned steps{0};
    bool alive{true};
    unsigned slot{0};
    int kind{0};
    unsigned children_expected{0}, children_seen{0};
};

struct Ledger
{
    std::map<std::pair<unsigned, unsigned>, TrackInfo> tracks;
    std::map<unsigned, unsigned> primaries_injected, primaries_started;
    unsigned long created{0}, died{0};
    std::string error;  // first violation (signature|message)

    void fail(std::string sig, std::string msg)
    {
        if (error.empty())
            error = sig + "|" + msg;
    }

    // process the records and queries of one Stepper call
    void step(std::vector<vf::StepRec> const& recs, size_t begin, std::vector<Query> const& queries,
              StepperResult const& res, int injected, unsigned inject_event, unsigned nslots,
              int gamma_id)
    {
        if (injected)
        {
            primaries_injected[inject_event] += injected;
            created += injected;
        }
        std::set<unsigned> slots_seen;
        std::set<std::pair<unsigned, unsigned>> stepped;
        for (size_t i = begin; i < recs.size(); ++i)
        {
            auto const& r = recs[i];
            auto key = std::make_pair(r.event, r.track);
            if (!slots_seen.insert(r.slot).second)
                fail("tracks:slot-holds-two-tracks",
                     fmt("slot %u delivered two step records in one step", r.slot));
            if (!stepped.insert(key).second)
                fail("tracks:track-stepped-twice",
                     fmt("event %u track %u delivered two records in one step", r.event, r.track));
            auto it = tracks.find(key);
            if (it == tracks.end())
            {
                TrackInfo t;
                t.parent = r.parent;
                t.slot = r.slot;
                t.kind = r.particle == gamma_id ? 0 : 1;
                if (r.step_count != 1)
                    fail("tracks:first-step-count",
                         fmt("event %u track %u first record has step count %u", r.event, r.track,
                             r.step_count));
                if (r.parent == vf::no_id)
                {
                    if (++primaries_started[r.event] > primaries_injected[r.event])
                        fail("tracks:unknown-primary",
                             fmt("event %u track %u has no parent but only %u primaries were given",
                                 r.event, r.track, primaries_injected[r.event]));
                }
                else
                {
                    auto pit = tracks.find({r.event, r.parent});
                    if (pit == tracks.end())
                        fail("tracks:parent-missing",
                             fmt("event %u track %u names parent %u which never existed", r.event,
                                 r.track, r.parent));
                    else if (++pit->second.children_seen > pit->second.children_expected)
                        fail("tracks:too-many-children",
                             fmt("event %u parent %u emitted %u surviving secondaries but track %u "
                                 "is its child number %u",
                                 r.event, r.parent, pit->second.children_expected, r.track,
                                 pit->second.children_seen));
                }
                t.steps = 1;
                tracks[key] = t;
            }
            else
            {
                TrackInfo& t = it->second;
                if (!t.alive)
                    fail("tracks:finished-track-stepped-again",
                         fmt("event %u track %u was finished after step %u but delivered step %u",
                             r.event, r.track, t.steps, r.step_count));
                if (r.step_count != t.steps + 1)
                    fail("tracks:step-count-not-consecutive",
                         fmt("event %u track %u step count %u after %u", r.event, r.track,
                             r.step_count, t.steps));
                t.steps = r.step_count;
            }
        }
        // every track that was alive must have stepped
        for (auto& kv : tracks)
            if (kv.second.alive && !stepped.count(kv.first))
                fail("tracks:alive-track-skipped-a-step",
                     fmt("event %u track %u is alive but delivered no record", kv.first.first,
                         kv.first.second));
        // outcomes
        std::set<std::pair<unsigned, unsigned>> asked;
        for (auto const& q : queries)
        {
            auto key = std::make_pair(q.event, q.track);
            if (!asked.insert(key).second)
                fail("tracks:interacted-twice",
                     fmt("event %u track %u interacted twice in one step", q.event, q.track));
            auto it = tracks.find(key);
            if (it == tracks.end() || !stepped.count(key))
            {
                fail("tracks:interaction-without-step",
                     fmt("event %u track %u interacted but delivered no step record", q.event,
                         q.track));
                continue;
            }
            auto const& o = vf::bk_outcomes()[q.chosen];
            TrackInfo& t = it->second;
            unsigned k = o.surviving_secondaries();
            t.children_expected += k;
            created += k;
            if (!o.survive)
            {
                t.alive = false;
                ++died;
            }
        }
        // counters
        size_t nrec = recs.size() - begin;
        if (res.generated != size_type(injected))
            fail("counters:generated", fmt("generated=%u, %d primaries given", res.generated, injected));
        if (res.active != nrec)
            fail("counters:active",
                 fmt("active=%u but %zu tracks delivered a step", res.active, nrec));
        if (res.alive > nslots)
            fail("counters:alive", fmt("alive=%u > %u slots", res.alive, nslots));
        if ((unsigned long)res.alive + res.queued != created - died)
            fail("counters:alive+queued",
                 fmt("alive=%u queued=%u but %lu tracks created and %lu finished", res.alive,
                     res.queued, created, died));
    }

    // after the loop has drained
    void finish()
    {
        for (auto const& kv : tracks)
        {
            if (kv.second.alive)
                fail("tracks:never-finished",
                     fmt("event %u track %u still alive after the loop drained", kv.first.first,
                         kv.first.second));
            if (kv.second.children_seen != kv.second.children_expected)
                fail("tracks:secondary-lost",
                     fmt("event %u track %u emitted %u surviving secondaries, %u became tracks",
                         kv.first.first, kv.first.second, kv.second.children_expected,
                         kv.second.children_seen));
        }
        for (auto const& kv : primaries_injected)
            if (primaries_started[kv.first] != kv.second)
                fail("tracks:primary-lost",
                     fmt("event %u: %u primaries given, %u started", kv.first, kv.second,
                         primaries_started[kv.first]));
        if (tracks.size() != created)
            fail("tracks:count", fmt("%zu tracks seen, %lu created", tracks.size(), created));
    }
};

//---------------------------------------------------------------------------//
struct Config
{
    unsigned slots, capacity;
    TrackOrder order;
    std::string name() const
    {
        return fmt("S=%u,Q=%u,ord=%d", slots, capacity, int(order));
    }
};

struct Replay
{
    bool overflow{false};  // capacity exceeded (exception): C16's regime
    std::string canon;
    int next_queries{-1};  // interactions that the *next* call would execute (probe)
    int last_queries{0};  // interactions executed by the last call of the history
    std::string error;  // ledger violation
    unsigned steps_to_drain{0};
};

struct Sys
{
    vf::Run& R;
    Config cfg;
    std::unique_ptr<LoopProblem> P;

    explicit Sys(vf::Run& r, Config c) : R(r), cfg(c)
    {
        vf::LoopConfig lc;
        lc.geometry = 1;
        lc.along = vf::AlongStep::linear;
        lc.slots = cfg.slots;
        lc.init_capacity = cfg.capacity;
        lc.max_events = 4;
        lc.track_order = cfg.order;
        lc.xs_gamma = 1e5;
        lc.xs_electron = 1e5;
        lc.dedx = 0;
        lc.bookkeeping = true;
        lc.at_rest_annihilation = false;
        lc.secondary_stack_factor = 3;  // 3 x slots >= 2 secondaries per slot: never starved
        P = vf::make_loop_problem(lc);
    }

    std::string canon(Stepper<MemSpace::host>& st) const
    {
        auto const& s = st.state_ref();
        auto const& cnt = st.state().counters();
        std::string c;
        for (unsigned i = 0; i < cfg.slots; ++i)
        {
            TrackSlotId ts{i};
            auto status = s.sim.status[ts];
            if (status == TrackStatus::inactive)
                c += '.';
            else
            {
                bool neutral = (s.particles.particle_id[ts] == P->gamma);
                c += status == TrackStatus::alive ? (neutral ? 'g' : 'e')
                                                  : (neutral ? 'G' : 'E');
            }
        }
        c += '|';
        for (size_type i = 0; i < cnt.num_initializers; ++i)
        {
            auto const& init = s.init.initializers[ItemId<TrackInitializer>{i}];
            c += (init.particle.particle_id == P->gamma) ? 'g' : 'e';
        }
        c += fmt("|a%u", cnt.num_alive);
        return c;
    }

    // Replay a history on a fresh stepper with the ledger; optionally drain afterwards
    Replay replay(History const& h, bool drain, bool probe_next)
    {
        Replay out;
        P->recorder->steps.clear();
        auto st = P->make_stepper();
        st->reseed(UniqueEventId{0});
        Ledger L;
        ScriptChooser ch;
        vf::g_loop_chooser = &ch;
        int gamma_id = int(P->gamma.unchecked_get());
        unsigned next_event = 0;
        size_t stepno = 0;
        try
        {
            for (auto const& op : h)
            {
                size_t begin = P->recorder->steps.size();
                ch.script = &op.choices;
                ch.log.clear();
                StepperResult res;
                unsigned ev = next_event;
                if (op.inject > 0)
                {
                    std::vector<Primary> prim;
                    for (int k = 0; k < op.inject; ++k)
                        prim.push_back(P->primary(k % 2, 1.0, {0.2 + 0.1 * k, 0.1, 0.05},
                                                  {k ? 0.0 : 1.0, k ? 1.0 : 0.0, 0}, ev));
                    next_event = (next_event + 1) % 2;
                    res = (*st)(make_span(prim));
                }
                else
                {
                    res = (*st)();
                }
                R.count("transitions");
                L.step(P->recorder->steps, begin, ch.log, res, op.inject, ev, cfg.slots, gamma_id);
                // true numbers from the state
                auto const& sr = st->state_ref();
                unsigned alive_true = 0;
                for (unsigned i = 0; i < cfg.slots; ++i)
                {
                    // secondaries initialised in place of their dying parent are
                    // "initializing" until the next pre-step; both count as alive
                    auto stt = sr.sim.status[TrackSlotId{i}];
                    alive_true += (stt == TrackStatus::alive || stt == TrackStatus::initializing);
                }
                if (alive_true != res.alive)
                    L.fail("counters:alive-vs-state",
                           fmt("alive=%u but %u slots hold an alive track", res.alive, alive_true));
                auto const& cnt = st->state().counters();
                if (cnt.num_initializers != res.queued || cnt.num_alive != res.alive
                    || cnt.num_active != res.active)
                    L.fail("counters:state-vs-result", "CoreStateCounters differ from StepperResult");
                out.last_queries = int(ch.log.size());
                if (op.choices.size() != ch.log.size() && stepno + 1 != h.size())
                    L.fail("harness:choice-count", "replayed prefix consumed a different number of choices");
                ++stepno;
            }
            out.canon = canon(*st);
            if (probe_next || drain)
            {
                // continue with the all-die default until the loop drains
                static std::vector<int> const none;
                ch.script = &none;
                unsigned guard = 0;
                StepperResult res;
                res.alive = 1;
                bool first = true;
                auto const& cnt0 = st->state().counters();
                bool more = cnt0.num_alive > 0 || cnt0.num_initializers > 0;
                while (more)
                {
                    size_t begin = P->recorder->steps.size();
                    ch.log.clear();
                    res = (*st)();
                    R.count("drain_steps");
                    if (first)
                    {
                        out.next_queries = int(ch.log.size());
                        first = false;
                        if (!drain)
                            break;
                    }
                    L.step(P->recorder->steps, begin, ch.log, res, 0, 0, cfg.slots, gamma_id);
                    more = bool(res);
                    if (++guard > 4 * (cfg.slots + cfg.capacity) + 16)
                    {
                        L.fail("tracks:loop-does-not-drain",
                               fmt("alive=%u queued=%u after %u all-die steps", res.alive,
                                   res.queued, guard));
                        break;
                    }
                }
                if (first)
                    out.next_queries = 0;
                out.steps_to_drain = guard;
                if (drain && !more)
                    L.finish();
            }
        }
        catch (RuntimeError const& e)
        {
            out.overflow = true;
        }
        vf::g_loop_chooser = nullptr;
        out.error = L.error;
        return out;
    }
};

//---------------------------------------------------------------------------//
static void enumerate_choices(int nq, std::vector<std::vector<int>>* out)
{
    std::vector<int> cur(nq, 0);
    while (true)
    {
        out->push_back(cur);
        int i = 0;
        while (i < nq && ++cur[i] == vf::bk_num_outcomes)
            cur[i++] = 0;
        if (i == nq)
            break;
    }
}

static void search(vf::Run& R, Config cfg, int max_depth, int max_primaries, uint64_t* shard_index)
{
    Sys sys(R, cfg);
    std::string const cname = cfg.name();
    struct Node
    {
        History h;
        int primaries;
    };
    std::vector<Node> frontier = {{{}, 0}};
    std::unordered_map<std::string, int> seen;  // canon -> times expanded
    std::unordered_map<std::string, std::vector<std::string>> succ_of;  // bisimulation test
    seen["<init>"] = 1;
    // replay determinism: the same history twice gives the same canon
    bool checked_determinism = false;

    if (R.replay())
    {
        std::string rc = R.replay_case();
        if (rc.compare(0, cname.size() + 1, cname + "|") != 0)
            return;
        History h = parse_history(rc.substr(cname.size() + 1));
        auto rp = sys.replay(h, true, false);
        fprintf(stderr, "replay %s: canon=%s overflow=%d error=%s\n", rc.c_str(), rp.canon.c_str(),
                int(rp.overflow), rp.error.c_str());
        for (auto const& r : sys.P->recorder->steps)
            fprintf(stderr, "  ev%u trk%u parent %d step %u slot %u particle %d action %s\n", r.event,
                    r.track, int(r.parent), r.step_count, r.slot, r.particle,
                    sys.P->action_labels[r.action].c_str());
        if (!rp.error.empty())
        {
            auto bar = rp.error.find('|');
            R.violation(rp.error.substr(0, bar), rc, rp.error.substr(bar + 1));
        }
        R.count("evaluations");
        return;
    }

    for (int depth = 0; depth < max_depth && !frontier.empty(); ++depth)
    {
        std::vector<Node> next;
        for (auto const& node : frontier)
        {
            if (R.expired())
                return;
            // how many interactions will the next call execute for each injection count?
            for (int inject = 0; inject <= 2; ++inject)
            {
                if (node.primaries + inject > max_primaries)
                    continue;
                if (node.h.empty() && inject == 0)
                    continue;  // nothing to transport
                History probe = node.h;
                probe.push_back({inject, {}});
                // run the probe op with default choices to learn the number of queries
                Replay pr;
                {
                    // the default-choice execution IS one of the transitions (all die+0)
                    sys.P->recorder->steps.clear();
                    pr = sys.replay(probe, false, false);
                }
                if (pr.overflow)
                {
                    R.tag("overflow-cut");
                    continue;
                }
                int nq = pr.last_queries;
                std::vector<std::vector<int>> all;
                enumerate_choices(nq, &all);
                for (auto const& ch : all)
                {
                    uint64_t idx = (*shard_index)++;
                    if (!R.mine(idx))
                        continue;
                    History h2 = node.h;
                    h2.push_back({inject, ch});
                    std::string cid = cname + "|" + to_string(h2);
                    R.begin_case(cid, 60);
                    Replay rp = sys.replay(h2, true, false);
                    R.count("evaluations");
                    if (!checked_determinism)
                    {
                        Replay again = sys.replay(h2, true, false);
                        if (again.canon != rp.canon || again.error != rp.error)
                            R.harness_error("replay of the same history is not deterministic: "
                                            + cid);
                        checked_determinism = true;
                    }
                    if (rp.overflow)
                    {
                        R.tag("overflow-cut");
                        R.end_case();
                        continue;
                    }
                    if (!rp.error.empty())
                    {
                        auto bar = rp.error.find('|');
                        R.violation(rp.error.substr(0, bar), cid,
                                    cname + ": " + rp.error.substr(bar + 1));
                    }
                    R.maxi("max_drain_steps", rp.steps_to_drain);
                    R.outcome(vf::hash_str(rp.canon));
                    bool fresh = R.state(vf::hash_mix(vf::hash_str(cname), vf::hash_str(rp.canon)));
                    int& times = seen[rp.canon];
                    ++times;
                    if (times <= 2)
                    {
                        // expand the first two histories of each canon (bisimulation test)
                        next.push_back({h2, node.primaries + inject});
                        if (times == 2)
                            R.count("bisimulation_pairs");
                    }
                    (void)fresh;
                    R.end_case();
                }
            }
        }
        R.maxi("depth_completed", depth + 1);
        frontier.swap(next);
    }
    if (!frontier.empty())
        R.tag("depth-bound-reached:" + cname);
    else
        R.tag("fixpoint:" + cname);
    R.nontrivial(vf::hash_str(cname));
}

int main(int argc, char** argv)
{
    vf::Run R(argc, argv, "C02", "c02_tracks");
    bool const thorough = R.thorough();
    std::vector<Config> cfgs;
    std::vector<TrackOrder> orders = {TrackOrder::none, TrackOrder::init_charge,
                                      TrackOrder::reindex_status, TrackOrder::reindex_particle_type,
                                      TrackOrder::reindex_shuffle};
    // smallest configurations first, so that a deadline cuts the largest ones
    for (unsigned s : {1u, 2u, 3u})
        for (unsigned q : {s, 2 * s, 16u})
            for (auto o : orders)
            {
                if (!thorough && q == 16u && s > 1)
                    continue;
                if (!thorough && s == 3 && (o != TrackOrder::none && o != TrackOrder::init_charge))
                    continue;
                cfgs.push_back({s, q, o});
            }
    if (thorough)
        for (auto o : orders)
            cfgs.push_back({4, 8, o});
    uint64_t shard_index = 0;
    for (auto const& c : cfgs)
    {
        int depth = thorough ? (c.slots <= 2 ? 6 : c.slots == 3 ? 4 : 3)
                             : (c.slots == 1 ? 5 : c.slots == 2 ? 3 : 2);
        search(R, c, depth, /*max_primaries=*/thorough ? 4 : 3, &shard_index);
        if (R.expired())
            break;
    }
    R.sample("S=2,Q=4,ord=0|i1:5/i1:53/i0:02/ = 2 slots, capacity 4: step 1 one primary "
             "(survive + e- + gamma), step 2 one more primary, outcomes 5 and 3, step 3 ...; "
             "then drained with all-die and checked against the ledger");
    return R.finish();
}
