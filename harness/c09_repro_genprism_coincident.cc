// Standalone minimal reproduction for the C09 finding "GenPrism end face whose LEADING vertices
// coincide loses its end plane / is rejected" (not a registered check; build by hand):
//
//   B=/verif/build/rel/celeritas
//   g++ -std=c++17 -w -O1 -I/repo/src -I$B/include -isystem /root/miniconda/include \
//       harness/c09_repro_genprism_coincident.cc -o /tmp/c09_repro_gp -L$B/lib -Wl,-rpath,$B/lib \
//       -lorange -lgeocel -lcorecel
//   CELER_LOG=error CELER_LOG_LOCAL=critical /tmp/c09_repro_gp
//
// src/orange/orangeinp/IntersectRegion.cc, GenPrism::GenPrism: whether an end face is
// "degenerate" (collapsed to a point or a segment, so that no PlaneZ is needed there) is decided
// from calc_orientation(v[0], v[1], v[2]) of that face ALONE.  A face that is a genuine triangle
// written with four points the G4GenericTrap way (two consecutive vertices coincide, which
// is_convex(..., allow_degen) accepts) is classified as degenerate whenever the duplicate is among
// the first three vertices: v0 == v1 or v1 == v2 give "collinear" although the face has area.
//   (a) one such face  -> degen_ = lo (resp. hi) -> GenPrism::build omits PlaneZ{-hz} (resp. +hz):
//       the region is unbounded below; the solid's own exterior bounding box hides that for the
//       plain shape, but not(gp), X - gp and gp | Y are wrong beyond the missing plane.
//   (b) both faces     -> "-z and +z polygons are both degenerate" is thrown for a valid
//       triangular prism.
//   (c) control: the same triangle with the duplicate at v2 == v3 (orientation of the first three
//       vertices is fine) is built correctly.
#include <iostream>

#include "corecel/data/CollectionStateStore.hh"
#include "orange/OrangeData.hh"
#include "orange/OrangeInput.hh"
#include "orange/OrangeParams.hh"
#include "orange/OrangeTrackView.hh"
#include "orange/orangeinp/CsgObject.hh"
#include "orange/orangeinp/InputBuilder.hh"
#include "orange/orangeinp/Shape.hh"
#include "orange/orangeinp/UnitProto.hh"

using namespace celeritas;
using namespace celeritas::orangeinp;
using VR2 = GenPrism::VecReal2;

std::string where(OrangeParams const& p, Real3 pos)
{
    CollectionStateStore<OrangeStateData, MemSpace::host> st(p.host_ref(), 1);
    OrangeTrackView geo(p.host_ref(), st.ref(), TrackSlotId{0});
    geo = GeoTrackInitializer{pos, Real3{0, 0, 1}};
    if (geo.failed())
        return "<failed>";
    if (geo.is_outside())
        return "<outside>";
    return p.volumes().at(geo.volume_id()).name;
}

// world box 3^3 with two materials: "gp" = the prism, "rest" = box - prism (no background)
void run(char const* what, VR2 lo, VR2 hi, std::vector<std::pair<Real3, char const*>> pts)
{
    std::cout << "== " << what << "\n";
    try
    {
        auto gp = std::make_shared<GenPrismShape>("gp", GenPrism{1.0, lo, hi});
        auto box = std::make_shared<BoxShape>("wbox", Box{Real3{3, 3, 3}});
        UnitProto::Input inp;
        inp.label = "world";
        inp.boundary.interior = box;
        inp.boundary.zorder = ZOrder::media;
        UnitProto::MaterialInput m;
        m.interior = gp;
        m.fill = GeoMaterialId{1};
        m.label = Label{"gp"};
        inp.materials.push_back(m);
        m.interior = make_subtraction("rest", box, gp);
        m.fill = GeoMaterialId{2};
        m.label = Label{"rest"};
        inp.materials.push_back(m);
        UnitProto world{std::move(inp)};
        InputBuilder::Options o;
        o.tol = Tolerance<>::from_default();
        OrangeInput oi = InputBuilder{std::move(o)}(world);
        auto const& u = std::get<UnitInput>(oi.universes[0]);
        std::cout << "   " << u.surfaces.size() << " surfaces in the unit (6 box planes + the prism's)\n";
        OrangeParams params(std::move(oi));
        for (auto const& p : pts)
            std::cout << "   point (" << p.first[0] << "," << p.first[1] << "," << p.first[2] << ") -> "
                      << where(params, p.first) << "   [documented solid: " << p.second << "]\n";
    }
    catch (std::exception const& e)
    {
        std::cout << "   construction threw: " << e.what() << "\n";
    }
}

int main()
{
    // right triangle (0.8,-0.8), (0.8,0.8), (-0.8,0): counterclockwise
    std::vector<std::pair<Real3, char const*>> pts{{{0.3, 0.0, 0.0}, "gp"},
                                                   {{0.3, 0.0, -1.5}, "rest"},
                                                   {{0.3, 0.0, -2.5}, "rest"},
                                                   {{0.3, 0.0, 1.5}, "rest"},
                                                   {{0.3, 0.0, 2.5}, "rest"}};
    run("(a) lower face = triangle with v0 == v1, upper face = quadrilateral",
        VR2{{0.8, -0.8}, {0.8, -0.8}, {0.8, 0.8}, {-0.8, 0.0}},
        VR2{{0.6, -0.7}, {0.8, -0.6}, {0.8, 0.8}, {-0.8, 0.0}}, pts);
    run("(a') upper face = triangle with v1 == v2, lower face = quadrilateral",
        VR2{{0.8, -0.8}, {0.8, 0.6}, {0.6, 0.7}, {-0.8, 0.0}},
        VR2{{0.8, -0.8}, {0.8, 0.8}, {0.8, 0.8}, {-0.8, 0.0}}, pts);
    run("(b) triangular prism, both faces written with v0 == v1",
        VR2{{0.8, -0.8}, {0.8, -0.8}, {0.8, 0.8}, {-0.8, 0.0}},
        VR2{{0.8, -0.8}, {0.8, -0.8}, {0.8, 0.8}, {-0.8, 0.0}}, pts);
    run("(c) control: lower face = the same triangle with v2 == v3",
        VR2{{0.8, -0.8}, {0.8, 0.8}, {-0.8, 0.0}, {-0.8, 0.0}},
        VR2{{0.8, -0.8}, {0.8, 0.8}, {-0.6, 0.2}, {-0.6, -0.2}}, pts);
    return 0;
}
