// Standalone reproduction: find_safety() on the exact axis of a centred cylinder / at the exact
// centre of a sphere ignores that face ("assume it's a long way off", SurfaceFunctors.hh
// CalcSafetyDistance: calc_normal -> make_unit_vector(0) = NaN -> +inf) and reports the distance to
// the NEXT nearest face, i.e. more than the true distance to the boundary.
//
// build (libraries of ./setup.sh rel):
//   g++ -std=c++17 -O1 -DNDEBUG -I/verif -I$VERIF_REPO/src -I$VERIF_BUILD/rel/celeritas/include \
//       -isystem /root/miniconda/include C11_axis_repro.cc -o axis \
//       -L$VERIF_BUILD/rel/celeritas/lib -Wl,-rpath,$VERIF_BUILD/rel/celeritas/lib \
//       -lceleritas -lorange -lgeocel -lcorecel
// run:   VERIF_REPO=/repo CELER_LOG=error ./axis
// observed on the clean snapshot /tmp/repo_clean (421fdb0; OrangeTrackView / SurfaceFunctors unchanged since 3dd8bb7):
//   simple-cms pos (0,0,100): volume=1 safety=600  distance along +x=30      <- safety 20 x too large
//   simple-cms pos (1e-09,0,100): volume=1 safety=30  distance along +x=30   <- correct beside the axis
//   g2 centre of sphere r=1: safety=inf distance=1
#include <cstdio>
#include "problems/geo_zoo.hh"
using namespace celeritas;
int main()
{
    std::string base = getenv("VERIF_REPO") ? getenv("VERIF_REPO") : "/repo";
    auto env = vf::make_env("simple-cms",
                            vf::load_org_json(base + "/test/geocel/data/simple-cms.org.json"));
    auto v = env->view(0);
    for (double x : {0.0, 1e-9})
    {
        v = GeoTrackInitializer{Real3{x, 0, 100.0}, Real3{1, 0, 0}};
        double s = v.find_safety();
        auto p = v.find_next_step();
        printf("simple-cms pos (%g,0,100): volume=%d safety=%g  distance along +x=%g\n", x,
               int(v.volume_id().unchecked_get()), s, p.distance);
    }
    auto e2 = vf::make_env("g2", vf::zoo_g2());
    auto w = e2->view(0);
    w = GeoTrackInitializer{Real3{0, 0, 0}, Real3{1, 0, 0}};
    double s = w.find_safety();
    printf("g2 centre of sphere r=1: safety=%g distance=%g\n", s, w.find_next_step().distance);
    return 0;
}
