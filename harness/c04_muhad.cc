// C04 (part "muhad") - every discrete interaction conserves energy and yields a valid final
// state: Coulomb/Wentzel single scattering, muon/hadron ionisation (Bethe-Bloch, muon
// Bethe-Bloch, Bragg, ICRU73QO energy distributions), muon bremsstrahlung and CHIPS neutron
// elastic scattering.
//
// Technique: bounded-exhaustive enumeration (E4 x E5).  For every model a finite lattice
//
//   configuration x incident particle x cut x incident energy x direction x free secondary
//   slots x scripted random prefix
//
// is enumerated *completely*; the real interactor (public headers, called exactly like the
// executors call it) is run on every lattice point with a vf::ScriptedEngine whose first
// canonicals are forced and whose continuation is the fixed declared tail, and an independent
// long-double oracle judges the returned Interaction.
//
// ---------------------------------------------------------------------------------------------
// Admissible incident-energy intervals (model applicability  /\  interactor preconditions; the
// library is built without CELER_EXPECT, so *we* keep inside them):
//
//  coulomb   e-, e+   CoulombScatteringInteractor: 0 < E < 1e8 MeV (detail::high_energy_limit,
//            strict).  The model's own limits come from imported tables (not available here);
//            we use [1e-4 MeV (lowest energy of CoulombScattering.test.cc), prev(1e8)].
//            Combined (single+multiple scattering) mode additionally needs a non-empty polar
//            range (BernoulliDistribution(xs_e, xs_n) expects one positive cross section):
//            E > E0 with 1 - a_sq_factor*A^(-2/3)/p(E0)^2 = -1.
//  ioni      MuHadIonizationInteractor<ES>: E > ES::min_secondary_energy().
//    icru73qo  mu-  (0, 0.2 MeV]  (MuIonizationProcess::build_models); we use [1e-4, 0.2]
//    bragg     mu+  (0, 0.2 MeV]                                        we use [1e-4, 0.2]
//    bethe-bloch mu-/mu+ [0.2 MeV, 1 GeV]
//    mu-bethe-bloch mu-/mu+ [0.2 MeV (no Bethe-Bloch imported), 1e8 MeV]
//    hadron extension (the interactor is documented for "muons or hadrons" but no process uses
//    it for hadrons yet): proton, Bragg [1e-3, 2 MeV], Bethe-Bloch [2 MeV, 1e5 MeV] (Geant4's
//    G4hIonisation split).  In all cases E is further restricted to E > T_min.
//  mubrems   mu-, mu+   (0, 1e8 MeV] and E > gamma cut;  we use [1e-2 MeV (lowest energy of
//            MuBremsstrahlung.test.cc), 1e8].
//  chips     neutron [1e-5 MeV, 2e4 MeV]  (NeutronElasticData::min/max_valid_energy).
//
// Oracles (all long double, none uses the helper it judges):
//  * energy balance  E_inc = E_out + sum T_sec + deposit   (no positrons are created here)
//  * momentum balance for ionisation (incident + delta electron are all products)
//  * CHIPS: the recoil nucleus is not returned, its kinetic energy is deposited locally
//    ("Kinetic energy of the scattered neutron and the recoiled nucleus"); two-body elastic
//    kinematics then demand  deposit = sqrt(|p_in - p_out|^2 + M^2) - M.
//  * Coulomb: recoil energy is deposited locally (model doc: "No secondaries are created");
//    energy balance only (the recoil formula is Geant4's approximation, not checked).
//  * mu-brems: energy balance only (nucleus takes momentum, BremFinalStateHelper).
//  * all energies finite >= 0, directions unit, ids defined, secondaries >= the model's own
//    production threshold, <= 1e4 words drawn, failure iff free slots < need, then nothing
//    emitted and the stack (size and content) untouched.
//
// Results on the unchanged tree (reproductions: harness/c04_muhad_repro.cc):
//  F1 chips:backward-limit(cos<-1)-nan          - genuine, cos(theta) not clamped -> NaN state
//  Production cuts: only the particle type the model reads (ioni: electron, mubrems: gamma, coulomb:
//  electron) carries the lattice letter `cut`; the other particle type of the table gets
//  other_cut(cut) != cut.
//  F2 (observation, not a violation of C04 as stated) bragg-icru73qo delta rays below the user cut:
//     the model's own threshold is min(cut, ..); only T >= min_secondary_energy() is required
//  O1 observation ioni:forward-limit(cos_e>1)-nan - IoniFinalStateHelper has no clamp either, but
//     it needs T = T_max to ~1e-15: measure-zero input, recorded as tag/note, not as violation.
//
// The ScriptedEngine's lower word is set to 0x00100000 (the true middle of the 2^-32 cell: the
// canonical is ((upper<<21) ^ lower) * 2^-53), so the alphabet's extreme letters give
// canonicals at the 2^-32 scale (every ~4e9 draws in production).  In the thorough tier
// two more lower fills produce canonicals at the 2^-53 scale (2^-64 events); failures seen
// *only* there are recorded as observations (tags/notes), never as violations.
#include <algorithm>
#include <cmath>
#include <cstdint>
#include <cstdlib>
#include <functional>
#include <limits>
#include <map>
#include <memory>
#include <string>
#include <vector>

#include "engine/harness.hh"
#include "engine/scripted_rng.hh"
#include "problems/interactor_env.hh"

#include "corecel/math/ArrayUtils.hh"
#include "celeritas/Constants.hh"
#include "celeritas/Quantities.hh"
#include "celeritas/Units.hh"
#include "celeritas/em/data/CoulombScatteringData.hh"
#include "celeritas/em/data/MuBremsstrahlungData.hh"
#include "celeritas/em/data/MuHadIonizationData.hh"
#include "celeritas/em/distribution/BetheBlochEnergyDistribution.hh"
#include "celeritas/em/distribution/BraggICRU73QOEnergyDistribution.hh"
#include "celeritas/em/distribution/MuBBEnergyDistribution.hh"
#include "celeritas/em/interactor/CoulombScatteringInteractor.hh"
#include "celeritas/em/interactor/MuBremsstrahlungInteractor.hh"
#include "celeritas/em/interactor/MuHadIonizationInteractor.hh"
#include "celeritas/em/params/WentzelOKVIParams.hh"
#include "celeritas/em/xs/WentzelHelper.hh"
#include "celeritas/io/NeutronXsReader.hh"
#include "celeritas/neutron/interactor/ChipsNeutronElasticInteractor.hh"
#include "celeritas/neutron/model/ChipsNeutronElasticModel.hh"
#include "celeritas/phys/Interaction.hh"

using namespace celeritas;
namespace pdg = celeritas::pdg;
using celeritas::units::MevEnergy;
using celeritas::units::MevMass;
using vf::fmt;
using LD = long double;

namespace
{
//---------------------------------------------------------------------------//
constexpr LD eps = std::numeric_limits<double>::epsilon();  // 2^-52
constexpr uint32_t mid_cell = 0x00100000u;  // lower word in the middle of the 2^-32 cell
constexpr uint64_t max_words = 10000;

double nxt(double x) { return std::nextafter(x, INFINITY); }
double prv(double x) { return std::nextafter(x, -INFINITY); }

// Production cut given to the particle type whose cut the model under test must NOT read
// (ionisation: gamma; mu-brems: electron; Coulomb: positron): never equal to `cut`, so that a cut
// looked up with the wrong particle id moves the interact/unchanged switch and the
// secondary-below-threshold oracle.
inline double other_cut(double cut)
{
    return cut == 1e-3 ? 1e-2 : 1e-3;
}

struct Script
{
    std::vector<uint32_t> up;
    uint32_t lower;
    bool extreme;  // 2^-53-scale canonicals: observation only
};

//! Canonical produced for the i-th scripted position (same formula as GenerateCanonical32)
double canonical_of(Script const& s, size_t i)
{
    uint64_t v = (uint64_t(s.up[i]) << 21) ^ uint64_t(s.lower);
    return double(v) * 1.1102230246251565e-16;
}

std::string script_str(Script const& s)
{
    std::string r;
    for (size_t i = 0; i < s.up.size(); ++i)
        r += fmt("%s%08x", i ? "," : "", s.up[i]);
    r += fmt("/%08x", s.lower);
    return r;
}

std::vector<Script> make_scripts(bool thorough)
{
    std::vector<Script> out;
    auto const& a5 = vf::alphabet_u5();
    for (uint32_t a : a5)
        for (uint32_t b : a5)
            for (uint32_t c : a5)
                for (uint32_t d : a5)
                    out.push_back({{a, b, c, d}, mid_cell, false});
    if (thorough)
    {
        // deviation-bounded: <= 2 non-default canonicals anywhere in the first 16 draws
        auto const& a7 = vf::alphabet_u7();
        uint32_t const dflt = 0x80000000u;
        int const n = 16;
        std::vector<uint32_t> dev;
        for (uint32_t w : a7)
            if (w != dflt)
                dev.push_back(w);
        std::vector<uint32_t> base(n, dflt);
        auto add01 = [&](uint32_t lower, bool extreme) {
            out.push_back({base, lower, extreme});
            for (int p = 0; p < n; ++p)
                for (uint32_t w : dev)
                {
                    auto s = base;
                    s[p] = w;
                    out.push_back({s, lower, extreme});
                }
        };
        add01(mid_cell, false);
        for (int p = 0; p < n; ++p)
            for (int q = p + 1; q < n; ++q)
                for (uint32_t w1 : dev)
                    for (uint32_t w2 : dev)
                    {
                        auto s = base;
                        s[p] = w1;
                        s[q] = w2;
                        out.push_back({s, mid_cell, false});
                    }
        // 2^-53-scale canonicals (upper 0 -> 2^-53; upper ffffffff -> 1-2^-53): observations
        add01(0x00000001u, true);
        add01(0x001fffffu, true);
    }
    return out;
}

//---------------------------------------------------------------------------//
//! smallest double in (lo, hi] for which pred is true; requires !pred(lo) && pred(hi)
double bisect(std::function<bool(double)> const& pred, double lo, double hi)
{
    while (nxt(lo) < hi)
    {
        double mid = (lo > 0 && hi / lo > 4) ? std::sqrt(lo) * std::sqrt(hi) : lo + (hi - lo) / 2;
        if (!(mid > lo && mid < hi))
            mid = nxt(lo);
        if (pred(mid))
            hi = mid;
        else
            lo = mid;
    }
    return hi;
}

//! add a monotone predicate's switching point (and +-2 ulp) to a threshold list
void add_switch(std::vector<double>& thr, std::function<bool(double)> const& pred, double lo,
                double hi)
{
    if (!(lo < hi) || pred(lo) == pred(hi))
        return;
    bool const rising = pred(hi);
    double t = bisect([&](double e) { return pred(e) == rising; }, lo, hi);
    thr.push_back(t);
    thr.push_back(prv(prv(t)));
    thr.push_back(nxt(nxt(t)));
}

LD mom(LD mass, LD ke) { return std::sqrt(ke * (ke + 2 * mass)); }

bool fin_nonneg(double x) { return std::isfinite(x) && x >= 0; }

//! | |d| - 1 |, or infinity when a component is not finite
LD unit_err(Real3 const& d)
{
    LD n2 = 0;
    for (int i = 0; i < 3; ++i)
    {
        if (!std::isfinite(d[i]))
            return INFINITY;
        n2 += LD(d[i]) * d[i];
    }
    return std::fabs(std::sqrt(n2) - 1);
}
// make_unit_vector: 3 products, 2 sums, sqrt, 3 quotients -> <= ~4 ulp; 64 ulp allowed
constexpr LD dir_tol = 64 * eps;

//---------------------------------------------------------------------------//
struct Ctx
{
    vf::Run& R;
    vf::InteractorEnv env;
    std::vector<Script> scripts;
    std::vector<Real3> dirs;
    bool thorough;
    uint64_t seed;
    uint64_t block = 0;
    std::string only_model;  // VERIF_C04_MODEL: run a single model (debugging)

    // per-block accumulation (flushed by end_block)
    std::string cid;
    std::string model;  // "<model>/<particle>": tag and counter prefix
    std::string sig;  // "<model>": signature prefix (one signature per model and check)
    std::map<std::string, uint64_t> tags;
    uint64_t evals = 0;
    uint64_t ohash = 0;

    explicit Ctx(vf::Run& r) : R(r) {}

    //! true if this block is to be executed by this process
    bool begin_block(std::string const& mdl, std::string const& id)
    {
        uint64_t const idx = block++;
        if (!R.mine(idx))
            return false;
        if (R.expired())
            return false;
        if (!R.want(id))
            return false;
        model = mdl;
        sig = mdl.substr(0, mdl.find('/'));
        cid = id;
        tags.clear();
        evals = 0;
        ohash = vf::hash_str(id);
        R.begin_case(id, 120);
        return true;
    }
    void tag(char const* t) { ++tags[t]; }
    void end_block()
    {
        R.count("evaluations", evals);
        R.count("n:" + model, evals);
        R.count("blocks");
        for (auto const& kv : tags)
        {
            R.tag(model + ":" + kv.first, kv.second);
            // non-trivial case class = (lattice block, non-default branch reached)
            if (kv.first != "ok")
                R.nontrivial(vf::hash_mix(vf::hash_str(cid), vf::hash_str(kv.first)));
        }
        R.outcome(ohash);
        R.end_case();
    }
    //! report: extreme (2^-53 scale) scripts only produce observations
    void fail(Script const& sc, std::string const& sig, std::string const& elem,
              std::string const& msg)
    {
        if (sc.extreme)
        {
            R.tag("observation(2^-53-canonical):" + sig);
            R.note("observation:" + sig, cid + " " + elem + " : " + msg);
            return;
        }
        R.violation(sig, cid, elem + " : " + msg);
    }
    void words(uint64_t w)
    {
        R.maxi(("max_words:" + model).c_str(), w);
    }
};

std::string elem_str(int di, unsigned free_slots, Script const& sc)
{
    return fmt("dir=%d free=%u script=%s", di, free_slots, script_str(sc).c_str());
}

//---------------------------------------------------------------------------//
/*!
 * Checks shared by all models.  \c need = number of secondaries the interaction must
 * allocate (0/1), or -1 when the harness cannot decide (kinematic limit within rounding of
 * the production threshold).  Returns false if the result must not be inspected further.
 */
bool common_checks(Ctx& C, Script const& sc, std::string const& el, Interaction const& r,
                   uint64_t nwords, unsigned free_slots, int need, bool may_be_unchanged,
                   ParticleId sec_id, std::string const& nan_sig = {}, bool nan_obs = false)
{
    using Action = Interaction::Action;
    auto& env = C.env;
    std::string const& m = C.sig;
    C.words(nwords);
    if (nwords > max_words)
        C.fail(sc, m + ":draw-bound", el, fmt("%llu words drawn", (unsigned long long)nwords));
    if (!env.sentinels_intact())
        C.fail(sc, m + ":stack-corrupted", el, "pre-existing secondaries were overwritten");

    unsigned const occupied = env.occupied();
    unsigned const size = env.stack_size();
    if (r.action == Action::failed)
    {
        C.tag("failed");
        if (need >= 0 && free_slots >= unsigned(need))
            C.fail(sc, m + ":spurious-failure", el,
                   fmt("failed with %u free slots, need %d", free_slots, need));
        if (need < 0 && free_slots >= 1)
            C.fail(sc, m + ":spurious-failure", el, fmt("failed with %u free slots", free_slots));
        if (!r.secondaries.empty())
            C.fail(sc, m + ":failure-emits", el, "failed interaction references secondaries");
        if (size != occupied)
            C.fail(sc, m + ":failure-emits", el,
                   fmt("stack size %u != %u after failure", size, occupied));
        return false;
    }
    if (need >= 0 && free_slots < unsigned(need))
    {
        C.fail(sc, m + ":missing-failure", el,
               fmt("action=%d with %u free slots, need %d", int(r.action), free_slots, need));
        return false;
    }
    if (r.action == Action::unchanged)
    {
        C.tag("unchanged");
        if (!may_be_unchanged || need == 1)
            C.fail(sc, m + ":spurious-unchanged", el, "interaction reported no state change");
        if (!r.secondaries.empty() || size != occupied)
            C.fail(sc, m + ":unchanged-emits", el, "unchanged interaction emitted secondaries");
        if (!(r.energy_deposition.value() == 0))
            C.fail(sc, m + ":unchanged-emits", el, "unchanged interaction deposits energy");
        return false;
    }
    if (r.action != Action::scattered)
    {
        C.fail(sc, m + ":bad-action", el, fmt("action=%d", int(r.action)));
        return false;
    }
    if (need == 0 && !may_be_unchanged && !r.secondaries.empty())
        C.fail(sc, m + ":unexpected-secondary", el, "model without secondaries emitted one");
    if (need == 0 && may_be_unchanged)
        C.fail(sc, m + ":below-threshold-interaction", el,
               "interaction although T_max <= T_min (no phase space)");
    // the stack holds exactly what the interaction references
    if (size != occupied + r.secondaries.size())
        C.fail(sc, m + ":stack-size", el,
               fmt("stack size %u, occupied %u, referenced %u", size, occupied,
                   unsigned(r.secondaries.size())));
    if (!r.secondaries.empty())
    {
        auto all = env.secondary_allocator().get();
        if (all.size() < occupied + r.secondaries.size()
            || r.secondaries.data() != all.data() + occupied)
            C.fail(sc, m + ":stack-size", el, "secondaries span is not the allocated slot");
    }
    // A caller that has identified the root cause of a non-finite final state (from the
    // *inputs* of the final-state computation, see the call sites) reports it once under
    // that signature instead of once per affected field.
    if (!nan_sig.empty())
    {
        bool nan = !std::isfinite(r.energy.value()) || !std::isfinite(r.energy_deposition.value())
                   || !std::isfinite(unit_err(r.direction));
        for (auto const& s : r.secondaries)
            nan = nan || !std::isfinite(s.energy.value()) || !std::isfinite(unit_err(s.direction));
        if (nan)
        {
            std::string msg = fmt("non-finite final state: E_out=%.17g dep=%.17g dir=(%g,%g,%g)",
                                  r.energy.value(), r.energy_deposition.value(), r.direction[0],
                                  r.direction[1], r.direction[2]);
            if (nan_obs)
            {
                C.tag(("observation:" + nan_sig).c_str());
                C.R.note("observation:" + nan_sig, C.cid + " " + el + " : " + msg);
            }
            else
                C.fail(sc, nan_sig, el, msg);
            return false;
        }
    }
    // primary
    bool ok = true;
    if (!fin_nonneg(r.energy.value()))
    {
        C.fail(sc, m + ":energy-invalid", el, fmt("primary energy %.17g", r.energy.value()));
        ok = false;
    }
    if (!fin_nonneg(r.energy_deposition.value()))
    {
        C.fail(sc, m + ":energy-invalid", el,
               fmt("energy deposition %.17g", r.energy_deposition.value()));
        ok = false;
    }
    LD de = unit_err(r.direction);
    if (!(de <= dir_tol))
    {
        C.fail(sc, m + ":direction-invalid", el,
               fmt("primary direction (%.17g,%.17g,%.17g) | |d|-1 | = %Lg", r.direction[0],
                   r.direction[1], r.direction[2], de));
        ok = false;
    }
    for (auto const& s : r.secondaries)
    {
        if (!(s.particle_id == sec_id))
        {
            C.fail(sc, m + ":secondary-id", el,
                   fmt("secondary particle id %u, expected %u", s.particle_id.unchecked_get(),
                       sec_id.unchecked_get()));
            ok = false;
        }
        if (!fin_nonneg(s.energy.value()))
        {
            C.fail(sc, m + ":energy-invalid", el, fmt("secondary energy %.17g", s.energy.value()));
            ok = false;
        }
        LD ds = unit_err(s.direction);
        if (!(ds <= dir_tol))
        {
            C.fail(sc, m + ":direction-invalid", el,
                   fmt("secondary direction (%.17g,%.17g,%.17g) | |d|-1 | = %Lg", s.direction[0],
                       s.direction[1], s.direction[2], ds));
            ok = false;
        }
    }
    return ok;
}

void mix_outcome(Ctx& C, Interaction const& r)
{
    double v[2] = {r.energy.value(), r.energy_deposition.value()};
    C.ohash = vf::fnv1a(v, sizeof v, C.ohash);
    C.ohash = vf::fnv1a(&r.direction, sizeof(Real3), C.ohash);
}

//---------------------------------------------------------------------------//
// MATERIALS shared by all models of this part
//---------------------------------------------------------------------------//
MaterialParams::Input make_materials()
{
    using namespace celeritas::units;
    MaterialParams::Input m;
    auto iso = [](int z, int a, double be, double mass, char const* name) {
        MaterialParams::IsotopeInput i;
        i.atomic_number = AtomicNumber{z};
        i.atomic_mass_number = AtomicNumber{a};
        i.binding_energy = MevEnergy{be};
        i.proton_loss_energy = MevEnergy{be > 0 ? 5.0 : 0.0};
        i.neutron_loss_energy = MevEnergy{be > 0 ? 7.0 : 0.0};
        i.nuclear_mass = MevMass{mass};
        i.label = Label{name};
        return i;
    };
    m.isotopes = {iso(1, 1, 0.0, 938.27208816, "1H"),  // 0
                  iso(2, 3, 7.718, 2808.391, "3He"),  // 1
                  iso(2, 4, 28.296, 3727.379, "4He"),  // 2
                  iso(3, 6, 31.994, 5601.518, "6Li"),  // 3  (A = 6: last "light" CHIPS nucleus)
                  iso(3, 7, 39.245, 6533.833, "7Li"),  // 4  (A = 7: first "heavy" one)
                  iso(29, 63, 551.384, 58618.5, "63Cu"),  // 5
                  iso(29, 65, 569.211, 60479.8, "65Cu"),  // 6
                  iso(82, 208, 1636.43, 193687.1, "208Pb")};  // 7
    m.elements = {
        {AtomicNumber{1}, AmuMass{1.008}, {{IsotopeId{0}, 1.0}}, Label{"H"}},
        {AtomicNumber{2}, AmuMass{4.0026}, {{IsotopeId{1}, 0.001}, {IsotopeId{2}, 0.999}}, Label{"He"}},
        {AtomicNumber{3}, AmuMass{6.94}, {{IsotopeId{3}, 0.076}, {IsotopeId{4}, 0.924}}, Label{"Li"}},
        {AtomicNumber{29}, AmuMass{63.546}, {{IsotopeId{5}, 0.692}, {IsotopeId{6}, 0.308}}, Label{"Cu"}},
        {AtomicNumber{82}, AmuMass{207.2}, {{IsotopeId{7}, 1.0}}, Label{"Pb"}},
    };
    auto mat = [](double dens, std::vector<std::pair<ElementId, real_type>> el, char const* name) {
        MaterialParams::MaterialInput mi;
        mi.number_density = native_value_from(MolCcDensity{dens});
        mi.temperature = 293.0;
        mi.matter_state = MatterState::solid;
        mi.elements_fractions = std::move(el);
        mi.label = Label{name};
        return mi;
    };
    m.materials = {mat(0.05, {{ElementId{0}, 1.0}}, "H"),
                   mat(0.01, {{ElementId{1}, 1.0}}, "He"),
                   mat(0.08, {{ElementId{2}, 1.0}}, "Li"),
                   mat(0.141, {{ElementId{3}, 1.0}}, "Cu"),
                   mat(0.055, {{ElementId{4}, 1.0}}, "Pb"),
                   mat(0.1, {{ElementId{0}, 0.5}, {ElementId{3}, 0.3}, {ElementId{4}, 0.2}}, "Mix")};
    return m;
}

//---------------------------------------------------------------------------//
// IONISATION
//---------------------------------------------------------------------------//
//! Kinematic maximum of the delta-ray energy (PRM 11.2 eq. for T_max), long double
LD ioni_tmax(LD me, LD mass, LD ke)
{
    LD r = me / mass;
    LD tau = ke / mass;
    return 2 * me * tau * (tau + 2) / (1 + 2 * (tau + 1) * r + r * r);
}

struct IoniSpec
{
    char const* model;
    PDGNumber inc;
    double elo, ehi;  // applicability (see top comment)
    std::vector<double> cuts;  // electron production cuts
    bool bragg_rule;  // T_min = min(cut, lowest * M / m_p)  (BraggICRU73QOEnergyDistribution)
    std::vector<double> thresholds;  // model-internal switches in incident energy
};

template<class ES>
void run_ioni(Ctx& C, IoniSpec const& S)
{
    if (!C.only_model.empty() && C.only_model != S.model && C.only_model != "ioni")
        return;
    auto& env = C.env;
    ParticleId const inc = env.pid(S.inc);
    ParticleId const eid = env.pid(pdg::electron());
    LD const me = env.mass(eid);
    LD const M = env.mass(inc);
    MuHadIonizationData data;
    data.electron = eid;
    data.electron_mass = env.particle_params()->get(eid).mass();
    std::string const pname = env.particle_params()->id_to_label(inc);
    std::string const mdl = std::string(S.model) + "/" + pname;
    unsigned const frees[3] = {0u, 1u, 4u};
    env.resize_secondaries(4);
    env.set_material("Cu");

    for (double cut : S.cuts)
    {
        // The model's own production threshold.  Bethe-Bloch / muon Bethe-Bloch: the cut.
        // BraggICRU73QOEnergyDistribution as written: min(cut, lowest * M / m_p); the Geant4
        // models it ports use max(lowest * M / m_p, min(cut, T_max)).  The harness accepts
        // either for the interact/unchanged decision and for the lower bound of T, stays
        // inside E > T_min for both, and checks T >= cut separately (the property's
        // "secondaries above the production threshold").
        LD tmin = cut, tmin_alt = cut;
        if (S.bragg_rule)
        {
            env.set_inc_particle(inc, MevEnergy{1.0});
            bool const neg = env.particle_track().charge().value() < 0;
            LD const mp = native_value_to<MevMass>(constants::proton_mass).value();
            LD const lowest = (neg ? LD(5e-3) : LD(2.5e-4)) * M / mp;
            tmin = std::min<LD>(cut, lowest);
            tmin_alt = std::max<LD>(cut, lowest);
        }
        double elo = std::max(S.elo, nxt(nxt(double(tmin_alt))));
        if (!(elo < S.ehi))
            continue;
        std::vector<double> thr = S.thresholds;
        // unchanged/interact switch: T_max(E) = T_min
        add_switch(thr, [&](double e) { return ioni_tmax(me, M, e) > tmin; }, elo, S.ehi);
        if (tmin_alt != tmin)
            add_switch(thr, [&](double e) { return ioni_tmax(me, M, e) > tmin_alt; }, elo, S.ehi);
        std::vector<double> const energies
            = vf::energy_alphabet(elo, S.ehi, C.thorough ? 12 : 6, thr);
        // the cut of the particle the model must NOT read is a different number
        env.set_cutoffs({{pdg::electron(), MevEnergy{cut}}, {pdg::gamma(), MevEnergy{other_cut(cut)}}});

        for (double E : energies)
        {
            std::string const cid = fmt("%s|cut=%a|E=%a", mdl.c_str(), cut, E);
            if (!C.begin_block(mdl, cid))
                continue;
            env.set_inc_particle(inc, MevEnergy{E});
            LD const tmax = ioni_tmax(me, M, E);
            // need: 1 if T_min < T_max, 0 if not; undecidable within rounding of the
            // double-precision evaluation of T_max (<= 8 operations)
            int need = tmin < tmax ? 1 : 0;
            if (std::fabs(tmax - tmin) <= 16 * eps * tmax)
            {
                need = -1;
                C.tag("threshold-within-rounding");
            }
            if (tmin_alt != tmin
                && ((tmin_alt < tmax) != (tmin < tmax)
                    || std::fabs(tmax - tmin_alt) <= 16 * eps * tmax))
            {
                need = -1;
                C.tag("threshold-rule-ambiguous(min-vs-max)");
            }
            LD const P = mom(M, E);
            for (size_t di = 0; di < C.dirs.size(); ++di)
            {
                env.set_inc_direction(C.dirs[di]);
                Real3 const din = env.direction();
                for (unsigned fr : frees)
                {
                    MuHadIonizationInteractor<ES> interact(data, env.particle_track(),
                                                           env.cutoff_view(), env.direction(),
                                                           env.secondary_allocator());
                    for (Script const& sc : C.scripts)
                    {
                        env.set_free_slots(fr);
                        vf::ScriptedEngine eng(sc.up, C.seed, sc.lower);
                        Interaction r = interact(eng);
                        ++C.evals;
                        uint64_t const nw = eng.words();
                        auto elem = [&]() { return elem_str(int(di), fr, sc); };
                        // Root cause of a non-finite final state.  IoniFinalStateHelper
                        // computes cos(theta_e) = T (E + M + m) / (p_e P) (5 roundings) and
                        // takes sqrt(1 - cos^2) without a clamp.  If the *exact* cosine for
                        // the returned T is within 16 ulp of 1 (T = T_max to rounding), the
                        // NaN is that missing clamp.  Reaching it needs a canonical within
                        // ~1e-15 of 0 or an incident energy within ~1e-15 (relative) of
                        // T_max(E) = T_min: measure-zero inputs -> observation, not alarm.
                        std::string nan_sig;
                        bool nan_obs = false;
                        if (r.action == Interaction::Action::scattered && r.secondaries.size() == 1)
                        {
                            LD const T = r.secondaries.front().energy.value();
                            if (std::isfinite(T) && T > 0)
                            {
                                LD const c = T * (LD(E) + M + me) / (mom(me, T) * P);
                                nan_sig = "ioni:nan-final-state";
                                if (std::fabs(c - 1) <= 16 * eps)
                                {
                                    nan_sig = "ioni:forward-limit(cos_e>1)-nan";
                                    nan_obs = true;
                                }
                                else if (c > 1)
                                {
                                    // T beyond the kinematic maximum: not a rounding artefact
                                    nan_sig = "ioni:secondary-above-tmax";
                                }
                            }
                        }
                        if (!common_checks(C, sc, elem(), r, nw, fr, need, true, eid, nan_sig,
                                           nan_obs))
                            continue;
                        mix_outcome(C, r);
                        if (r.secondaries.size() != 1)
                        {
                            C.fail(sc, C.sig + ":secondary-count", elem(),
                                   fmt("%u secondaries", unsigned(r.secondaries.size())));
                            continue;
                        }
                        C.tag("ok");
                        if (nw > 6)
                            C.tag("rejection-retry");
                        Secondary const& s = r.secondaries.front();
                        LD const T = s.energy.value();
                        LD const Eo = r.energy.value();
                        // InverseSquareDistribution: a*b/(a + u(b-a)) - 4 roundings
                        if (!(T >= tmin * (1 - 4 * eps)))
                            C.fail(sc, C.sig + ":secondary-below-threshold", elem(),
                                   fmt("T=%.17Lg < T_min=%.17Lg", T, tmin));
                        // the production cut handed to the interactor (4 roundings as above)
                        // The property only promises "secondaries above the model's OWN
                        // production threshold" (= min_secondary_energy(), checked above). The
                        // Bragg/ICRU73QO distribution defines that threshold as
                        // min(cut, lowest*M/m_p), so delta rays below the user's production cut
                        // are within its documented behaviour: recorded as an observation only.
                        if (!(T >= LD(cut) * (1 - 4 * eps)))
                            C.tag((std::string(S.bragg_rule ? "bragg-icru73qo" : S.model)
                                   + ":observation:secondary-below-user-production-cut")
                                      .c_str());
                        if (!(r.energy_deposition.value() == 0))
                            C.tag("deposit");
                        // energy: E_out = fl(E - T), one rounding; the long double sum is exact
                        LD const ebal = std::fabs(LD(E) - (Eo + T + LD(r.energy_deposition.value())));
                        if (!(ebal <= 2 * eps * E))
                            C.fail(sc, C.sig + ":energy-balance", elem(),
                                   fmt("E=%.17g E_out=%.17Lg T=%.17Lg dep=%.17g imbalance=%Lg", E, Eo,
                                       T, r.energy_deposition.value(), ebal));
                        // momentum: P d_in = p_o d_o + p_e d_e.
                        // Rounding model.  d_o is the normalised fl(P d_in - p_e d_e)
                        // [error <= ~4 eps (P+p_e)], so the residual is | |v| - p_o | with
                        // |v|^2 = P^2 + p_e^2 - 2 P p_e c; c = cos(theta) carries ~8 eps
                        // (5 operations + rotation) -> P p_e/p_o * 8 eps; p_o is taken
                        // from E_out = fl(E - T) -> (eps E / 2) / beta_o.  16 eps x scale
                        // bounds the sum with margin (observed maximum is reported).
                        LD const pe = mom(me, T);
                        LD const po = mom(M, Eo);
                        LD res2 = 0;
                        for (int i = 0; i < 3; ++i)
                        {
                            LD c = P * din[i] - pe * s.direction[i] - po * r.direction[i];
                            res2 += c * c;
                        }
                        LD const res = std::sqrt(res2);
                        LD const beta_o = po > 0 ? po / (Eo + M) : 1;
                        LD const scale = (P + pe) + (po > 0 ? P * pe / po : P) + LD(E) / beta_o;
                        if (!(res <= 16 * eps * scale))
                            C.fail(sc, C.sig + ":momentum-balance", elem(),
                                   fmt("|p_in - p_out - p_e| = %Lg (%.3Lg eps*scale) E=%.17g T=%.17Lg "
                                       "cos(e)=%.17Lg",
                                       res, res / (eps * scale), E, T,
                                       LD(din[0]) * s.direction[0] + LD(din[1]) * s.direction[1]
                                           + LD(din[2]) * s.direction[2]));
                        C.R.maxi(("max_p_residual_milli_eps:" + mdl).c_str(),
                                 uint64_t(1000 * res / (eps * scale)));
                    }
                }
            }
            if (E == energies.front() && cut == S.cuts.front())
                C.R.sample(fmt("%s: %zu dirs x 3 stack states x %zu scripts", cid.c_str(),
                               C.dirs.size(), C.scripts.size()));
            C.end_block();
        }
    }
}

//---------------------------------------------------------------------------//
// MUON BREMSSTRAHLUNG
//---------------------------------------------------------------------------//
void run_mubrems(Ctx& C)
{
    if (!C.only_model.empty() && C.only_model != "mubrems")
        return;
    auto& env = C.env;
    ParticleId const gid = env.pid(pdg::gamma());
    ParticleId const eid = env.pid(pdg::electron());
    MuBremsstrahlungData data;
    data.gamma = gid;
    data.mu_minus = env.pid(pdg::mu_minus());
    data.mu_plus = env.pid(pdg::mu_plus());
    data.electron_mass = env.particle_params()->get(eid).mass();
    LD const me = env.mass(eid);
    unsigned const frees[3] = {0u, 1u, 4u};
    env.resize_secondaries(4);
    struct Target
    {
        char const* mat;
        int elcomp;
    };
    // Z = 1 has its own constants (b, b', no d_n exponent); Mix/2 = Pb through a compound
    std::vector<Target> const targets = {{"H", 0}, {"Cu", 0}, {"Pb", 0}, {"Mix", 2}};
    std::vector<double> const cuts = {1e-6, 1e-3, 1.0, 1e3};
    double const elo_model = 1e-2, ehi_model = 1e8;

    for (PDGNumber pn : {pdg::mu_minus(), pdg::mu_plus()})
    {
        ParticleId const inc = env.pid(pn);
        LD const M = env.mass(inc);
        std::string const pname = env.particle_params()->id_to_label(inc);
        for (Target const& tg : targets)
        {
            env.set_material(tg.mat);
            std::string const mdl = std::string("mubrems/") + pname;
            for (double cut : cuts)
            {
                double const elo = std::max(elo_model, nxt(cut));
                std::vector<double> thr;
                // photon energy above which electrons do not contribute reaches the
                // kinematic limit: E_tot / (1 + M^2/(2 m E_tot)) < E
                add_switch(thr,
                           [&](double e) {
                               LD et = LD(e) + M;
                               return et / (1 + M * M / (2 * me * et)) < LD(e);
                           },
                           elo, ehi_model);
                std::vector<double> const energies
                    = vf::energy_alphabet(elo, ehi_model, C.thorough ? 8 : 6, thr);
                env.set_cutoffs(
                    {{pdg::gamma(), MevEnergy{cut}}, {pdg::electron(), MevEnergy{other_cut(cut)}}});
                for (double E : energies)
                {
                    std::string const cid
                        = fmt("%s|%s/%d|cut=%a|E=%a", mdl.c_str(), tg.mat, tg.elcomp, cut, E);
                    if (!C.begin_block(mdl, cid))
                        continue;
                    env.set_inc_particle(inc, MevEnergy{E});
                    LD const etot = LD(E) + M;
                    LD const emp = etot / (1 + M * M / (2 * me * etot));
                    for (size_t di = 0; di < C.dirs.size(); ++di)
                    {
                        env.set_inc_direction(C.dirs[di]);
                        for (unsigned fr : frees)
                        {
                            MuBremsstrahlungInteractor interact(
                                data, env.particle_track(), env.direction(), env.cutoff_view(),
                                env.secondary_allocator(), env.material_view(),
                                ElementComponentId(tg.elcomp));
                            for (Script const& sc : C.scripts)
                            {
                                env.set_free_slots(fr);
                                vf::ScriptedEngine eng(sc.up, C.seed, sc.lower);
                                Interaction r = interact(eng);
                                ++C.evals;
                                uint64_t const nw = eng.words();
                                auto elem = [&]() { return elem_str(int(di), fr, sc); };
                                if (!common_checks(C, sc, elem(), r, nw, fr, 1, false, gid))
                                    continue;
                                mix_outcome(C, r);
                                if (r.secondaries.size() != 1)
                                {
                                    C.fail(sc, C.sig + ":secondary-count", elem(),
                                           fmt("%u secondaries", unsigned(r.secondaries.size())));
                                    continue;
                                }
                                C.tag("ok");
                                if (nw > 8)
                                    C.tag("rejection-retry");
                                if (nw > 200)
                                    C.tag("rejection-retry>100");
                                LD const k = r.secondaries.front().energy.value();
                                LD const Eo = r.energy.value();
                                if (k > etot / 2)
                                    C.tag("k>E_tot/2(angular-limit<1)");
                                if (k >= emp)
                                    C.tag("k>=electron-limit(phi_e=0)");
                                if (Eo == 0)
                                    C.tag("muon-stopped");
                                // ReciprocalDistribution: a * exp(log(b/a) u) >= a up to 1 rounding
                                if (!(k >= LD(cut) * (1 - 4 * eps)))
                                    C.fail(sc, C.sig + ":secondary-below-threshold", elem(),
                                           fmt("k=%.17Lg < cut=%.17g", k, cut));
                                if (!(r.energy_deposition.value() == 0))
                                    C.tag("deposit");
                                LD const ebal = std::fabs(
                                    LD(E) - (Eo + k + LD(r.energy_deposition.value())));
                                if (!(ebal <= 2 * eps * E))
                                    C.fail(sc, C.sig + ":energy-balance", elem(),
                                           fmt("E=%.17g E_out=%.17Lg k=%.17Lg imbalance=%Lg", E, Eo, k,
                                               ebal));
                            }
                        }
                    }
                    if (E == energies.front() && cut == cuts.front())
                        C.R.sample(fmt("%s: %zu dirs x 3 stack states x %zu scripts", cid.c_str(),
                                       C.dirs.size(), C.scripts.size()));
                    C.end_block();
                }
            }
        }
    }
}

//---------------------------------------------------------------------------//
// COULOMB / WENTZEL
//---------------------------------------------------------------------------//
void run_coulomb(Ctx& C)
{
    if (!C.only_model.empty() && C.only_model != "coulomb")
        return;
    auto& env = C.env;
    CoulombScatteringData data;
    data.ids.electron = env.pid(pdg::electron());
    data.ids.positron = env.pid(pdg::positron());
    LD const me = env.mass(data.ids.electron);
    env.resize_secondaries(4);

    struct Config
    {
        char const* name;
        bool combined;
        double polar_limit;
        NuclearFormFactorType ff;
    };
    std::vector<Config> const configs = {
        {"single/exp", false, 0.0, NuclearFormFactorType::exponential},
        {"single/none", false, 0.0, NuclearFormFactorType::none},
        {"single/flat", false, 0.0, NuclearFormFactorType::flat},
        {"single/gauss", false, 0.0, NuclearFormFactorType::gaussian},
        {"combined-pi/exp", true, double(constants::pi), NuclearFormFactorType::exponential},
        {"combined-0.2/flat", true, 0.2, NuclearFormFactorType::flat},
    };
    struct Target
    {
        char const* mat;
        int elcomp, isocomp;
    };
    // Z = 1 skips the screening correction; two isotopes of one element; high Z; compound
    std::vector<Target> const targets
        = {{"H", 0, 0}, {"Cu", 0, 0}, {"Cu", 0, 1}, {"Pb", 0, 0}, {"Mix", 1, 0}};
    // electron production cut: tiny / as in the unit test / above every incident energy
    std::vector<double> const cuts = {1e-5, 0.5, 2e8};
    double const elo_model = 1e-4;
    double const ehi_model = prv(1e8);

    for (Config const& cf : configs)
    {
        WentzelOKVIParams::Options opt;
        opt.is_combined = cf.combined;
        opt.polar_angle_limit = cf.polar_limit;
        opt.form_factor = cf.ff;
        auto wentzel = std::make_shared<WentzelOKVIParams>(env.material_params(), opt);
        auto const& wref = wentzel->host_ref();

        for (PDGNumber pn : {pdg::electron(), pdg::positron()})
        {
            ParticleId const inc = env.pid(pn);
            bool const is_electron = (inc == data.ids.electron);
            std::string const pname = env.particle_params()->id_to_label(inc);
            std::string const mdl = std::string("coulomb/") + pname;
            for (Target const& tg : targets)
            {
                env.set_material(tg.mat);
                MaterialView const material = env.material_view();
                ElementView const element = material.make_element_view(ElementComponentId(tg.elcomp));
                IsotopeView const target = element.make_isotope_view(IsotopeComponentId(tg.isocomp));
                ElementId const el_id = material.element_id(ElementComponentId(tg.elcomp));

                double elo = elo_model;
                std::vector<double> thr0;
                if (cf.combined)
                {
                    // model data: cos(theta_min,nuc) = max(costheta_limit, 1 - a/p^2)
                    LD const a = LD(wref.params.a_sq_factor)
                                 * wref.inv_mass_cbrt_sq[material.material_id()];
                    auto cosmin = [&](double e) { return 1 - a / (LD(e) * (LD(e) + 2 * me)); };
                    // non-empty polar range (see top comment)
                    if (!(cosmin(elo) > -1))
                        elo = nxt(nxt(bisect([&](double e) { return cosmin(e) > -1 + 4 * eps; },
                                             elo, ehi_model)));
                    add_switch(thr0, [&](double e) { return cosmin(e) > wref.params.costheta_limit; },
                               elo, ehi_model);
                }
                for (double cut : cuts)
                {
                    std::vector<double> thr = thr0;
                    // WentzelHelper::calc_cos_thetamax_electron: min(cutoff, max_energy)
                    thr.push_back(is_electron ? 2 * cut : cut);
                    std::vector<double> const energies
                        = vf::energy_alphabet(elo, ehi_model, C.thorough ? 8 : 6, thr);
                    env.set_cutoffs({{pdg::electron(), MevEnergy{cut}},
                                     {pdg::positron(), MevEnergy{other_cut(cut)}}});
                    for (double E : energies)
                    {
                        std::string const cid = fmt("%s|%s|%s/%d/%d|cut=%a|E=%a", mdl.c_str(), cf.name,
                                                    tg.mat, tg.elcomp, tg.isocomp, cut, E);
                        if (!C.begin_block(mdl, cid))
                            continue;
                        env.set_inc_particle(inc, MevEnergy{E});
                        // tagging only (not judging): which sub-process the first draw selects
                        WentzelHelper helper(env.particle_track(), material, target.atomic_number(),
                                             wref, data.ids,
                                             env.cutoff_view().energy(data.ids.electron));
                        double const xe = helper.calc_xs_electron(helper.cos_thetamax_nuclear(), -1);
                        double const xn = helper.calc_xs_nuclear(helper.cos_thetamax_nuclear(), -1);
                        double const p_el = xe / (xe + xn);
                        if (!(xe + xn > 0))
                            C.R.harness_error("coulomb: empty polar range in " + cid);
                        if (helper.cos_thetamax_electron() == 0)
                            C.tag("cos_thetamax_electron=0");
                        if (cf.combined && helper.cos_thetamax_nuclear() > wref.params.costheta_limit)
                            C.tag("dynamic-angle-limit");
                        for (size_t di = 0; di < C.dirs.size(); ++di)
                        {
                            env.set_inc_direction(C.dirs[di]);
                            Real3 const din = env.direction();
                            CoulombScatteringInteractor interact(data, wref, env.particle_track(),
                                                                 env.direction(), material, target,
                                                                 el_id, env.cutoff_view());
                            unsigned const fr = 2;
                            for (Script const& sc : C.scripts)
                            {
                                env.set_free_slots(fr);
                                vf::ScriptedEngine eng(sc.up, C.seed, sc.lower);
                                Interaction r = interact(eng);
                                ++C.evals;
                                uint64_t const nw = eng.words();
                                auto elem = [&]() { return elem_str(int(di), fr, sc); };
                                if (!common_checks(C, sc, elem(), r, nw, fr, 0, false, ParticleId{}))
                                    continue;
                                mix_outcome(C, r);
                                C.tag("ok");
                                bool const electron_branch = canonical_of(sc, 0) < p_el;
                                C.tag(electron_branch ? "off-electrons" : "off-nucleus");
                                if (!electron_branch && r.energy_deposition.value() == 0
                                    && r.direction[0] == din[0] && r.direction[1] == din[1]
                                    && r.direction[2] == din[2])
                                    C.tag("nuclear-rejected(no-deflection)");
                                LD const Eo = r.energy.value();
                                LD const dep = r.energy_deposition.value();
                                // E_out = fl(E - recoil): one rounding
                                LD const ebal = std::fabs(LD(E) - (Eo + dep));
                                if (!(ebal <= 2 * eps * E))
                                    C.fail(sc, C.sig + ":energy-balance", elem(),
                                           fmt("E=%.17g E_out=%.17Lg dep=%.17Lg imbalance=%Lg", E, Eo,
                                               dep, ebal));
                            }
                        }
                        if (E == energies.front() && cut == cuts.front() && tg.elcomp == 0
                            && std::string(tg.mat) == "Cu")
                            C.R.sample(fmt("%s: %zu dirs x %zu scripts", cid.c_str(), C.dirs.size(),
                                           C.scripts.size()));
                        C.end_block();
                    }
                }
            }
        }
    }
}

//---------------------------------------------------------------------------//
// CHIPS NEUTRON ELASTIC
//---------------------------------------------------------------------------//
void run_chips(Ctx& C)
{
    if (!C.only_model.empty() && C.only_model != "chips")
        return;
    auto& env = C.env;
    char const* repo = std::getenv("VERIF_REPO");
    std::string const data_path = std::string(repo ? repo : "/repo") + "/test/celeritas/data";
    NeutronXsReader reader(NeutronXsType::el, data_path.c_str());
    // The interactor never reads the cross-section tables; elements without a bundled file
    // (only el2 and el29 exist) get a flat two-point table so that the model can be built.
    auto load = [&](AtomicNumber z) -> ImportPhysicsVector {
        if (z.get() == 2 || z.get() == 29)
            return reader(z);
        ImportPhysicsVector v;
        v.vector_type = ImportPhysicsVectorType::free;
        v.x = {1e-5, 2e4};
        v.y = {1e-24, 1e-24};
        return v;
    };
    ChipsNeutronElasticModel model(ActionId{0}, *env.particle_params(), *env.material_params(),
                                   load);
    NeutronElasticRef const& shared = model.host_ref();
    ParticleId const nid = env.pid(pdg::neutron());
    if (!(shared.neutron == nid))
        C.R.harness_error("chips: neutron id mismatch");
    LD const mn = env.mass(nid);
    env.resize_secondaries(4);
    env.set_cutoffs({{pdg::gamma(), MevEnergy{1e-3}}});

    struct Target
    {
        char const* mat;
        int elcomp, isocomp;
    };
    std::vector<Target> const targets = {{"H", 0, 0},  {"He", 0, 0}, {"He", 0, 1}, {"Li", 0, 0},
                                         {"Li", 0, 1}, {"Cu", 0, 0}, {"Cu", 0, 1}, {"Pb", 0, 0},
                                         {"Mix", 2, 0}};
    double const elo = shared.min_valid_energy().value();
    double const ehi = shared.max_valid_energy().value();
    // S-wave switch: neutron momentum < exp(-4.3) GeV/c, read through the track view
    std::vector<double> thr;
    add_switch(thr,
               [&](double e) {
                   env.set_inc_particle(nid, MevEnergy{e});
                   return !(env.particle_track().momentum()
                            < units::MevMomentum{13.568559012200934});
               },
               elo, ehi);

    std::vector<double> const energies = vf::energy_alphabet(elo, ehi, C.thorough ? 16 : 8, thr);
    for (Target const& tg : targets)
    {
        env.set_material(tg.mat);
        MaterialView const material = env.material_view();
        ElementView const element = material.make_element_view(ElementComponentId(tg.elcomp));
        IsotopeView const target = element.make_isotope_view(IsotopeComponentId(tg.isocomp));
        LD const MA = target.nuclear_mass().value();
        int const A = target.atomic_mass_number().get();
        std::string const mdl = "chips/neutron";
        for (double E : energies)
        {
            std::string const cid
                = fmt("%s|%s/%d/%d(A=%d)|E=%a", mdl.c_str(), tg.mat, tg.elcomp, tg.isocomp, A, E);
            if (!C.begin_block(mdl, cid))
                continue;
            env.set_inc_particle(nid, MevEnergy{E});
            LD const P = mom(mn, E);
            // tagging only: which exponential term the first draw selects (private data)
            detail::MomentumTransferSampler mts(shared, target, env.particle_track().momentum());
            bool const swave = env.particle_track().momentum() < mts.s_wave_limit();
            double mi[4] = {0, 0, 0, 0};
            bool tss_branch = false;
            if (!swave && A > 1)
            {
                auto const& q = mts.par_q_sq_;
                double mq = mts.max_q_sq_;
                bool hv = mts.heavy_target_;
                double rr[4] = {-std::expm1(-mq * (q.slope[0] + mq * q.ss)),
                                -std::expm1(-(hv ? ipow<5>(mq) : ipow<3>(mq)) * q.slope[1]),
                                -std::expm1(-(hv ? ipow<7>(mq) : mq) * q.slope[2]),
                                -std::expm1(-mq * q.slope[3])};
                for (int i = 0; i < 4; ++i)
                    mi[i] = rr[i] * q.expnt[i];
                tss_branch = std::fabs(2 * q.ss) > 1e-7;
            }
            for (size_t di = 0; di < C.dirs.size(); ++di)
            {
                env.set_inc_direction(C.dirs[di]);
                Real3 const din = env.direction();
                ChipsNeutronElasticInteractor interact(shared, env.particle_track(), env.direction(),
                                                       target);
                unsigned const fr = 2;
                for (Script const& sc : C.scripts)
                {
                    env.set_free_slots(fr);
                    vf::ScriptedEngine eng(sc.up, C.seed, sc.lower);
                    Interaction r = interact(eng);
                    ++C.evals;
                    uint64_t const nw = eng.words();
                    auto elem = [&]() { return elem_str(int(di), fr, sc); };
                    if (swave)
                        C.tag("s-wave");
                    else if (A == 1)
                        C.tag("n-p");
                    else
                    {
                        double rnd = (mi[3] + mi[0] + mi[1] + mi[2]) * canonical_of(sc, 0);
                        int term = rnd < mi[0] ? 0 : rnd < mi[0] + mi[1] ? 1
                                                 : rnd < mi[0] + mi[1] + mi[2] ? 2 : 3;
                        static char const* const names_l[4]
                            = {"light:term0", "light:term1", "light:term2", "light:term3(u)"};
                        static char const* const names_h[4]
                            = {"heavy:term0", "heavy:term1", "heavy:term2", "heavy:term3"};
                        C.tag(A > 6 ? names_h[term] : names_l[term]);
                        if (term == 0 && tss_branch)
                            C.tag("term0:quadratic-slope");
                    }
                    // Root cause of a non-finite final state: re-draw Q^2 with the same
                    // script and evaluate cos(theta_cm) = 1 - Q^2/(2 k^2) in long double.
                    // If it is within 16 ulp of -1 the NaN comes from the unclamped
                    // sqrt(1 - cos^2) in from_spherical (classification only).
                    std::string nan_sig;
                    if (!std::isfinite(r.energy.value()) || !std::isfinite(unit_err(r.direction)))
                    {
                        vf::ScriptedEngine e2(sc.up, C.seed, sc.lower);
                        detail::MomentumTransferSampler again(shared, target,
                                                              env.particle_track().momentum());
                        LD const q2 = again(e2);
                        LD const k2 = P * P / (1 + (mn / MA) * (mn / MA) + 2 * (mn + LD(E)) / MA);
                        LD const c = 1 - q2 / (2 * k2);
                        nan_sig = (c <= -1 + 16 * eps) ? "chips:backward-limit(cos<-1)-nan"
                                                       : "chips:nan-final-state";
                    }
                    if (!common_checks(C, sc, elem(), r, nw, fr, 0, false, ParticleId{}, nan_sig))
                        continue;
                    mix_outcome(C, r);
                    C.tag("ok");
                    LD const Eo = r.energy.value();
                    LD const dep = r.energy_deposition.value();
                    if (dep == 0)
                        C.tag("zero-recoil");
                    LD cosl = 0;
                    for (int i = 0; i < 3; ++i)
                        cosl += LD(din[i]) * r.direction[i];
                    if (cosl < 0)
                        C.tag("backward");
                    // Energy.  The interactor works with total energies: fl(m_n + E),
                    // fl(E_n + M_A), fl(lv - nlv1), each <= 1/2 ulp of (m_n + E + M_A), plus
                    // the boost gamma (E_cm + beta.p_cm) (~6 operations at the magnitude of
                    // E_n, <= 3 eps (m_n + E + M_A) for hydrogen); clamp_to_nonneg can remove
                    // at most the same amount again: <= ~8 eps*big, 16 allowed (observed
                    // maximum 5.3, reported in the evidence).
                    LD const big = mn + LD(E) + MA;
                    LD const ebal = std::fabs(LD(E) - (Eo + dep));
                    if (!(ebal <= 16 * eps * big))
                        C.fail(sc, C.sig + ":energy-balance", elem(),
                               fmt("E=%.17g E_out=%.17Lg dep=%.17Lg imbalance=%Lg (%.3Lg eps*(m_n+E+M))", E,
                                   Eo, dep, ebal, ebal / (eps * big)));
                    C.R.maxi("max_chips_energy_residual_milli_eps", uint64_t(1000 * ebal / (eps * big)));
                    // Two-body elastic kinematics: the recoil carries p_in - p_out, its
                    // kinetic energy is what is deposited.  Same rounding scale as above
                    // (the boost is evaluated at total-energy magnitude), x2 for the boost.
                    LD const po = mom(mn, Eo);
                    LD q2 = 0;
                    for (int i = 0; i < 3; ++i)
                    {
                        LD c = P * din[i] - po * r.direction[i];
                        q2 += c * c;
                    }
                    LD const trec = q2 / (std::sqrt(q2 + MA * MA) + MA);
                    LD const kerr = std::fabs(trec - dep);
                    // E_out = fl(E'_tot - m_n) carries ~2 ulp of (m_n + E); the oracle turns
                    // it into p_out with the factor 1/beta_out and into T_recoil with
                    // |q|/E_recoil, which matters for a (nearly) stopped neutron on hydrogen.
                    LD const beta_o = po / (Eo + mn);
                    LD const amp = po > 0 ? std::sqrt(q2) / std::sqrt(q2 + MA * MA) / beta_o : 0;
                    LD const ktol = 16 * eps * big + amp * 8 * eps * (mn + LD(E)) + 1e-12L * trec;
                    if (po > 0 && !(kerr <= ktol))
                        C.fail(sc, C.sig + ":recoil-kinematics", elem(),
                               fmt("deposit=%.17Lg but |p_in-p_out| gives T_recoil=%.17Lg (diff %.3Lg "
                                   "eps*(m_n+E+M)) E=%.17g E_out=%.17Lg cos_lab=%.17Lg",
                                   dep, trec, kerr / (eps * big), E, Eo, cosl));
                    if (po > 0)
                        C.R.maxi("max_chips_kinematics_residual_permille_of_tol",
                                 uint64_t(1000 * kerr / ktol));
                }
            }
            if (E == energies.front())
                C.R.sample(fmt("%s: %zu dirs x %zu scripts", cid.c_str(), C.dirs.size(),
                               C.scripts.size()));
            C.end_block();
        }
    }
}

//---------------------------------------------------------------------------//
}  // namespace

int main(int argc, char** argv)
{
    vf::Run R(argc, argv, "C04", "c04_muhad");
    Ctx C(R);
    C.thorough = R.thorough();
    C.seed = R.seed();
    C.scripts = make_scripts(C.thorough);
    if (char const* m = std::getenv("VERIF_C04_MODEL"))
        C.only_model = m;
    C.env.set_material_params(make_materials());
    C.env.set_cutoffs({{pdg::gamma(), MevEnergy{1e-3}}, {pdg::electron(), MevEnergy{1e-3}}});
    C.dirs = vf::axes_and_diagonals();

    R.note("scripts", fmt("%zu scripted prefixes per lattice point (%s)", C.scripts.size(),
                          C.thorough ? "A5^4 + <=2 deviations in 16 draws over A7 + 2^-53-scale "
                                       "observation scripts"
                                     : "A5^4"));

    // --- ionisation ---
    double const bb_lo = 0.2, bb_hi = 1e3, mubb_hi = 1e8;
    for (PDGNumber p : {pdg::mu_minus(), pdg::mu_plus()})
    {
        run_ioni<BetheBlochEnergyDistribution>(
            C, {"bethe-bloch", p, bb_lo, bb_hi, {1e-6, 1e-3, 0.1, 10.0}, false, {}});
        // MuBBEnergyDistribution: radiative correction above 250 MeV (and T_max > 0.1 MeV)
        run_ioni<MuBBEnergyDistribution>(
            C, {"mu-bethe-bloch", p, bb_lo, mubb_hi, {1e-6, 1e-3, 0.1, 10.0}, false, {250.0}});
    }
    run_ioni<BraggICRU73QOEnergyDistribution>(
        C, {"icru73qo", pdg::mu_minus(), 1e-4, 0.2, {1e-7, 1e-5, 1e-3, 1e-2}, true, {}});
    run_ioni<BraggICRU73QOEnergyDistribution>(
        C, {"bragg", pdg::mu_plus(), 1e-4, 0.2, {1e-7, 1e-5, 1e-3, 1e-2}, true, {}});
    // hadron extension (see top comment)
    run_ioni<BraggICRU73QOEnergyDistribution>(
        C, {"bragg", pdg::proton(), 1e-3, 2.0, {1e-7, 1e-4, 1e-3, 1e-2}, true, {}});
    run_ioni<BetheBlochEnergyDistribution>(
        C, {"bethe-bloch", pdg::proton(), 2.0, 1e5, {1e-6, 1e-3, 0.1, 10.0}, false, {}});

    run_mubrems(C);
    run_coulomb(C);
    run_chips(C);

    if (R.deadline_hit())
        R.cap_hit("deadline");
    return R.finish();
}
