// Standalone reproduction for the NEW finding of the strengthened check C14 (unchanged tree):
// calc_mean_energy_loss returns a NEGATIVE loss for a step below eps*range when linear_loss_limit
// is 0 (validated range is [0, 1]).  With lll = 0 every step takes the range-based branch
//     eloss = E - InverseRangeCalculator(range - step)          (PhysicsStepUtils.hh)
// and for step < ulp(range)/2 that is E - InverseRange(Range(E)), whose round trip can land above E.
// This program evaluates exactly that expression with the real calculators on a constant-dE/dx table
// (dE/dx = 2 MeV/cm, range = E/2: the table of the mock physics).
//   B=/tmp/vb_clean/rel/celeritas; S=/tmp/repo_clean
//   g++ -std=c++17 -O2 -w -I$S/src -I$B/include -isystem /root/miniconda/include proposed_findings/C14_repro.cc \
//       -L$B/lib -Wl,-rpath,$B/lib -lceleritas -lcorecel && ./a.out
#include <cmath>
#include <cstdio>
#include <vector>
#include "corecel/data/Collection.hh"
#include "corecel/data/CollectionBuilder.hh"
#include "celeritas/Quantities.hh"
#include "celeritas/grid/InverseRangeCalculator.hh"
#include "celeritas/grid/RangeCalculator.hh"
#include "celeritas/grid/XsGridData.hh"
using namespace celeritas;
int main()
{
    double const emin = 1e-4, emax = 100;
    int const N = 5;
    std::vector<double> range(N);
    for (int i = 0; i < N; ++i)
        range[i] = emin * std::pow(emax / emin, double(i) / (N - 1)) / 2;
    Collection<real_type, Ownership::value, MemSpace::host> reals;
    XsGridData g;
    g.log_energy = UniformGridData::from_bounds(std::log(emin), std::log(emax), N);
    g.value = make_builder(&reals).insert_back(range.begin(), range.end());
    Collection<real_type, Ownership::const_reference, MemSpace::host> ref;
    ref = reals;
    RangeCalculator calc_range(g, ref);
    InverseRangeCalculator calc_energy(g, ref);
    int neg = 0, all = 0;
    for (int k = 0; k <= 600; ++k)
    {
        double E = 5e-5 * std::pow(10.0, k / 100.0);  // 5e-5 .. 50 MeV
        double r = calc_range(units::MevEnergy{E});
        for (double step : {1e-300, r * 1.1102230246251565e-16, r * 1e-16})
        {
            double eloss = E - calc_energy(r - step).value();  // linear_loss_limit = 0
            ++all;
            if (eloss < 0 && neg++ < 5)
                printf("E=%.17g MeV range=%.17g cm step=%.3g cm: mean energy loss = %.3g MeV < 0\n", E, r, step, eloss);
        }
    }
    printf("%d of %d evaluations negative (expected 0: the loss over a positive step is non-negative)\n", neg, all);
    return neg ? 1 : 0;
}
