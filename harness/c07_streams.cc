// C07 - concurrent streams sharing problem parameters do not interfere.
//
// part "tsan"  (ThreadSanitizer flavour, free-running real threads): T in {2,3,4,8,16} threads,
//   each constructs its own Stepper (stream t) on ONE shared CoreParams - concurrently, the way
//   celer-sim's Runner::get_transporter does (the pattern is modelled here; Runner.cc /
//   Transporter.cc themselves are not compiled into the harness) - and transports its assigned
//   events; all assignments of 3 events to 2 and to 3 streams are enumerated, larger T get one
//   event per stream, once with the identity assignment and once rotated by one (event e on
//   stream (e+1) mod T).  Variants: see c07_common.hh (recorder / calorimeter / re-indexing by
//   particle type / by action / field+MSC along-step / StatusChecker).  Oracles: (1) no ThreadSanitizer report whose stack touches /repo/src;
//   (2) every event's per-track step history equals the serial single-stream reference;
//   (3) diagnostic / calorimeter tallies equal the serial sums.
// part "sched" (see below) explores thread schedules exhaustively with a cooperative scheduler.
#include <atomic>
#include <dirent.h>
#include <fstream>
#include <sstream>
#include <thread>

#include <chrono>
#include <condition_variable>
#include <cstring>
#include <mutex>

#include "corecel/sys/VerifHooks.hh"
#include "harness/c07_common.hh"

//---------------------------------------------------------------------------//
// Rendezvous at the begin-run hooks: ThreadSanitizer reports two accesses only if no
// happens-before path joins them, and on a busy machine one thread easily finishes its whole
// Stepper construction (including incidental synchronisation such as shared_ptr reference
// counts) before the next one starts.  All T threads therefore wait for each other right before
// their k-th begin-run action (CELERITAS_VERIF hook "begin-run-action"), so that the begin-run
// actions of the shared, mutable action objects really are executed side by side.
// The same is done for the first `rv_step_hooks` step actions of every thread that transports
// at least one event ("step-action" hook): the k-th step action is then executed by all busy
// streams at the same time (same action, shared action object), which is where a static / a
// mutable scratch buffer in a shared object is hit from two threads.
static constexpr unsigned rv_begin_slots = 16, rv_step_hooks = 32;
static unsigned g_rv_arrived[rv_begin_slots + rv_step_hooks];  // guarded by g_rv_mutex
static std::mutex g_rv_mutex;
static std::condition_variable g_rv_cv;
static std::atomic<unsigned> g_rv_threads{0}, g_rv_busy_threads{0};
static thread_local unsigned tl_rv_index = 0, tl_rv_step_index = 0;

static void rendezvous_hook(char const* tag)
{
    unsigned need = 0, k = 0;
    if (std::strcmp(tag, "begin-run-action") == 0)
    {
        need = g_rv_threads.load(std::memory_order_relaxed);
        k = tl_rv_index++;
        if (k >= rv_begin_slots)
            return;
    }
    else if (std::strcmp(tag, "step-action") == 0)
    {
        need = g_rv_busy_threads.load(std::memory_order_relaxed);
        k = tl_rv_step_index++;
        if (k >= rv_step_hooks)
            return;
        k += rv_begin_slots;
    }
    if (need < 2)
        return;
    // blocking (no spinning: the machine may be oversubscribed); never waits longer than
    // 200 ms so that a thread that failed earlier cannot hang the others
    std::unique_lock<std::mutex> lock(g_rv_mutex);
    if (++g_rv_arrived[k] >= need)
        g_rv_cv.notify_all();
    else
        g_rv_cv.wait_for(lock, std::chrono::milliseconds(200),
                         [&] { return g_rv_arrived[k] >= need; });
}

//---------------------------------------------------------------------------//
// ThreadSanitizer report parsing (text log written through TSAN_OPTIONS=log_path=...)
struct RaceReport
{
    std::string signature;
    std::string text;
    bool touches_repo{false};
};

static std::vector<RaceReport> read_tsan_reports()
{
    std::vector<RaceReport> out;
    DIR* d = opendir(".");
    if (!d)
        return out;
    std::string pid = std::to_string(getpid());
    while (dirent* ent = readdir(d))
    {
        std::string name = ent->d_name;
        if (name.rfind("tsan_report.", 0) != 0 || name.find(pid) == std::string::npos)
            continue;
        std::ifstream f(name);
        std::string line, block;
        std::vector<std::string> blocks;
        while (std::getline(f, line))
        {
            if (line.find("WARNING: ThreadSanitizer") != std::string::npos)
            {
                if (!block.empty())
                    blocks.push_back(block);
                block.clear();
            }
            block += line + "\n";
        }
        if (!block.empty())
            blocks.push_back(block);
        for (auto const& b : blocks)
        {
            if (b.find("WARNING: ThreadSanitizer") == std::string::npos)
                continue;
            RaceReport r;
            r.text = b.substr(0, 6000);
            // first /repo/src frame of each stack section
            std::istringstream is(b);
            std::vector<std::string> tops;
            bool in_stack = false, found = false;
            std::string kind;
            while (std::getline(is, line))
            {
                if (line.find("WARNING: ThreadSanitizer: ") != std::string::npos)
                {
                    auto p = line.find("ThreadSanitizer: ") + 17;
                    kind = line.substr(p, line.find(" (", p) - p);
                }
                bool header = line.size() > 2 && line[2] != ' ' && line.find(" by ") != std::string::npos;
                if (header)
                {
                    in_stack = true;
                    found = false;
                    continue;
                }
                if (in_stack && !found && line.find("    #") == 0)
                {
                    auto p = line.find("/src/");
                    if (line.find("/repo/src/") != std::string::npos || p != std::string::npos)
                    {
                        // "#0 func file:line (module)": keep function (up to '(') + file basename
                        auto h = line.find(' ', 5);
                        std::string rest = line.substr(h + 1);
                        auto fp = rest.rfind(" /");
                        std::string func = rest.substr(0, fp);
                        auto paren = func.find('(');
                        if (paren != std::string::npos)
                            func = func.substr(0, paren);
                        std::string file = fp == std::string::npos ? "" : rest.substr(fp + 1);
                        auto sp = file.find(' ');
                        if (sp != std::string::npos)
                            file = file.substr(0, sp);
                        auto colon = file.rfind(':');
                        auto slash = file.rfind('/');
                        std::string base = file.substr(slash + 1, colon == std::string::npos ? std::string::npos : colon - slash - 1);
                        if (line.find("/repo/src/") != std::string::npos
                            || line.find("/src/corecel/") != std::string::npos
                            || line.find("/src/celeritas/") != std::string::npos
                            || line.find("/src/orange/") != std::string::npos
                            || line.find("/src/geocel/") != std::string::npos)
                        {
                            r.touches_repo = true;
                            tops.push_back(base + ":" + func);
                            found = true;
                        }
                    }
                }
            }
            std::sort(tops.begin(), tops.end());
            tops.erase(std::unique(tops.begin(), tops.end()), tops.end());
            r.signature = "tsan:" + kind;
            for (size_t i = 0; i < tops.size() && i < 2; ++i)
                r.signature += "|" + tops[i];
            // One specific defect gets its own signature: StatusChecker::begin_run_impl
            // rebuilds the SHARED params (`data_`) for every stream without synchronisation.
            // Only reports in which EVERY access stack lies inside StatusChecker code and at
            // least one is the rebuild itself qualify; anything else keeps the generic
            // signature above.
            {
                std::istringstream is2(b);
                bool in_access = false, any_access = false, all_in_checker = true,
                     rebuild = false, cur_checker = false, cur_frames = false;
                auto close = [&] {
                    // an access whose stack could not be restored (no frames) says nothing
                    if (in_access && cur_frames)
                    {
                        any_access = true;
                        all_in_checker = all_in_checker && cur_checker;
                    }
                    in_access = false;
                    cur_checker = false;
                    cur_frames = false;
                };
                while (std::getline(is2, line))
                {
                    bool hdr = line.size() > 2 && line[2] != ' ' && line[0] == ' ';
                    if (hdr)
                    {
                        close();
                        // "Write of size", "Previous read of size", "Read of size",
                        // "Previous atomic write" ... are the two accesses; "Location is",
                        // "Thread T1 ... created by", "Mutex ..." are not
                        std::string t = line.substr(2);
                        in_access = (t.rfind("Read of", 0) == 0 || t.rfind("Write of", 0) == 0
                                     || t.rfind("Previous ", 0) == 0 || t.rfind("Atomic ", 0) == 0)
                                    && t.find(" of size ") != std::string::npos
                                    && t.find(" by ") != std::string::npos;
                        continue;
                    }
                    if (in_access && line.find("    #") == 0)
                    {
                        cur_frames = true;
                        if (line.find("StatusChecker::") != std::string::npos)
                            cur_checker = true;
                        if (line.find("StatusChecker::begin_run_impl") != std::string::npos)
                            rebuild = true;
                    }
                }
                close();
                if (any_access && all_in_checker && rebuild)
                    r.signature = "tsan:StatusChecker::begin_run_impl-rebuilds-shared-data-per-stream";
            }
            out.push_back(r);
        }
    }
    closedir(d);
    return out;
}

static void part_tsan(vf::Run& R)
{
    bool const thorough = R.thorough();
    celeritas::verif::g_yield = &rendezvous_hook;
    std::vector<Variant> variants = all_variants();
    unsigned const slots = 4;
    uint64_t outer = 0;
    // (T, assignment) cases: assignment[e] = stream of event e
    struct Case
    {
        unsigned T;
        std::vector<unsigned> assign;
    };
    std::vector<Case> cases;
    for (unsigned T : {2u, 3u})
    {
        unsigned n = 1;
        for (int i = 0; i < 3; ++i)
            n *= T;
        for (unsigned code = 0; code < n; ++code)
        {
            std::vector<unsigned> a;
            unsigned c = code;
            for (int i = 0; i < 3; ++i)
            {
                a.push_back(c % T);
                c /= T;
            }
            cases.push_back({T, a});
        }
    }
    for (unsigned T : {4u, 8u, 16u})
        for (unsigned rot : {0u, 1u})
        {
            // quick: T=4 identity + rotated, T=8 identity, T=16 rotated
            if (!thorough && ((T == 8 && rot == 1) || (T == 16 && rot == 0)))
                continue;
            std::vector<unsigned> a;
            for (unsigned e = 0; e < T; ++e)
                a.push_back((e + rot) % T);
            cases.push_back({T, a});
        }
    // with the rendezvous one repetition already overlaps every begin-run action and the first
    // step iteration of all streams; more repetitions sample different OS schedules of the rest
    int const reps = thorough ? 5 : 1;
    std::set<std::string> reported;
    for (auto const& v : variants)
    {
        // serial reference on a separate CoreParams instance
        std::map<unsigned, uint64_t> ref_hash;
        std::map<size_t, Tallies> ser_cache;  // per number of events (ref_hash[e] stays valid)
        for (auto const& cs : cases)
        {
            // quick: the four newer variants run the T=3 assignments that keep all three
            // streams busy only (thorough: everything)
            if (!thorough && cs.T == 3 && (v.checker || v.along != AlongStep::linear_fluct
                                           || v.order == TrackOrder::reindex_both_action
                                           || (v.order == TrackOrder::init_charge && !v.calo))
                && std::set<unsigned>(cs.assign.begin(), cs.assign.end()).size() < 3)
                continue;
            if (!R.mine(outer++))
                continue;
            if (R.expired())
                return;
            std::string aid;
            for (unsigned s : cs.assign)
                aid += (cs.T > 10 && !aid.empty() ? "." : "") + std::to_string(s);
            std::string cid = fmt("tsan:%s:T=%u:assign=%s", v.name, cs.T, aid.c_str());
            if (!R.want(cid))
                continue;
            R.begin_case(cid, 900);
            // serial reference: same events, one stream, in event order
            Tallies ser;
            // (the serial result depends on the variant and the number of events only)
            if (auto it = ser_cache.find(cs.assign.size()); it != ser_cache.end())
            {
                ser = it->second;
            }
            else
            {
                auto Ps = make_problem(v, 1, slots);
                auto st = Ps->make_stepper(0);
                for (unsigned e = 0; e < cs.assign.size(); ++e)
                {
                    bool ok;
                    uint64_t h = transport(*Ps, *st, 0, e, &ok);
                    if (!ok)
                        R.harness_error("serial reference event does not complete");
                    ref_hash[e] = h;
                }
                ser = tallies(*Ps);
                ser_cache[cs.assign.size()] = ser;
            }
            for (int rep = 0; rep < reps; ++rep)
            {
                auto P = make_problem(v, cs.T, slots);
                std::vector<uint64_t> got(cs.assign.size(), 0);
                std::vector<char> okv(cs.assign.size(), 1);
                std::vector<std::string> errs(cs.T);
                std::atomic<unsigned> ready{0};
                {
                    std::lock_guard<std::mutex> lock(g_rv_mutex);
                    for (auto& a : g_rv_arrived)
                        a = 0;
                }
                g_rv_threads.store(cs.T);
                g_rv_busy_threads.store(unsigned(std::set<unsigned>(cs.assign.begin(), cs.assign.end()).size()));
                auto body = [&](unsigned t) {
                    tl_rv_index = 0;
                    tl_rv_step_index = 0;
                    try
                    {
                        // start together to maximise overlap of the lazy initialisation
                        ++ready;
                        while (ready.load() < cs.T)
                            std::this_thread::yield();
                        auto st = P->make_stepper(t);
                        for (unsigned e = 0; e < cs.assign.size(); ++e)
                            if (cs.assign[e] == t)
                            {
                                bool ok;
                                got[e] = transport(*P, *st, t, e, &ok);
                                okv[e] = ok;
                            }
                    }
                    catch (std::exception const& ex)
                    {
                        errs[t] = ex.what();
                    }
                };
                std::vector<std::thread> th;
                for (unsigned t = 0; t < cs.T; ++t)
                    th.emplace_back(body, t);
                for (auto& t : th)
                    t.join();
                g_rv_threads.store(0);
                g_rv_busy_threads.store(0);
                R.count("evaluations");
                R.count("transitions", cs.assign.size());
                for (unsigned t = 0; t < cs.T; ++t)
                    if (!errs[t].empty())
                        R.violation("streams:exception", cid, errs[t]);
                for (unsigned e = 0; e < cs.assign.size(); ++e)
                {
                    if (!okv[e])
                        R.violation("streams:event-does-not-complete", cid, fmt("event %u", e));
                    else if (!v.calo && got[e] != ref_hash[e])
                        R.violation("streams:event-differs-from-serial", cid,
                                    fmt("%s: event %u on stream %u of %u concurrent streams has a "
                                        "different per-track step history than in the serial run",
                                        cid.c_str(), e, cs.assign[e], cs.T));
                }
                Tallies par = tallies(*P);
                if (par.actions != ser.actions)
                    R.violation("streams:action-diagnostic-differs-from-serial", cid, cid);
                if (par.steps != ser.steps)
                    R.violation("streams:step-diagnostic-differs-from-serial", cid, cid);
                for (size_t d = 0; d < par.calo.size(); ++d)
                    if (std::fabs(par.calo[d] - ser.calo[d]) > 1e-11 * (1 + std::fabs(ser.calo[d])))
                        R.violation("streams:calorimeter-differs-from-serial", cid,
                                    fmt("detector %zu: %.17g vs serial %.17g", d, par.calo[d], ser.calo[d]));
                R.outcome(hash_mix(hash_str(aid), got.empty() ? 0 : got[0]));
            }
            R.nontrivial(hash_str(cid));
            R.state(hash_str(cid));
            // ThreadSanitizer reports so far (cumulative file): attribute new ones to this case
            for (auto const& rr : read_tsan_reports())
            {
                if (!reported.insert(rr.signature + rr.text.substr(0, 200)).second)
                    continue;
                if (!rr.touches_repo)
                {
                    R.tag("tsan-report-outside-repo:" + rr.signature);
                    continue;
                }
                R.violation(rr.signature, cid, rr.text.substr(0, 3500));
            }
            R.end_case();
        }
    }
}

int main(int argc, char** argv)
{
    vf::Run R(argc, argv, "C07", "c07_streams");
    if (R.part() == "tsan")
        part_tsan(R);
    else
        R.harness_error("unknown part " + R.part());
    R.sample("tsan:rec:T=3:assign=021 = 3 threads construct their Steppers concurrently on one "
             "CoreParams; event 0 on stream 0, event 1 on stream 2, event 2 on stream 1; hashes vs serial");
    return R.finish();
}
