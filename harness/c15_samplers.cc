// C15 - random samplers respect their support, consume a bounded number of draws and reproduce
//       their analytic target distribution.
//
// Engine: E5 (engine/scripted_rng.hh).  Two parts (selected with --part):
//
//  support     for every sampler x parameter letter, ALL prefixes in A_u^k of the first k
//              canonical draws (A_u = {2^-33, 1/4, 1/2, 3/4, 1-2^-33}+2^-33 offsets; thorough adds
//              the upper words 0x00000000 / 0xffffffff; the lower word is mid-cell so a canonical
//              is never exactly 0) followed by the fixed splitmix tail:
//              value inside the documented support, finite, #canonicals <= justified bound.
//              A third pass (Z4) forces lower word 0 and the upper words {0, 2^30, 2^31, 3*2^30}:
//              canonicals 0, 1/4, 1/2, 3/4 EXACTLY (exact-zero canonical, dyadic ties), only for the
//              families whose documented support is closed at 0 (see build_support_cases, end).
//              rotate(): a wrong polar angle is reported per branch class of the incident direction
//              (rotate:wrong-polar-angle[renorm,y<0 | renorm,y>=0 | on-axis | generic]) so that the
//              recorded renormalising-branch defect does not mask anything else.
//              Energy loss: e-, e+, mu-, p and alpha (charge 2): model choice (exact ties decided
//              by the documented operator), the helper's beta^2 / 2 m_e beta^2 gamma^2 / Tmax / Bohr
//              variance against a long double re-derivation, the Urban constructor's mean-loss
//              identity in every branch, operator() == loss_scaling*(excitation + ionisation stage).
//  quadrature  deterministic quadrature: the midpoint lattice {(i+1/2)/2^b_j} of the first
//              canonicals is pushed through the sampler, the empirical CDF is compared with the
//              analytic CDF (independent long double code below) in sup norm.  The Urban model is
//              judged stage by stage (each branch of sample_fast_urban / sample_excitation_loss /
//              sample_ionization_loss whose law is explicit) given the constructor's outputs.
//              Letters added by the dimension review (d2): Tsai-Urban with the muon (E=100) and
//              proton (E=1) masses (umax 3.89 / 2.002, truncation inside the bulk); Normal
//              move-assign / move-construct FROM an object holding a spare (law + draw pattern);
//              sample_fast_urban at the exact tie sd == 4 mean (Gaussian branch, draw pattern).
//              threshold = L + H + 2/N,
//                L = sum_j c_j / 2^b_j   lattice term: a set whose boundary consists of c_j
//                                        coordinate-monotone pieces meets at most c_j*N/2^b_j
//                                        cells per axis; only those cells can be mis-counted by
//                                        the midpoint rule,
//                H = 5 sqrt(N_tail)/N    Hoeffding term for the N_tail lattice points whose value
//                                        also depends on the fixed pseudo-random tail (retries,
//                                        or draws beyond the lattice dimensions); 2exp(-2*25)
//                                        = 4e-22 per evaluated abscissa,
//                2/N                     ties / rounding of the sample into a neighbouring cell.
//              Nothing is tuned: the observed distance and threshold/observed are written to the
//              evidence notes (margin >= 5 on the unchanged tree).
//
// Case ids:  sup:<sampler>:<params>:<pass>:a0=<i>  (block: all prefixes whose first letter is A[i])
//            quad:<sampler>:<params>
#include <algorithm>
#include <cmath>
#include <cstdint>
#include <functional>
#include <map>
#include <memory>
#include <string>
#include <vector>

#include "corecel/cont/Array.hh"
#include "corecel/data/CollectionStateStore.hh"
#include "corecel/math/ArrayUtils.hh"
#include "celeritas/Quantities.hh"
#include "celeritas/Units.hh"
#include "celeritas/em/distribution/EnergyLossDeltaDistribution.hh"
#include "celeritas/em/distribution/EnergyLossGammaDistribution.hh"
#include "celeritas/em/distribution/EnergyLossGaussianDistribution.hh"
#include "celeritas/em/distribution/EnergyLossHelper.hh"
#include "celeritas/em/distribution/EnergyLossUrbanDistribution.hh"
#include "celeritas/em/distribution/TsaiUrbanDistribution.hh"
#include "celeritas/em/params/FluctuationParams.hh"
#include "celeritas/mat/MaterialParams.hh"
#include "celeritas/phys/CutoffParams.hh"
#include "celeritas/phys/PDGNumber.hh"
#include "celeritas/phys/ParticleParams.hh"
#include "celeritas/random/Selector.hh"
#include "celeritas/random/distribution/BernoulliDistribution.hh"
#include "celeritas/random/distribution/ExponentialDistribution.hh"
#include "celeritas/random/distribution/GammaDistribution.hh"
#include "celeritas/random/distribution/GenerateCanonical.hh"
#include "celeritas/random/distribution/InverseSquareDistribution.hh"
#include "celeritas/random/distribution/IsotropicDistribution.hh"
#include "celeritas/random/distribution/NormalDistribution.hh"
#include "celeritas/random/distribution/PoissonDistribution.hh"
#include "celeritas/random/distribution/RadialDistribution.hh"
#include "celeritas/random/distribution/ReciprocalDistribution.hh"
#include "celeritas/random/distribution/RejectionSampler.hh"
#include "celeritas/random/distribution/UniformBoxDistribution.hh"
#include "celeritas/random/distribution/UniformRealDistribution.hh"
#include "engine/harness.hh"
#include "engine/scripted_rng.hh"

using namespace celeritas;
using vf::fmt;
using Eng = vf::ScriptedEngine;
using ld = long double;
using Real3 = Array<double, 3>;

//---------------------------------------------------------------------------//
// Engine construction
//---------------------------------------------------------------------------//
// GenerateCanonical32<double> computes ((upper << 21) ^ lower) / 2^53, i.e. lower bit 20 is the
// half of a 2^-32 cell: lower = 0x00100000 gives canonical = (upper + 1/2) / 2^32 exactly.
constexpr uint32_t kMidCell = 0x00100000u;
static double canon_of(uint32_t upper)
{
    return (double(upper) + 0.5) / 4294967296.0;
}
static uint64_t mix64(uint64_t z)
{
    z += 0x9e3779b97f4a7c15ull;
    z = (z ^ (z >> 30)) * 0xbf58476d1ce4e5b9ull;
    z = (z ^ (z >> 27)) * 0x94d049bb133111ebull;
    return z ^ (z >> 31);
}

//---------------------------------------------------------------------------//
// Independent reference mathematics (long double)
//---------------------------------------------------------------------------//
static ld const kPi = 3.14159265358979323846264338327950288L;
static ld Phi(ld z)
{
    return 0.5L * erfcl(-z / sqrtl(2.0L));
}
// Regularised lower incomplete gamma function P(a, x): series for x < a + 1, Lentz continued
// fraction for Q = 1 - P otherwise (Abramowitz & Stegun 6.5.29 / 6.5.31).
static ld gamma_p(ld a, ld x)
{
    if (x <= 0)
        return 0;
    ld const lead = expl(-x + a * logl(x) - lgammal(a));
    if (x < a + 1)
    {
        ld term = 1 / a, sum = term;
        for (int n = 1; n < 100000; ++n)
        {
            term *= x / (a + n);
            sum += term;
            if (fabsl(term) < fabsl(sum) * 1e-19L)
                break;
        }
        return sum * lead;
    }
    ld const tiny = 1e-4000L;
    ld b = x + 1 - a, c = 1 / tiny, d = 1 / b, h = d;
    for (int i = 1; i < 100000; ++i)
    {
        ld an = -i * (i - a);
        b += 2;
        d = an * d + b;
        if (fabsl(d) < tiny)
            d = tiny;
        c = b + an / c;
        if (fabsl(c) < tiny)
            c = tiny;
        d = 1 / d;
        ld del = d * c;
        h *= del;
        if (fabsl(del - 1) < 1e-19L)
            break;
    }
    return 1 - lead * h;
}
static ld poisson_cdf(ld lambda, long k)
{
    if (k < 0)
        return 0;
    ld sum = 0;
    for (long j = 0; j <= k; ++j)
        sum += expl(-lambda + j * logl(lambda) - lgammal(ld(j) + 1));
    return sum < 1 ? sum : 1;
}

static double ulp_of(double m)
{
    m = std::fabs(m);
    return m > 0 ? m * 2.220446049250313e-16 : 4.9e-324;
}
// lo - n ulp <= x <= hi + n ulp with ulp taken at the larger bound (rounding model of the caller)
static bool in_range(double x, double lo, double hi, double nulp)
{
    double t = nulp * ulp_of(std::max(std::fabs(lo), std::fabs(hi)));
    return x >= lo - t && x <= hi + t;
}
// multiplicative rounding model: lo (1 - n eps) <= x <= hi (1 + n eps), 0 < lo <= hi
static bool in_range_rel(double x, double lo, double hi, double nulp)
{
    return x >= lo - nulp * ulp_of(lo) && x <= hi + nulp * ulp_of(hi);
}
//! number of attempts after which an acceptance probability >= p has failed with prob < 1e-30
static uint64_t attempts_for(double p_accept)
{
    if (p_accept >= 1)
        return 1;
    return uint64_t(std::ceil(-69.1 / std::log1p(-p_accept))) + 1;
}

//---------------------------------------------------------------------------//
// Synthetic material / particle world for the energy-loss samplers (no Geant4), built the way
// test/celeritas/em/distribution/EnergyLossHelper.test.cc does.
//---------------------------------------------------------------------------//
struct ElossWorld
{
    std::shared_ptr<MaterialParams> materials;
    std::shared_ptr<ParticleParams> particles;
    std::vector<std::shared_ptr<CutoffParams>> cutoffs;
    std::vector<double> cut_value;
    std::shared_ptr<FluctuationParams> fluct;
    CollectionStateStore<ParticleStateData, MemSpace::host> pstate;
    CollectionStateStore<MaterialStateData, MemSpace::host> mstate;
    std::vector<std::string> mat_names{"H2gas", "Ar", "Pb"};
    std::vector<std::string> par_names{"e-", "e+", "mu-", "p", "alpha"};
    std::vector<double> par_mass{0.5109989461, 0.5109989461, 105.6583745, 938.272081, 3727.379};
    std::vector<double> par_charge{-1, 1, -1, 1, 2};

    ElossWorld()
    {
        using namespace units;
        MaterialParams::Input mi;
        mi.elements = {{AtomicNumber{1}, AmuMass{1.008}, {}, "H"},
                       {AtomicNumber{18}, AmuMass{39.948}, {}, "Ar"},
                       {AtomicNumber{82}, AmuMass{207.2}, {}, "Pb"}};
        mi.materials = {
            {native_value_from(MolCcDensity{1e-4}), 293.0, MatterState::gas, {{ElementId{0}, 1.0}}, "H2gas"},
            {native_value_from(MolCcDensity{1.0}), 293.0, MatterState::solid, {{ElementId{1}, 1.0}}, "Ar"},
            {native_value_from(MolCcDensity{0.0547}), 293.0, MatterState::solid, {{ElementId{2}, 1.0}}, "Pb"},
        };
        materials = std::make_shared<MaterialParams>(std::move(mi));
        ParticleParams::Input pi{
            {"electron", pdg::electron(), MevMass{par_mass[0]}, ElementaryCharge{-1}, constants::stable_decay_constant},
            {"positron", pdg::positron(), MevMass{par_mass[1]}, ElementaryCharge{1}, constants::stable_decay_constant},
            {"mu_minus", pdg::mu_minus(), MevMass{par_mass[2]}, ElementaryCharge{-1}, constants::stable_decay_constant},
            {"proton", pdg::proton(), MevMass{par_mass[3]}, ElementaryCharge{1}, constants::stable_decay_constant},
            {"alpha", pdg::alpha(), MevMass{par_mass[4]}, ElementaryCharge{2}, constants::stable_decay_constant}};
        particles = std::make_shared<ParticleParams>(std::move(pi));
        for (double cut : {1e-3, 10.0})
        {
            CutoffParams::MaterialCutoffs mc(3, {MevEnergy{cut}, 0});
            CutoffParams::Input ci{particles, materials, {{pdg::electron(), mc}}};
            cutoffs.push_back(std::make_shared<CutoffParams>(std::move(ci)));
            cut_value.push_back(cut);
        }
        pstate = CollectionStateStore<ParticleStateData, MemSpace::host>(particles->host_ref(), 1);
        mstate = CollectionStateStore<MaterialStateData, MemSpace::host>(materials->host_ref(), 1);
        fluct = std::make_shared<FluctuationParams>(*particles, *materials);
    }
};

//---------------------------------------------------------------------------//
// PART "support": all prefixes in A_u^k
//---------------------------------------------------------------------------//
struct Obs
{
    vf::Run& R;
    std::string const& cid;
    std::string const& cname;
    std::vector<uint32_t> const& script;
    uint32_t lower = kMidCell;  // lower word of the scripted canonicals
    std::vector<char const*> tags;
    uint64_t outcome = 1469598103934665603ull;

    std::string where() const
    {
        std::string s = cname + " script=[";
        for (size_t i = 0; i < script.size(); ++i)
            s += fmt("%s0x%08x", i ? "," : "", script[i]);
        s += lower == kMidCell ? "] (canonical_i=(word_i+0.5)/2^32, then tail)"
                               : "] (canonical_i=word_i/2^32 EXACTLY (lower word 0), then tail)";
        return s;
    }
    void tag(char const* t) { tags.push_back(t); }
    void fail(std::string const& sig, std::string const& msg)
    {
        R.violation(sig, cid, where() + " : " + msg);
    }
    void value(double x) { outcome = vf::hash_pod(x, outcome); }
    void value(uint64_t x) { outcome = vf::hash_pod(x, outcome); }
    //! total number of canonicals drawn so far must not exceed n
    void draws_le(Eng const& e, uint64_t n, char const* fam)
    {
        if (e.canonicals() > n)
            fail(std::string(fam) + ":too-many-draws",
                 fmt("%llu canonicals drawn, bound %llu", (unsigned long long)e.canonicals(),
                     (unsigned long long)n));
    }
    void finite(double x, char const* fam)
    {
        if (!std::isfinite(x))
            fail(std::string(fam) + ":non-finite", fmt("sample %g", x));
    }
};

struct SupportCase
{
    std::string family;
    std::string name;
    int max_script;  // the body never draws more canonicals than this (0: unbounded) -> k_eff
    std::function<void(Eng&, Obs&, uint64_t k)> body;  // k = number of forced canonicals
    bool closed_at_zero = false;  // documented support is closed at canonical == 0: runs in the exact-dyadic pass
};

static std::vector<SupportCase> build_support_cases(ElossWorld& W, bool thorough)
{
    std::vector<SupportCase> C;
    auto add = [&](char const* fam, std::string params, int max_script,
                   std::function<void(Eng&, Obs&, uint64_t)> body) {
        C.push_back({fam, std::string(fam) + ":" + params, max_script, std::move(body)});
    };

    //// GenerateCanonical, default path (std::generate_canonical) on a plain 32-bit engine ////
    {
        struct Plain
        {
            using result_type = unsigned int;
            static constexpr result_type min() { return 0u; }
            static constexpr result_type max() { return 0xffffffffu; }
            Eng* e;
            result_type operator()() { return (*e)(); }
        };
        add("canonical", "default-path", 2, [](Eng& e, Obs& o, uint64_t) {
            // Every word is taken from the script (upper/lower pairs): the generic template uses
            // two 32-bit words per double.  Exactly zero is a legal output here ([0,1)).
            Plain p{&e};
            double x = generate_canonical<double>(p);
            o.value(x);
            if (!(x >= 0.0 && x < 1.0))
                o.fail("canonical:default-not-in-[0,1)", fmt("generate_canonical<double> = %.17g", x));
            float f = generate_canonical<float>(p);
            if (!(f >= 0.0f && f < 1.0f))
                o.fail("canonical:default-not-in-[0,1)", fmt("generate_canonical<float> = %.9g", double(f)));
            o.draws_le(e, 2, "canonical");
        });
        add("canonical", "scripted-path", 1, [](Eng& e, Obs& o, uint64_t) {
            double x = generate_canonical(e);
            o.value(x);
            if (!(x > 0.0 && x < 1.0))
                o.fail("canonical:scripted-not-in-(0,1)", fmt("%.17g", x));
        });
    }

    //// UniformRealDistribution: a <= x < b (closed under <= 2 ulp rounding of b - a and the fma) ////
    {
        std::vector<std::pair<double, double>> ab = {{0, 1}, {-1, 1}, {1, 2}, {3, 3}, {-1e300, 1e300},
                                                     {0, 1e-300}, {1e6, 1e6 + 1}, {0.1, 0.7},
                                                     {-7.5, -7.25}, {0, 6.283185307179586}};
        for (auto p : ab)
        {
            double a = p.first, b = p.second;
            add("uniform", fmt("a=%g,b=%.17g", a, b), 2, [a, b](Eng& e, Obs& o, uint64_t) {
                UniformRealDistribution<double> d(a, b);
                for (int c = 0; c < 2; ++c)
                {
                    double x = d(e);
                    o.value(x);
                    o.finite(x, "uniform");
                    o.draws_le(e, c + 1, "uniform");
                    if (!in_range(x, a, b, 2))
                        o.fail("uniform:outside-support", fmt("x=%.17g not in [%.17g,%.17g]", x, a, b));
                    if (x >= b && b > a)
                        o.tag("uniform:rounded-onto-upper-bound");
                }
            });
        }
        add("uniform", "default-ctor", 1, [](Eng& e, Obs& o, uint64_t) {
            UniformRealDistribution<double> d;
            double x = d(e);
            o.value(x);
            if (!(x >= 0 && x < 1))
                o.fail("uniform:outside-support", fmt("x=%.17g not in [0,1)", x));
            o.draws_le(e, 1, "uniform");
        });
    }

    //// ExponentialDistribution: x >= 0 ////
    for (double lambda : {1.0, 1e-3, 1e3, 1e-300, 1e300})
        add("exponential", fmt("lambda=%g", lambda), 2, [lambda](Eng& e, Obs& o, uint64_t) {
            ExponentialDistribution<double> d(lambda);
            for (int c = 0; c < 2; ++c)
            {
                double x = d(e);
                o.value(x);
                o.finite(x, "exponential");
                o.draws_le(e, c + 1, "exponential");
                if (!(x >= 0))
                    o.fail("exponential:outside-support", fmt("x=%.17g < 0", x));
            }
        });

    //// NormalDistribution: finite; a pair of values costs two canonicals, the second is cached ////
    {
        std::vector<std::pair<double, double>> ms = {{0, 1}, {5, 0.1}, {-3, 1e3}, {1e10, 1e-5}, {0, 1e-300}};
        for (auto p : ms)
        {
            double m = p.first, s = p.second;
            add("normal", fmt("mean=%g,sd=%g", m, s), 4, [m, s](Eng& e, Obs& o, uint64_t) {
                NormalDistribution<double> d(m, s);
                // |z| <= sqrt(-2 ln u_min) for ANY of the usual transforms of uniforms >= 2^-34
                // (Box-Muller 6.87, inverse CDF 6.1): 10 sigma is outside the reach of a correct
                // sampler on this alphabet but inside double range.
                for (int c = 0; c < 3; ++c)
                {
                    double x = d(e);
                    o.value(x);
                    o.finite(x, "normal");
                    if (c == 1)
                    {
                        o.tag("normal:cached-second-value");
                        o.draws_le(e, 2, "normal");
                    }
                    else
                        o.draws_le(e, c == 0 ? 2 : 4, "normal");
                }
            });
        }
        add("normal", "move-assign-keeps-spare", 4, [](Eng& e, Obs& o, uint64_t) {
            // ScintillationGenerator's use: re-parameterise by move assignment between draws
            NormalDistribution<double> d(0.0, 1.0);
            double x0 = d(e);
            d = NormalDistribution<double>(100.0, 2.0);
            double x1 = d(e);  // spare, rescaled to the new parameters
            o.value(x0);
            o.value(x1);
            o.finite(x0, "normal");
            o.finite(x1, "normal");
            o.draws_le(e, 2, "normal");
            // the spare is a standard normal, |z| <= 6.87 on this alphabet, rescaled by sd=2
            if (!(std::fabs(x1 - 100.0) <= 2.0 * 10.0))
                o.fail("normal:move-assign-wrong-scale", fmt("second value %.17g after re-parameterising to N(100,2)", x1));
            o.tag("normal:move-assign");
        });
    }

    //// GammaDistribution: x > 0, rejection loop bounded ////
    {
        std::vector<double> alphas = {0.1, 0.5, 0.99, 1.0, 1.01, 2.0, 5.0, 100.0};
        std::vector<double> betas = {1.0, 1e-3, 10.0};
        for (double a : alphas)
            for (double b : betas)
            {
                if (!thorough && b != 1.0 && a != 0.5 && a != 5.0 && a != 1.0)
                    continue;
                add("gamma", fmt("alpha=%g,beta=%g", a, b), 0, [a, b](Eng& e, Obs& o, uint64_t k) {
                    GammaDistribution<double> d(a, b);
                    // Marsaglia-Tsang: P(1+cz<=0) <= P(z<=-2.45) = 0.0072 (alpha'>=1 => 9d>=6) and
                    // the acceptance probability is >= 0.95: a normal draw fails to produce an
                    // accepted value with probability <= 0.06 < e^-2.8: 25 tail attempts of <= 3
                    // canonicals fail with < 1e-30; +1 canonical for alpha < 1.
                    uint64_t const per_call = 25 * 3 + 1;
                    for (int c = 0; c < 2; ++c)
                    {
                        uint64_t before = e.canonicals();
                        double x = d(e);
                        o.value(x);
                        o.finite(x, "gamma");
                        // x = d v beta u^(1/alpha) >= 2^-495 > 0 on this alphabet (alpha >= 0.1,
                        // u >= 2^-34, 1+cz >= 2^-53): the documented support x > 0 is exact here
                        if (!(x > 0))
                            o.fail("gamma:outside-support", fmt("x=%.17g <= 0", x));
                        o.draws_le(e, k + (c + 1) * per_call, "gamma");
                        uint64_t used = e.canonicals() - before;
                        uint64_t base = (c == 0 ? 3 : 1) + (a < 1 ? 1 : 0);
                        if (used > base)
                            o.tag("gamma:retry");
                        if (c == 1)
                            o.tag("gamma:spare-normal-at-loop-start");
                    }
                    if (a < 1)
                        o.tag("gamma:alpha<1");
                    else if (a == 1)
                        o.tag("gamma:alpha=1");
                    else
                        o.tag("gamma:alpha>1");
                });
            }
    }

    //// PoissonDistribution ////
    {
        std::vector<double> lambdas = {0.1, 1.0, 4.0, 15.9, 16.0, 16.1, 17.0, 25.0, 64.0, 1e3, 1e6, 1e9};
        for (double l : lambdas)
            add("poisson", fmt("lambda=%.17g", l), 0, [l](Eng& e, Obs& o, uint64_t k) {
                PoissonDistribution<double> d(l);
                bool const direct = l <= 16;  // documented: Knuth for lambda <= 16, Gaussian above
                o.tag(direct ? "poisson:direct" : "poisson:gaussian");
                for (int c = 0; c < 2; ++c)
                {
                    uint64_t before = e.canonicals();
                    unsigned int n = d(e);
                    uint64_t used = e.canonicals() - before;
                    o.value(uint64_t(n));
                    if (direct)
                    {
                        // documented: uniforms are drawn until their product <= exp(-lambda),
                        // X = (number drawn) - 1.  #draws > 100 + (forced) has probability
                        // P(Poisson(16) >= 100) < 1e-40 under the tail.
                        o.draws_le(e, k + (c + 1) * 120, "poisson");
                        if (uint64_t(n) + 1 > used)
                            o.fail("poisson:outside-support",
                                   fmt("k=%u from only %llu uniforms", n, (unsigned long long)used));
                        if (n > 0)
                            o.tag("poisson:direct-k>0");
                    }
                    else
                    {
                        o.draws_le(e, 2, "poisson");
                        // "Gaussian approximation rounded to nearest integer": |z| <= 6.87 on this
                        // alphabet (see normal); a count above lambda + 10 sqrt(lambda) + 1 cannot
                        // come from a correct sampler.  Values >= 2^31 are a negative double
                        // converted to unsigned.
                        double hi = l + 10 * std::sqrt(l) + 1;
                        if (double(n) > hi)
                        {
                            if (n >= 0x80000000u)
                                o.fail("poisson:negative-normal-wraps-to-huge-count",
                                       fmt("call %d returned %u (= 2^32 - %u): the normal approximation went "
                                           "negative and was converted to unsigned",
                                           c, n, 0u - n));
                            else
                                o.fail("poisson:outside-support", fmt("k=%u > lambda+10 sigma = %g", n, hi));
                        }
                        if (c == 1)
                            o.tag("poisson:gaussian-spare");
                    }
                }
            });
    }

    //// ReciprocalDistribution: min(a,b) <= x <= max(a,b) ////
    {
        std::vector<std::pair<double, double>> ab = {{0.1, 10}, {10, 0.1}, {1, 1}, {1e-150, 1e150},
                                                     {1e-11, 1e8}, {2, 2.0000000001}};
        for (auto p : ab)
        {
            double a = p.first, b = p.second;
            add("reciprocal", fmt("a=%g,b=%.17g", a, b), 2, [a, b](Eng& e, Obs& o, uint64_t) {
                ReciprocalDistribution<double> d(a, b);
                double lo = std::min(a, b), hi = std::max(a, b);
                // exp(y) with y = logratio*u carrying <= 1 ulp relative error: relative error of
                // the result <= (|y| + 2) ulp; factor 2 for the product with a
                double nulp = 2 * (std::fabs(std::log(hi / lo)) + 2);
                for (int c = 0; c < 2; ++c)
                {
                    double x = d(e);
                    o.value(x);
                    o.finite(x, "reciprocal");
                    o.draws_le(e, c + 1, "reciprocal");
                    if (!in_range_rel(x, lo, hi, nulp))
                        o.fail("reciprocal:outside-support", fmt("x=%.17g not in [%.17g,%.17g]", x, lo, hi));
                }
                if (a > b)
                    o.tag("reciprocal:reversed-bounds");
            });
        }
        for (double a : {1e-3, 0.5})
            add("reciprocal", fmt("a=%g (single-argument)", a), 1, [a](Eng& e, Obs& o, uint64_t) {
                ReciprocalDistribution<double> d(a);
                double x = d(e);
                o.value(x);
                o.draws_le(e, 1, "reciprocal");
                if (!in_range_rel(x, a, 1.0, 2 * (std::fabs(std::log(a)) + 2)))
                    o.fail("reciprocal:outside-support", fmt("x=%.17g not in [%g,1]", x, a));
                o.tag("reciprocal:single-arg");
            });
    }

    //// InverseSquareDistribution: a <= x <= b ////
    {
        std::vector<std::pair<double, double>> ab = {{1, 2}, {1e-3, 1e3}, {5, 5}, {1e-150, 1e150}, {1e-5, 1.0000001e-5}};
        for (auto p : ab)
        {
            double a = p.first, b = p.second;
            add("invsquare", fmt("a=%g,b=%.17g", a, b), 2, [a, b](Eng& e, Obs& o, uint64_t) {
                InverseSquareDistribution<double> d(a, b);
                for (int c = 0; c < 2; ++c)
                {
                    double x = d(e);
                    o.value(x);
                    o.finite(x, "invsquare");
                    o.draws_le(e, c + 1, "invsquare");
                    // a*b, b-a, fma, division: 4 roundings of <= 1/2 ulp each
                    if (!in_range_rel(x, a, b, 4))
                        o.fail("invsquare:outside-support", fmt("x=%.17g not in [%.17g,%.17g]", x, a, b));
                }
            });
        }
    }

    //// RadialDistribution: 0 <= r < R ////
    for (double r : {1.0, 1e-10, 1e10, 3.3})
        add("radial", fmt("R=%g", r), 1, [r](Eng& e, Obs& o, uint64_t) {
            RadialDistribution<double> d(r);
            double x = d(e);
            o.value(x);
            o.finite(x, "radial");
            o.draws_le(e, 1, "radial");
            if (!in_range(x, 0, r, 1) || x < 0)
                o.fail("radial:outside-support", fmt("r=%.17g not in [0,%g]", x, r));
        });

    //// IsotropicDistribution: unit vector ////
    add("isotropic", "unit-sphere", 4, [](Eng& e, Obs& o, uint64_t) {
        IsotropicDistribution<double> d;
        for (int c = 0; c < 2; ++c)
        {
            Real3 v = d(e);
            o.value(v[0]);
            o.value(v[1]);
            o.value(v[2]);
            o.draws_le(e, 2 * (c + 1), "isotropic");
            long double n2 = (ld)v[0] * v[0] + (ld)v[1] * v[1] + (ld)v[2] * v[2];
            // c^2 (1/2 ulp), sqrt(1-c^2) (1 ulp rel on sin^2 after squaring), cos/sin phi (1 ulp
            // each, doubled by squaring), products: < 8 ulp(1) in total; allow 16
            if (!(fabsl(n2 - 1) <= 16 * 2.220446049250313e-16L))
                o.fail("isotropic:not-unit", fmt("|v|^2-1 = %Lg for v=(%.17g,%.17g,%.17g)", n2 - 1, v[0], v[1], v[2]));
            if (!(v[2] >= -1 && v[2] <= 1))
                o.fail("isotropic:outside-support", fmt("cos theta = %.17g", v[2]));
        }
    });
    //// from_spherical (corecel/math/ArrayUtils.hh) on the alphabet itself ////
    add("from_spherical", "unit", 2, [](Eng& e, Obs& o, uint64_t) {
        double ct = 2 * generate_canonical(e) - 1;
        double phi = 2 * double(kPi) * generate_canonical(e);
        Real3 v = from_spherical(ct, phi);
        o.value(v[0]);
        long double n2 = (ld)v[0] * v[0] + (ld)v[1] * v[1] + (ld)v[2] * v[2];
        if (!(fabsl(n2 - 1) <= 16 * 2.220446049250313e-16L) || v[2] != ct)
            o.fail("from_spherical:not-unit", fmt("costheta=%.17g phi=%.17g -> |v|^2-1=%Lg z=%.17g", ct, phi, n2 - 1, v[2]));
    });

    //// rotate (corecel/math/ArrayUtils.hh): how every angular sampler's (cos theta, phi) is turned
    //// into a direction: rotate(from_spherical(cos theta, phi), incident) must be a unit vector
    //// at polar angle theta from the incident direction ////
    {
        auto unit = [](ld x, ld y, ld z) {
            ld n = sqrtl(x * x + y * y + z * z);
            return Real3{double(x / n), double(y / n), double(z / n)};
        };
        std::vector<std::pair<std::string, Real3>> rots = {
            {"+z", {0, 0, 1}},
            {"-z", {0, 0, -1}},
            {"near+z,y<0", unit(1e-3L, -2e-3L, 1)},
            {"near-z,x<0,y<0", unit(-1e-3L, -1e-3L, -1)},
            {"near+z,h=5e-6,y<0", unit(3e-6L, -4e-6L, 1)},
            {"z=1-2^-53,x=y=0", {0, 0, 1 - 1.1102230246251565e-16}},
            {"just-inside-renormalising-branch", unit(0.004L, -0.002L, 1)},
            {"just-outside", unit(0.006L, -0.003L, 1)},
            // near-axis letters OFF the recorded defect (y > 0): the renormalising branch must be
            // right to the tight tolerance there, in both hemispheres
            {"near+z,x<0,y>0", unit(-1e-3L, 2e-3L, 1)},
            {"near-z,x>0,y>0", unit(2e-3L, 1e-3L, -1)},
            {"near-z,h=5e-6,x<0,y>0", unit(-3e-6L, 4e-6L, -1)},
            // between the double (0.005) and float (0.07) thresholds, y < 0, both hemispheres
            {"h=0.036(generic-branch),y<0,-z", unit(0.03L, -0.02L, -1)},
            {"h=0.036(generic-branch),y<0,+z", unit(-0.03L, -0.02L, 1)},
            {"generic", unit(1, 2, 3)},
            {"+x", {1, 0, 0}},
            {"-y", {0, -1, 0}},
        };
        for (auto const& nr : rots)
        {
            Real3 rot = nr.second;
            add("rotate", "incident=" + nr.first, 2, [rot](Eng& e, Obs& o, uint64_t) {
                double ct = std::fma(2.0, generate_canonical(e), -1.0);
                double phi = 2 * double(kPi) * generate_canonical(e);
                Real3 out = rotate(from_spherical(ct, phi), rot);
                for (int i = 0; i < 3; ++i)
                {
                    o.value(out[i]);
                    o.finite(out[i], "rotate");
                }
                ld n2 = (ld)out[0] * out[0] + (ld)out[1] * out[1] + (ld)out[2] * out[2];
                if (!(fabsl(n2 - 1) <= 8 * 2.220446049250313e-16L))
                    o.fail("rotate:not-unit", fmt("|out|^2-1 = %Lg", n2 - 1));
                // polar angle about the incident direction.  h = |rot_xy|; sin(theta_rot) is computed
                // as sqrt(1 - z^2), whose relative error is up to ~2^-53/h^2; it rescales the
                // azimuthal frame (generic branch, then removed by the final normalisation at the
                // cost of the same relative error in the result) or the polar frame (near-axis
                // branch): tolerance 1e-14 + 4e-16/h^2.  No claim when 0 <= h < 1e-7 with |z| != 1:
                // the polar angle of the incident direction is then below the resolution of 1 - z^2.
                ld h = sqrtl((ld)rot[0] * rot[0] + (ld)rot[1] * rot[1]);
                ld dot = (ld)out[0] * rot[0] + (ld)out[1] * rot[1] + (ld)out[2] * rot[2];
                if ((h == 0 && std::fabs(rot[2]) == 1.0) || h >= 1e-7L)
                {
                    ld tol = 1e-14L + (h > 0 ? 4e-16L / (h * h) : 0);
                    // signature: one per branch class of the incident direction, so that the recorded
                    // defect (renormalising branch, y < 0: sign of sin(phi) lost) does not mask a wrong
                    // polar angle anywhere else
                    char const* cls = (h > 0 && h < 0.005L) ? (rot[1] < 0 ? "renorm,y<0" : "renorm,y>=0")
                                      : h == 0              ? "on-axis"
                                                            : "generic";
                    if (!(fabsl(dot - ct) <= tol))
                        o.fail(fmt("rotate:wrong-polar-angle[%s]", cls),
                               fmt("incident=(%.17g,%.17g,%.17g) cos theta=%.17g phi=%.17g: out.incident=%.17Lg (diff %.3Lg, tol %.3Lg)",
                                   rot[0], rot[1], rot[2], ct, phi, dot, dot - ct, tol));
                }
                if (h > 0 && h < 0.005)
                    o.tag("rotate:renormalising-branch");
                else if (h == 0)
                    o.tag("rotate:on-axis");
            });
        }
    }

    //// UniformBoxDistribution: inside the box ////
    {
        std::vector<std::pair<Real3, Real3>> boxes = {{{-1, -2, -3}, {1, 2, 3}},
                                                      {{0, 0, 0}, {0, 1, 1e-9}},
                                                      {{-1e300, 5, -1e-300}, {1e300, 5.5, 1e-300}}};
        int bi = 0;
        for (auto bx : boxes)
        {
            Real3 lo = bx.first, hi = bx.second;
            add("box", fmt("box%d", bi++), 3, [lo, hi](Eng& e, Obs& o, uint64_t) {
                UniformBoxDistribution<double> d(lo, hi);
                Real3 x = d(e);
                o.draws_le(e, 3, "box");
                for (int i = 0; i < 3; ++i)
                {
                    o.value(x[i]);
                    o.finite(x[i], "box");
                    if (!in_range(x[i], lo[i], hi[i], 2))
                        o.fail("box:outside-support", fmt("x[%d]=%.17g not in [%.17g,%.17g]", i, x[i], lo[i], hi[i]));
                }
            });
        }
    }

    //// BernoulliDistribution ////
    {
        for (double p : {0.0, 9.094947017729282e-13 /*2^-40*/, 0.5, 1.0})
            add("bernoulli", fmt("p=%g", p), 2, [p](Eng& e, Obs& o, uint64_t) {
                BernoulliDistribution d(p);
                for (int c = 0; c < 2; ++c)
                {
                    bool b = d(e);
                    o.value(uint64_t(b));
                    o.draws_le(e, c + 1, "bernoulli");
                    if (p == 0 && b)
                        o.fail("bernoulli:true-with-p=0", "returned true");
                    if (p == 1 && !b)
                        o.fail("bernoulli:false-with-p=1", "returned false");
                }
                if (p == 0 || p == 1)
                    o.tag("bernoulli:certain");
            });
        std::vector<std::pair<double, double>> tf = {{1, 35}, {0, 1}, {1, 0}, {1e-300, 1e-300}};
        for (auto q : tf)
        {
            double t = q.first, f = q.second;
            add("bernoulli", fmt("scaled=%g:%g", t, f), 1, [t, f](Eng& e, Obs& o, uint64_t) {
                BernoulliDistribution d(t, f);
                bool b = d(e);
                o.value(uint64_t(b));
                o.draws_le(e, 1, "bernoulli");
                if (t == 0 && b)
                    o.fail("bernoulli:true-with-p=0", "returned true");
                if (f == 0 && !b)
                    o.fail("bernoulli:false-with-p=1", "returned false");
                if (!(d.p() >= 0 && d.p() <= 1))
                    o.fail("bernoulli:p-out-of-range", fmt("p()=%g", d.p()));
            });
        }
    }

    //// Selector / make_selector: a valid index of non-zero weight ////
    {
        // dyadic weights: all partial sums and total*u are exact, so "never a zero-weight
        // element" is exact too
        std::vector<std::vector<double>> ws = {{1},           {0, 1},          {1, 0},       {.5, .5, 0},
                                               {0, .5, 0, .5}, {0, 0, 1},       {.25, .25, .25, .25},
                                               {0, 0, 0, 0, 0, 0, 0, 2},        {4, 0, 0, 0},
                                               {.125, 0, .375, 0, .5, 0}};
        for (auto const& w : ws)
        {
            double total = 0;
            std::string s;
            for (double x : w)
            {
                total += x;
                s += fmt("%s%g", s.empty() ? "" : ",", x);
            }
            add("selector", "w=[" + s + "]", 2, [w, total](Eng& e, Obs& o, uint64_t) {
                auto f = [&w](size_type i) { return w[i]; };
                auto sel = make_selector(f, size_type(w.size()), total);
                for (int c = 0; c < 2; ++c)
                {
                    size_type i = sel(e);
                    o.value(uint64_t(i));
                    o.draws_le(e, c + 1, "selector");
                    if (!(i < w.size()))
                        o.fail("selector:index-out-of-range", fmt("index %u of %zu", i, w.size()));
                    else if (w[i] == 0)
                        o.fail("selector:zero-weight-selected", fmt("index %u has weight 0", i));
                    else if (i + 1 == w.size())
                        o.tag("selector:last");
                    else
                        for (size_type j = 0; j < i; ++j)
                            if (w[j] == 0)
                            {
                                o.tag("selector:skipped-zero");
                                break;
                            }
                }
            });
        }
        // non-dyadic weights, default total = 1 (soft-equal to the accumulated sum): valid index
        std::vector<std::vector<double>> ws2 = {{0.1, 0.2, 0.7}, {0.3, 0.3, 0.3, 0.1}, {1. / 3, 1. / 3, 1. / 3}};
        for (auto const& w : ws2)
        {
            std::string s;
            for (double x : w)
                s += fmt("%s%.3g", s.empty() ? "" : ",", x);
            add("selector", "default-total w=[" + s + "]", 1, [w](Eng& e, Obs& o, uint64_t) {
                using TestId = OpaqueId<struct C15Tag_>;
                auto f = [&w](TestId i) { return w[i.get()]; };
                auto sel = make_selector(f, TestId(w.size()));
                TestId i = sel(e);
                o.draws_le(e, 1, "selector");
                o.value(uint64_t(i.unchecked_get()));
                if (!(i && i.get() < w.size()))
                    o.fail("selector:index-out-of-range", fmt("id %u of %zu", i.unchecked_get(), w.size()));
                o.tag("selector:opaque-id");
            });
        }
    }

    // Documented edge case (class comment: "it will never iterate off the end, even for incorrect
    // values of the total"): total above the accumulated sum but inside the constructor's
    // soft_equal tolerance (1e-12), canonical just below 1 (upper word 0xffffffff, lower word
    // 0x001ff000: u = 1 - 2^-41).  Own engine: the letters of the driver are not used.
    add("selector", "total=sum*(1+5e-13),u=1-2^-41", 1, [](Eng&, Obs& o, uint64_t) {
        static double const w[3] = {0.3, 0.3, 0.4};
        Eng e({0xffffffffu}, 0, 0x001ff000u);
        auto f = [](size_type i) { return w[i]; };
        auto sel = make_selector(f, size_type(3), 1.0 + 5e-13);
        size_type i = sel(e);
        o.value(uint64_t(i));
        if (!(i < 3))
            o.fail("selector:index-out-of-range", fmt("index %u of 3 with u=1-2^-41 and total=sum*(1+5e-13)", i));
        o.tag("selector:fell-through-to-last");
    });

    //// RejectionSampler ////
    {
        std::vector<std::pair<double, double>> ff = {{0, 1}, {0.5, 1}, {1, 1}, {3, 3}, {9.094947017729282e-13, 1}, {2, 8}};
        for (auto q : ff)
        {
            double f = q.first, fm = q.second;
            add("rejection", fmt("f=%g,fmax=%g", f, fm), 2, [f, fm](Eng& e, Obs& o, uint64_t) {
                for (int c = 0; c < 2; ++c)
                {
                    bool rej = RejectionSampler<double>(f, fm)(e);
                    o.value(uint64_t(rej));
                    o.draws_le(e, c + 1, "rejection");
                    if (f == fm && rej)
                        o.fail("rejection:rejects-with-f=fmax", "acceptance probability 1 but the loop would continue");
                    if (f == 0 && !rej)
                        o.fail("rejection:accepts-with-f=0", "acceptance probability 0 but accepted");
                }
            });
        }
        add("rejection", "f=0.3 (single-argument)", 1, [](Eng& e, Obs& o, uint64_t) {
            bool rej = RejectionSampler<double>(0.3)(e);
            o.value(uint64_t(rej));
            o.draws_le(e, 1, "rejection");
        });
    }

    //// TsaiUrbanDistribution: cos theta in [-1, 1] ////
    {
        std::vector<std::pair<double, double>> em = {{1e-6, 0.5109989461}, {1e-3, 0.5109989461}, {0.1, 0.5109989461},
                                                     {1, 0.5109989461},    {10, 0.5109989461},   {100, 0.5109989461},
                                                     {1e5, 0.5109989461},  {1, 105.6583745}};
        for (auto q : em)
        {
            double E = q.first, m = q.second;
            add("tsaiurban", fmt("E=%g,m=%g", E, m), 0, [E, m](Eng& e, Obs& o, uint64_t k) {
                TsaiUrbanDistribution d{units::MevEnergy{E}, units::MevMass{m}};
                // acceptance P(u <= umax) >= value at umax = 2: 0.25 G2(1.25) + 0.75 G2(3.75)
                // = 0.755 with G2(x) = 1-(1+x)e^-x; 50 tail attempts of 3 canonicals: 0.245^50 < 1e-30
                uint64_t const per_call = 3 * 50;
                for (int c = 0; c < 2; ++c)
                {
                    uint64_t before = e.canonicals();
                    double x = d(e);
                    o.value(x);
                    o.finite(x, "tsaiurban");
                    o.draws_le(e, k + (c + 1) * per_call, "tsaiurban");
                    if (!(x >= -1 && x <= 1))
                        o.fail("tsaiurban:outside-support", fmt("cos theta = %.17g", x));
                    if (e.canonicals() - before > 3)
                        o.tag("tsaiurban:retry");
                    if (x < 0)
                        o.tag("tsaiurban:backward");
                }
            });
        }
    }

    //// EnergyLossGaussianDistribution (direct): 0 < loss <= 2 mean ////
    {
        std::vector<std::pair<double, double>> ms = {{1, 0.1}, {1, 0.5}, {1, 4}, {1e-3, 1e-4}, {10, 1}};
        for (auto q : ms)
        {
            double m = q.first, s = q.second;
            add("eloss-gaussian", fmt("mean=%g,sd=%g", m, s), 0, [m, s](Eng& e, Obs& o, uint64_t k) {
                EnergyLossGaussianDistribution d{units::MevEnergy{m}, units::MevEnergy{s}};
                double pacc = double(Phi(m / s) - Phi(-m / s));
                uint64_t const per_call = 2 * attempts_for(pacc);
                for (int c = 0; c < 2; ++c)
                {
                    uint64_t before = e.canonicals();
                    double x = d(e).value();
                    o.value(x);
                    o.draws_le(e, k + (c + 1) * per_call, "eloss-gaussian");
                    if (!(x > 0 && x <= 2 * m))
                        o.fail("eloss-gaussian:outside-support", fmt("loss=%.17g not in (0,%g]", x, 2 * m));
                    if (e.canonicals() - before > (c == 0 ? 2u : 0u))
                        o.tag("eloss-gaussian:retry");
                }
            });
        }
    }
    //// EnergyLossGammaDistribution (direct): loss > 0 ////
    {
        std::vector<std::pair<double, double>> mv = {{0.1, 0.14}, {1, 0.3}, {1, 1}, {1, 10}, {1e-2, 1e-6}};
        for (auto q : mv)
        {
            double m = q.first, v = q.second;
            add("eloss-gamma", fmt("mean=%g,var=%g", m, v), 0, [m, v](Eng& e, Obs& o, uint64_t k) {
                using EnergySq = EnergyLossGammaDistribution::EnergySq;
                EnergyLossGammaDistribution d{units::MevEnergy{m}, EnergySq{v}};
                for (int c = 0; c < 2; ++c)
                {
                    double x = d(e).value();
                    o.value(x);
                    o.finite(x, "eloss-gamma");
                    o.draws_le(e, k + (c + 1) * 76, "eloss-gamma");
                    if (!(x > 0))
                        o.fail("eloss-gamma:outside-support", fmt("loss=%.17g", x));
                }
                if (m * m / v < 1)
                    o.tag("eloss-gamma:k<1");
            });
        }
    }
    //// Energy-loss fluctuation: EnergyLossHelper model selection + the selected sampler ////
    {
        // Urban per call: 2 x (Poisson(<=8) <= 120 canonicals + 1) excitation, one fast Gaussian
        // (sd <= 4 mean => acceptance >= 2 Phi(1/4) - 1 = 0.197 => 316 attempts x 2 canonicals),
        // ionisation: one fast Gaussian (632) + Poisson(8 xs/(xs+8) < 8) (120) + one uniform per
        // ionisation (<= 120)
        uint64_t const urban_per_call = 2 * 121 + 632 + 632 + 120 + 120;
        auto tag_urban = [](EnergyLossUrbanDistribution const& d, Obs& o, double unscaled_mean_loss) {
            // The model's defining identity (PRM Eq. 7.10/7.11, class comment "keeping the mean loss
            // the same"): in EVERY constructor branch the expected loss of the three processes,
            // rescaled, is the requested mean loss:
            //   loss_scaling (Sigma_1 E_1 + Sigma_2 E_2 + Sigma_3 E0 ln(Tmax/E0) Tmax/(Tmax-E0)) = <dE>
            // (excitation carries (1-r), ionisation r - or everything when excitation is off; the
            // width correction multiplies E_1 and divides Sigma_1 by the same factor).  Rounding: a
            // dozen double operations, and f_1 ln E_1 + f_2 ln E_2 = ln I holds to ~1e-15 relative in
            // the stored parameters, amplified by |ln I|/(w - w_0) <~ 1e3 on this lattice: 1e-9.
            {
                ld const e0 = 1e-5L, tmax = d.max_energy_;
                ld const exc = ld(d.xs_exc_[0]) * d.binding_energy_[0] + ld(d.xs_exc_[1]) * d.binding_energy_[1];
                ld const ion = ld(d.xs_ion_) * e0 * logl(tmax / e0) * tmax / (tmax - e0);
                ld const total = ld(d.loss_scaling_) * (exc + ion);
                ld const rel = fabsl(total - unscaled_mean_loss) / unscaled_mean_loss;
                o.R.maxi("urban_ctor_mean_identity_relerr_1e-18", uint64_t(double(rel) * 1e18));
                if (!(rel <= 1e-9L))
                    o.fail("eloss-urban:constructor-mean-loss-identity",
                           fmt("loss_scaling(%.17g) * (xs_exc.E = %.17Lg + xs_ion<E> = %.17Lg) = %.17Lg but the "
                               "requested mean loss is %.17g (xs_exc=(%g,%g) E=(%g,%g) xs_ion=%g Tmax=%g)",
                               d.loss_scaling_, exc, ion, total, unscaled_mean_loss, d.xs_exc_[0], d.xs_exc_[1],
                               d.binding_energy_[0], d.binding_energy_[1], d.xs_ion_, d.max_energy_));
            }
            double const e0 = 1e-5;
            for (int i = 0; i < 2; ++i)
            {
                if (d.xs_exc_[i] > 8)
                    o.tag(i ? "urban:exc2-fast-gaussian" : "urban:exc1-fast-gaussian");
                else if (d.xs_exc_[i] > 0)
                    o.tag(i ? "urban:exc2-poisson" : "urban:exc1-poisson");
                else
                    o.tag(i ? "urban:exc2-off" : "urban:exc1-off");
            }
            if (d.xs_ion_ > 8)
                o.tag("urban:ion-fast+poisson");
            else
                o.tag("urban:ion-poisson-only");
            if (d.loss_scaling_ > 1.25)
                o.tag("urban:width-correction-max");
            (void)e0;
        };
        auto sample_urban = [urban_per_call, tag_urban](EnergyLossUrbanDistribution& d, Eng& e, Obs& o, uint64_t k,
                                                        double unscaled_mean_loss) {
            tag_urban(d, o, unscaled_mean_loss);
            for (int c = 0; c < 2; ++c)
            {
                // operator() is loss_scaling * (excitation stage + ionisation stage) on the same word
                // stream (the stages are judged against their analytic laws in part "quadrature"; the
                // order in which the two operands of '+' are evaluated is the compiler's choice)
                Eng e1 = e, e2 = e;
                double const exc1 = d.sample_excitation_loss(e1), ion1 = d.sample_ionization_loss(e1);
                double const ion2 = d.sample_ionization_loss(e2), exc2 = d.sample_excitation_loss(e2);
                double x = d(e).value();
                if (x != d.loss_scaling_ * (exc1 + ion1) && x != d.loss_scaling_ * (exc2 + ion2))
                    o.fail("eloss-urban:not-scaled-sum-of-stages",
                           fmt("operator() = %.17g but loss_scaling (%.17g) * (excitation %.17g + ionisation %.17g) = %.17g",
                               x, d.loss_scaling_, exc1, ion1, d.loss_scaling_ * (exc1 + ion1)));
                o.value(x);
                o.finite(x, "eloss-urban");
                o.draws_le(e, k + (c + 1) * urban_per_call, "eloss-urban");
                if (!(x >= 0))
                    o.fail("eloss-urban:outside-support", fmt("loss=%.17g < 0", x));
                if (x == 0)
                    o.tag("urban:zero-loss");
            }
        };

        std::vector<double> energies = {3e-5, 1e-3, 1e-2, 1.0, 100.0, 1e4};
        std::vector<double> losses = {5e-6, 2e-5, 1e-3, 0.1, 5.0};
        std::vector<double> steps = {1e-4, 1e-2, 1.0};
        // one helper-driven case
        auto add_eloss = [&](int ip, int im, double E, double loss, double step, int ic) {
                            {
                            {
                                ElossWorld* w = &W;
                                add("eloss",
                                    fmt("%s,%s,E=%g,loss=%g,step=%g,cut=%g", W.par_names[ip].c_str(),
                                        W.mat_names[im].c_str(), E, loss, step, W.cut_value[ic]),
                                    0,
                                    [=](Eng& e, Obs& o, uint64_t k) {
                                        using units::MevEnergy;
                                        ParticleTrackView particle(w->particles->host_ref(), w->pstate.ref(), TrackSlotId{0});
                                        particle = {ParticleId(ip), MevEnergy{E}};
                                        MaterialTrackView material(w->materials->host_ref(), w->mstate.ref(), TrackSlotId{0});
                                        material = {MaterialId(im)};
                                        CutoffView cutoff(w->cutoffs[ic]->host_ref(), MaterialId(im));
                                        EnergyLossHelper helper(w->fluct->host_ref(), cutoff, material, particle,
                                                                MevEnergy{loss}, step * units::centimeter);
                                        using Model = EnergyLossFluctuationModel;
                                        Model const model = helper.model();

                                        // ---- documented regime rules, re-derived in long double ----
                                        ld const me = 0.5109989461L, M = w->par_mass[ip];
                                        ld const gam = 1 + ld(E) / M, bsq = 1 - 1 / (gam * gam);
                                        ld const two_mebsgs = 2 * me * bsq * gam * gam;
                                        bool const is_electron = (ip == 0);
                                        ld const mr = is_electron ? 1 : me / M;
                                        ld const tmax = is_electron ? ld(E) / 2 : two_mebsgs / (1 + mr * (2 * gam + mr));
                                        ld const tc = std::min<ld>(w->cut_value[ic], tmax);
                                        ld const e0 = 1e-5L;
                                        ld const nel = w->materials->get(MaterialId(im)).electron_density();
                                        ld const re = constants::r_electron;
                                        ld const q = w->par_charge[ip];
                                        ld const bohr = 2 * kPi * re * re * me * nel * q * q * tc * ld(step * units::centimeter) * (1 / bsq - 0.5L);
                                        auto near = [](ld a, ld b) { return fabsl(a - b) <= 1e-9L * fmaxl(fabsl(a), fabsl(b)); };
                                        // Exact ties: where both sides of a documented comparison are
                                        // BIT-IDENTICAL doubles (plain input letters, no computed quantity
                                        // involved) the documented operator decides - G4UniversalFluctuation:
                                        // "meanLoss < minLoss -> no fluctuation", "meanLoss >= 10 tcut (and
                                        // tmax <= 2 tcut) -> Gaussian/gamma", i.e. Urban iff loss < 10 Tc.
                                        // Merely close values (computed Tmax, Bohr variance) are skipped.
                                        bool const tie_e0 = (loss == 1e-5);
                                        bool const tc_is_cut = tmax > ld(w->cut_value[ic]) * (1 + 1e-6L);
                                        bool const tie_kappa = tc_is_cut && (10.0 * w->cut_value[ic] == loss);
                                        int want = -1;  // -1: too close to a regime boundary to call
                                        if ((!tie_e0 && near(loss, e0)) || near(tc, e0))
                                            want = -1;
                                        else if ((!tie_e0 && loss < e0) || tc <= e0)
                                            want = int(Model::none);
                                        else if ((!tie_kappa && near(loss, 10 * tc)) || near(tmax, 2 * tc))
                                            want = -1;
                                        else if (mr >= 1 || (!tie_kappa && loss < 10 * tc) || tmax > 2 * tc)
                                            want = int(Model::urban);
                                        else if (near(ld(loss) * loss, 4 * bohr))
                                            want = -1;
                                        else
                                            want = int(ld(loss) * loss >= 4 * bohr ? Model::gaussian : Model::gamma);
                                        if (want >= 0 && want != int(model))
                                            o.fail("eloss:model-selection",
                                                   fmt("helper chose model %d, documented rules give %d (Tmax=%Lg Tc=%Lg "
                                                       "bohr_var=%Lg mass_ratio=%Lg)",
                                                       int(model), want, tmax, tc, bohr, mr));
                                        if (tie_e0 && want >= 0)
                                            o.tag("eloss:exact-tie:loss==E0");
                                        if (tie_kappa && want >= 0)
                                            o.tag("eloss:exact-tie:loss==10Tc");
                                        if (model != Model::none)
                                        {
                                            // the helper's precalculated quantities against the re-derivation
                                            // above.  Rounding model: beta^2 = 1 - (m/(E+m))^2 is formed in
                                            // double with an absolute error of ~2 ulp(1), i.e. a relative error
                                            // 2e-16/beta^2 that all four quantities inherit; a dozen further
                                            // operations: 1e-12.
                                            ld const tol = 1e-12L + 2e-15L / bsq;
                                            struct Cmp
                                            {
                                                char const* what;
                                                ld got, want;
                                            };
                                            Cmp const cmps[] = {{"beta_sq", helper.beta_sq(), bsq},
                                                                {"two_mebsgs", value_as<units::MevMass>(helper.two_mebsgs()), two_mebsgs},
                                                                {"max_energy", value_as<MevEnergy>(helper.max_energy()), tc},
                                                                {"bohr_variance", helper.bohr_variance().value(), bohr}};
                                            for (Cmp const& c : cmps)
                                                if (!(fabsl(c.got - c.want) <= tol * fabsl(c.want)))
                                                    o.fail(fmt("eloss:helper-%s", c.what),
                                                           fmt("helper.%s() = %.17Lg, re-derived %.17Lg (rel. diff %.3Lg, tol %.3Lg; charge %Lg)",
                                                               c.what, c.got, c.want, (c.got - c.want) / c.want, tol, q));
                                            if (q * q != 1)
                                                o.tag("eloss:charge^2!=1");
                                        }
                                        switch (model)
                                        {
                                            case Model::none: {
                                                o.tag("eloss:model=none");
                                                EnergyLossDeltaDistribution d(helper);
                                                double x = d(e).value();
                                                o.value(x);
                                                o.draws_le(e, 0, "eloss-delta");
                                                if (x != loss)
                                                    o.fail("eloss-delta:not-mean", fmt("loss=%.17g mean=%.17g", x, loss));
                                                break;
                                            }
                                            case Model::gamma: {
                                                o.tag("eloss:model=gamma");
                                                EnergyLossGammaDistribution d(helper);
                                                for (int c = 0; c < 2; ++c)
                                                {
                                                    double x = d(e).value();
                                                    o.value(x);
                                                    o.finite(x, "eloss-gamma");
                                                    o.draws_le(e, k + (c + 1) * 76, "eloss-gamma");
                                                    // shape k = mean^2/var can be arbitrarily small here, so
                                                    // u^(1/k) may underflow: the support is checked as >= 0
                                                    if (!(x >= 0))
                                                        o.fail("eloss-gamma:outside-support", fmt("loss=%.17g", x));
                                                }
                                                break;
                                            }
                                            case Model::gaussian: {
                                                o.tag("eloss:model=gaussian");
                                                EnergyLossGaussianDistribution d(helper);
                                                // selected only when mean >= 2 sd: acceptance >= 0.954
                                                uint64_t per_call = 2 * attempts_for(0.954);
                                                for (int c = 0; c < 2; ++c)
                                                {
                                                    double x = d(e).value();
                                                    o.value(x);
                                                    o.draws_le(e, k + (c + 1) * per_call, "eloss-gaussian");
                                                    if (!(x > 0 && x <= 2 * loss))
                                                        o.fail("eloss-gaussian:outside-support",
                                                               fmt("loss=%.17g not in (0,%g]", x, 2 * loss));
                                                }
                                                break;
                                            }
                                            case Model::urban: {
                                                o.tag("eloss:model=urban");
                                                EnergyLossUrbanDistribution d(helper);
                                                sample_urban(d, e, o, k, loss);
                                                break;
                                            }
                                        }
                                    });
                            }
                            }
        };
        for (int ip = 0; ip < 5; ++ip)
            for (int im = 0; im < 3; ++im)
                for (double E : energies)
                    for (double loss : losses)
                        for (double step : steps)
                            for (int ic = 0; ic < 2; ++ic)
                            {
                                if (loss > E)
                                    continue;
                                if (!thorough && ((ip + im + ic) % 2 || step == 1e-4))
                                    continue;
                                add_eloss(ip, im, E, loss, step, ic);
                            }
        // exact regime ties (plain letters): loss == E0 = 1e-5 (helper line "mean_loss < min_energy"),
        // loss == 10 Tc with Tc = cut = 1e-3 (0.001 * 10 == 0.01 in double); the latter decides only
        // when Tmax is in (Tc, 2 Tc]: mu- at 0.08 MeV (Tmax = 1.55 keV), p at 0.7 MeV (1.53 keV),
        // alpha at 2.8 MeV (1.54 keV)
        for (int ip = 0; ip < 5; ++ip)
            for (int im = 0; im < 3; ++im)
            {
                if (!thorough && (ip + im) % 2)
                    continue;
                for (double E : {1e-3, 1.0})
                    for (int ic = 0; ic < 2; ++ic)
                        add_eloss(ip, im, E, 1e-5, 1e-2, ic);
                for (double E : {0.08, 0.7, 2.8})
                    for (double step : {1e-2, 1.0})
                        add_eloss(ip, im, E, 1e-2, step, 0);
            }
        // Urban through its public constructor, to reach the branches the helper cannot produce
        struct U
        {
            int mat;
            double loss, tmax, two_mebsgs, bsq;
            char const* why;
        };
        std::vector<U> us = {{1, 1e-3, 1e-3, 1e-4, 1e-4, "w<=w0"},
                             {1, 1e-3, 1e-4, 1.0, 0.5, "Tc<=I"},
                             {2, 1e-2, 1e-2, 0.05, 0.05, "w<=log(E2)"},
                             {1, 1.0, 1e-3, 1e3, 0.99, "many-collisions"},
                             {0, 1e-4, 5e-4, 10.0, 0.9, "Z=1"},
                             {2, 3e-5, 2e-5, 1e3, 0.99, "Tc~2E0"}};
        for (auto u : us)
        {
            ElossWorld* w = &W;
            add("eloss-urban", fmt("direct:%s", u.why), 0, [=](Eng& e, Obs& o, uint64_t k) {
                MaterialTrackView material(w->materials->host_ref(), w->mstate.ref(), TrackSlotId{0});
                material = {MaterialId(u.mat)};
                EnergyLossUrbanDistribution d(w->fluct->host_ref(), material, units::MevEnergy{u.loss},
                                              units::MevEnergy{u.tmax}, units::MevMass{u.two_mebsgs}, u.bsq);
                sample_urban(d, e, o, k, u.loss);
            });
        }
    }
    // Families whose documented support is closed at canonical == 0 (u in [0,1)): they also run in the
    // exact-dyadic pass (u = 0, 1/4, 1/2, 3/4 exactly; exact ties u*total == partial sum for the dyadic
    // selector weights).  NOT in this set, on purpose: exponential / normal / gamma / Poisson(lambda>16) /
    // everything built on them (log(0), u^(1/alpha) = 0: the unmodified samplers return inf / 0 there,
    // probability 2^-64 per draw), rejection (f = 0 is "accepted" by u = 0 < 0 being false only), the
    // rotate / from_spherical letters (not samplers), canonical:scripted-path (asserts u > 0).
    for (auto& c : C)
    {
        static char const* const fams[] = {"bernoulli", "selector", "uniform", "box", "radial",
                                           "isotropic", "invsquare", "reciprocal"};
        for (char const* f : fams)
            if (c.family == f)
                c.closed_at_zero = true;
        if (c.family == "poisson")
        {
            double l = std::atof(c.name.c_str() + std::string("poisson:lambda=").size());
            c.closed_at_zero = (l > 0 && l <= 16);
        }
    }
    return C;
}

static void run_support(vf::Run& R, ElossWorld& W)
{
    bool const thorough = R.thorough();
    // Passes: the planned alphabet to full depth, plus a shallower pass over an alphabet that
    // also contains 1/8 and 5/8: with multiples of 1/4 only, Box-Muller angles are multiples of
    // pi/2 and one member of every normal pair is ~0, which hides retry chains.
    struct Pass
    {
        char const* id;
        std::vector<uint32_t> A;
        int k;
        uint32_t lower = kMidCell;  // lower word of scripted canonicals
        bool only_closed_at_zero = false;
    };
    std::vector<uint32_t> A9 = vf::alphabet_u7();
    A9.push_back(0x20000000u);
    A9.push_back(0xa0000000u);
    std::vector<Pass> passes;
    if (thorough)
    {
        passes.push_back({"A7k6", vf::alphabet_u7(), 6});
        passes.push_back({"A9k4", A9, 4});
        passes.push_back({"Z4k4", {0x00000000u, 0x40000000u, 0x80000000u, 0xc0000000u}, 4, 0u, true});
    }
    else
    {
        passes.push_back({"A5k4", vf::alphabet_u5(), 4});
        passes.push_back({"A9k3", A9, 3});
        passes.push_back({"Z4k3", {0x00000000u, 0x40000000u, 0x80000000u, 0xc0000000u}, 3, 0u, true});
    }
    auto cases = build_support_cases(W, thorough);
    R.note("support:alphabet",
           fmt("passes %s and %s with lower word 0x%08x (canonical=(upper+1/2)/2^32); pass %s with lower word 0 "
               "(canonical = 0, 1/4, 1/2, 3/4 EXACTLY) for the families whose support is closed at 0; %zu sampler cases",
               passes[0].id, passes[1].id, kMidCell, passes[2].id, cases.size()));
    std::map<std::string, uint64_t> fam_max;
    uint64_t outer = 0;
    for (Pass const& P : passes)
    {
        std::vector<uint32_t> const& A = P.A;
        uint64_t const nA = A.size();
        for (uint64_t ic = 0; ic < cases.size(); ++ic)
            for (uint64_t a0 = 0; a0 < nA; ++a0, ++outer)
            {
                if (!R.mine(outer))
                    continue;
                if (R.expired())
                    break;
                SupportCase const& c = cases[ic];
                if (P.only_closed_at_zero && !c.closed_at_zero)
                    continue;
                // helper-driven eloss cases are the numerous and expensive ones: one letter less
                int Kc = (P.k == 6 && c.family == "eloss") ? 5 : P.k;
                int const k = c.max_script ? std::min(Kc, c.max_script) : Kc;
                std::string const cid = "sup:" + c.name + fmt(":%s:a0=%d", P.id, int(a0));
                if (!R.want(cid))
                    continue;
                R.begin_case(cid, 1800);  // generous: the machine is shared; only a never-ending rejection loop should trip it
                uint64_t nrest = 1;
                for (int j = 1; j < k; ++j)
                    nrest *= nA;
                std::vector<uint32_t> script(k);
                script[0] = A[a0];
                std::map<char const*, uint64_t> tagc;
                std::map<uint64_t, bool> combos;
                uint64_t maxc = 0;
                uint64_t const seed0 = vf::hash_mix(vf::hash_str(cid), R.seed());
                for (uint64_t idx = 0; idx < nrest; ++idx)
                {
                    uint64_t r = idx;
                    for (int j = 1; j < k; ++j)
                    {
                        script[j] = A[r % nA];
                        r /= nA;
                    }
                    Eng e(script, mix64(seed0 + idx), P.lower);
                    Obs o{R, cid, c.name, script, P.lower};
                    c.body(e, o, uint64_t(k));
                    maxc = std::max<uint64_t>(maxc, e.canonicals());
                    uint64_t combo = 0;
                    for (char const* t : o.tags)
                    {
                        ++tagc[t];
                        combo ^= mix64(uint64_t(reinterpret_cast<uintptr_t>(t)));
                    }
                    if (!o.tags.empty() && combos.emplace(combo, true).second)
                    {
                        // non-trivial: a (case, set of non-default branch tags) pair
                        std::vector<std::string> ts(o.tags.begin(), o.tags.end());
                        std::sort(ts.begin(), ts.end());
                        ts.erase(std::unique(ts.begin(), ts.end()), ts.end());
                        uint64_t h = vf::hash_str(c.name);
                        for (auto const& t : ts)
                            h = vf::hash_str(t, h);
                        R.nontrivial(h);
                    }
                    if (idx < 256)
                        R.outcome(vf::hash_mix(vf::hash_str(c.name), o.outcome));
                    if (idx == 1 && a0 == 1 && ic % 37 == 0)
                        R.sample(o.where() + fmt(" -> %llu canonicals", (unsigned long long)e.canonicals()));
                }
                R.count("evaluations", nrest);
                R.count("evaluations:" + c.family, nrest);
                R.count("case-blocks");
                for (auto const& kv : tagc)
                    R.tag(kv.first, kv.second);
                R.tag("family:" + c.family, nrest);
                auto& fm = fam_max[c.family];
                fm = std::max(fm, maxc);
                R.end_case();
            }
    }
    for (auto const& kv : fam_max)
        R.maxi(("max_canonicals:" + kv.first).c_str(), kv.second);
}

//---------------------------------------------------------------------------//
// PART "quadrature"
//---------------------------------------------------------------------------//
struct Lattice
{
    std::vector<int> bits;
    uint64_t size() const
    {
        uint64_t n = 1;
        for (int b : bits)
            n <<= b;
        return n;
    }
    //! upper words (lower word 0): canonical_j = (2 i_j + 1) / 2^(b_j + 1), never zero
    void script(uint64_t idx, std::vector<uint32_t>& s) const
    {
        for (size_t j = 0; j < bits.size(); ++j)
        {
            uint64_t i = idx & ((uint64_t(1) << bits[j]) - 1);
            idx >>= bits[j];
            s[j] = uint32_t((2 * i + 1) << (31 - bits[j]));
        }
    }
    //! sum_j c_j / 2^b_j
    double lterm(std::vector<double> const& pieces) const
    {
        double l = 0;
        for (size_t j = 0; j < bits.size(); ++j)
            l += pieces[j] / double(uint64_t(1) << bits[j]);
        return l;
    }
    std::string str() const
    {
        std::string s;
        for (int b : bits)
            s += fmt("%s%d", s.empty() ? "" : "+", b);
        return s + " bits";
    }
};

struct QuadOut
{
    std::vector<double> all, first;
    uint64_t n_tail = 0, max_canon = 0;
};
template<class Fn>
static QuadOut run_lattice(Lattice const& L, uint64_t seed, Fn&& fn)
{
    QuadOut out;
    uint64_t const N = L.size();
    size_t const k = L.bits.size();
    out.all.reserve(N);
    std::vector<uint32_t> s(k);
    for (uint64_t idx = 0; idx < N; ++idx)
    {
        L.script(idx, s);
        Eng e(s, mix64(seed + idx), 0u);
        double x = fn(e);
        out.all.push_back(x);
        if (e.words() > 2 * k)
            ++out.n_tail;
        else
            out.first.push_back(x);
        out.max_canon = std::max<uint64_t>(out.max_canon, e.canonicals());
    }
    return out;
}

//! sup_x |F_N(x) - F(x)| evaluated at every stride-th order statistic (a lower bound of the
//! true sup: sound for "alarm if > threshold")
template<class Cdf>
static double ks_sup(std::vector<double>& v, Cdf&& F, size_t stride)
{
    std::sort(v.begin(), v.end());
    size_t const N = v.size();
    double d = 0;
    if (!N)
        return 0;
    for (size_t i = 0;; i += stride)
    {
        if (i >= N)
            i = N - 1;
        auto er = std::equal_range(v.begin(), v.end(), v[i]);
        double lo = double(er.first - v.begin()) / N, hi = double(er.second - v.begin()) / N;
        double f = double(F(v[i]));
        d = std::max(d, std::max(std::fabs(f - lo), std::fabs(f - hi)));
        if (i == N - 1)
            break;
    }
    return d;
}
//! version for laws with atoms: F is the right-continuous CDF, Fl its left limit F(x-); the
//! fraction of samples < x is compared with F(x-), the fraction <= x with F(x)
template<class Cdf, class CdfL>
static double ks_sup_lr(std::vector<double>& v, Cdf&& F, CdfL&& Fl, size_t stride)
{
    std::sort(v.begin(), v.end());
    size_t const N = v.size();
    double d = 0;
    if (!N)
        return 0;
    for (size_t i = 0;; i += stride)
    {
        if (i >= N)
            i = N - 1;
        auto er = std::equal_range(v.begin(), v.end(), v[i]);
        double lo = double(er.first - v.begin()) / N, hi = double(er.second - v.begin()) / N;
        d = std::max(d, std::max(std::fabs(double(Fl(v[i])) - lo), std::fabs(double(F(v[i])) - hi)));
        if (i == N - 1)
            break;
    }
    return d;
}
//! discrete version: CDF compared at every atom
template<class Cdf>
static double ks_sup_discrete(std::vector<double> const& v, Cdf&& F)
{
    std::map<long long, uint64_t> cnt;
    for (double x : v)
        ++cnt[(long long)x];
    double d = 0, N = double(v.size());
    uint64_t cum = 0;
    for (auto const& kv : cnt)
    {
        // just below the atom and at the atom
        d = std::max(d, std::fabs(double(F(kv.first - 1)) - cum / N));
        cum += kv.second;
        d = std::max(d, std::fabs(double(F(kv.first)) - cum / N));
    }
    return d;
}

struct Quad
{
    vf::Run& R;
    bool thorough;
    std::string cid;  // current case
    std::string family;
    uint64_t seed() const { return vf::hash_mix(vf::hash_str(cid), R.seed()); }

    void judge(std::string const& what, double dist, double lterm, uint64_t n_tail, uint64_t N, double extra_scale = 1.0)
    {
        // see the header comment: L + H + 2/N (extra_scale: conditional CDFs divide by the
        // accepted fraction)
        double thr = extra_scale * (lterm + 2.0 / N) + (n_tail ? 5.0 * std::sqrt(double(n_tail)) / N : 0.0);
        double margin = dist > 0 ? thr / dist : 1e9;
        R.note("dist:" + cid + ":" + what,
               fmt("observed=%.3e threshold=%.3e margin=%.1f N=%llu n_tail=%llu L=%.3e", dist, thr, margin,
                   (unsigned long long)N, (unsigned long long)n_tail, lterm));
        R.maxi("max_dist_over_threshold_ppm", uint64_t(1e6 * dist / thr));
        R.count("cdf-comparisons");
        if (!(dist <= thr))
            R.violation("quad:" + family + ":cdf-mismatch", cid,
                        fmt("%s: sup|F_N-F| = %.4e > threshold %.4e (N=%llu, %llu points used the tail, L=%.3e)",
                            what.c_str(), dist, thr, (unsigned long long)N, (unsigned long long)n_tail, lterm));
    }
    //! continuous scalar sampler on a lattice
    template<class Fn, class Cdf>
    void continuous(Lattice const& L, std::vector<double> const& pieces, Fn&& fn, Cdf&& F, size_t stride = 1,
                    bool conditional = false)
    {
        QuadOut q = run_lattice(L, seed(), fn);
        uint64_t const N = q.all.size();
        for (double x : q.all)
            if (!std::isfinite(x))
            {
                R.violation("quad:" + family + ":non-finite", cid, "non-finite sample on the lattice");
                return;
            }
        double l = L.lterm(pieces);
        judge("cdf", ks_sup(q.all, F, stride), l, q.n_tail, N);
        if (conditional && q.n_tail && !q.first.empty())
        {
            // accepted at the first attempt: for a rejection sampler this conditional law is the
            // target itself, and no tail word is involved.  Numerator and denominator are both
            // lattice counts (error <= L N each): relative error <= 2 L / p_accept.
            double p = double(q.first.size()) / N;
            uint64_t nf = q.first.size();
            double d = ks_sup(q.first, F, stride);
            judge("cdf|first-attempt-accepted", d, l, 0, nf, 2.0 / p);
        }
        R.count("evaluations", N);
        R.maxi(("max_canonicals:" + family).c_str(), q.max_canon);
        R.tag("quad:" + family);
        if (q.n_tail)
            R.tag("quad:tail-used:" + family, q.n_tail);
        R.nontrivial(vf::hash_str(cid));
    }
    //! continuous scalar sampler whose law also has atoms (F right-continuous, Fl = left limit)
    template<class Fn, class Cdf, class CdfL>
    void continuous_lr(Lattice const& L, std::vector<double> const& pieces, Fn&& fn, Cdf&& F, CdfL&& Fl,
                       size_t stride = 1)
    {
        QuadOut q = run_lattice(L, seed(), fn);
        uint64_t const N = q.all.size();
        for (double x : q.all)
            if (!std::isfinite(x))
            {
                R.violation("quad:" + family + ":non-finite", cid, "non-finite sample on the lattice");
                return;
            }
        judge("cdf", ks_sup_lr(q.all, F, Fl, stride), L.lterm(pieces), q.n_tail, N);
        R.count("evaluations", N);
        R.maxi(("max_canonicals:" + family).c_str(), q.max_canon);
        R.tag("quad:" + family);
        if (q.n_tail)
            R.tag("quad:tail-used:" + family, q.n_tail);
        R.nontrivial(vf::hash_str(cid));
    }
    template<class Fn, class Cdf>
    void discrete(Lattice const& L, std::vector<double> const& pieces, Fn&& fn, Cdf&& F)
    {
        QuadOut q = run_lattice(L, seed(), fn);
        uint64_t const N = q.all.size();
        judge("cdf", ks_sup_discrete(q.all, F), L.lterm(pieces), q.n_tail, N);
        R.count("evaluations", N);
        R.maxi(("max_canonicals:" + family).c_str(), q.max_canon);
        R.tag("quad:" + family);
        if (q.n_tail)
            R.tag("quad:tail-used:" + family, q.n_tail);
        R.nontrivial(vf::hash_str(cid));
    }
};

struct QuadCase
{
    std::string family, name;
    std::function<void(Quad&)> body;
};

static std::vector<QuadCase> build_quad_cases(ElossWorld& W, bool thorough)
{
    std::vector<QuadCase> C;
    auto add = [&](char const* fam, std::string params, std::function<void(Quad&)> body) {
        C.push_back({fam, std::string(fam) + ":" + params, std::move(body)});
    };
    int const b1 = thorough ? 22 : 20;  // one lattice dimension
    int const h = thorough ? 11 : 10;  // two lattice dimensions
    Lattice const L1{{b1}};
    Lattice const L2{{h, h}};
    std::vector<double> const mono1 = {1};
    std::vector<double> const mono2 = {1, 1};
    // Box-Muller: {r(u_b) sin(2 pi u_a) <= t} is bounded by a curve with two monotone branches
    // inside each half period; 4 pieces per axis is an upper bound for every level set
    std::vector<double> const bm2 = {4, 4};

    //// one canonical, inverse CDF ////
    for (auto p : std::vector<std::pair<double, double>>{{-1, 1}, {0, 6.283185307179586}, {1e6, 1e6 + 1}})
    {
        double a = p.first, b = p.second;
        add("uniform", fmt("a=%g,b=%.17g", a, b), [=](Quad& Q) {
            Q.continuous(L1, mono1, [=](Eng& e) { return UniformRealDistribution<double>(a, b)(e); },
                         [=](double x) { return (ld(x) - a) / (ld(b) - a); });
        });
    }
    for (double lambda : {1.0, 1e3})
        add("exponential", fmt("lambda=%g", lambda), [=](Quad& Q) {
            Q.continuous(L1, mono1, [=](Eng& e) { return ExponentialDistribution<double>(lambda)(e); },
                         [=](double x) { return -expm1l(-ld(lambda) * x); });
        });
    for (auto p : std::vector<std::pair<double, double>>{{0.1, 10}, {10, 0.1}, {1e-11, 1e8}})
    {
        double a = p.first, b = p.second;
        add("reciprocal", fmt("a=%g,b=%g", a, b), [=](Quad& Q) {
            ld lo = std::min(a, b), hi = std::max(a, b);
            Q.continuous(L1, mono1, [=](Eng& e) { return ReciprocalDistribution<double>(a, b)(e); },
                         [=](double x) { return logl(ld(x) / lo) / logl(hi / lo); });
        });
    }
    add("reciprocal", "a=0.001 (single-argument)", [=](Quad& Q) {
        Q.continuous(L1, mono1, [=](Eng& e) { return ReciprocalDistribution<double>(1e-3)(e); },
                     [=](double x) { return logl(ld(x) / 1e-3L) / logl(1e3L); });
    });
    for (auto p : std::vector<std::pair<double, double>>{{1, 2}, {1e-3, 1e3}})
    {
        double a = p.first, b = p.second;
        add("invsquare", fmt("a=%g,b=%g", a, b), [=](Quad& Q) {
            Q.continuous(L1, mono1, [=](Eng& e) { return InverseSquareDistribution<double>(a, b)(e); },
                         [=](double x) { return ld(b) * (ld(x) - a) / (ld(x) * (ld(b) - a)); });
        });
    }
    add("radial", "R=3.3", [=](Quad& Q) {
        Q.continuous(L1, mono1, [=](Eng& e) { return RadialDistribution<double>(3.3)(e); },
                     [=](double x) { ld t = ld(x) / 3.3L; return t * t * t; });
    });

    //// one canonical, discrete ////
    for (double p : {0.25, 1.0 / 3, 1e-3})
        add("bernoulli", fmt("p=%.6g", p), [=](Quad& Q) {
            Q.discrete(L1, mono1, [=](Eng& e) { return double(BernoulliDistribution(p)(e)); },
                       [=](long long k) { return k < 0 ? 0.0 : (k == 0 ? 1 - p : 1.0); });
        });
    add("bernoulli", "scaled=1:35", [=](Quad& Q) {
        Q.discrete(L1, mono1, [=](Eng& e) { return double(BernoulliDistribution(1, 35)(e)); },
                   [=](long long k) { return k < 0 ? 0.0 : (k == 0 ? 35.0 / 36 : 1.0); });
    });
    for (auto fq : std::vector<std::pair<double, double>>{{0.3, 1}, {2, 8}})
    {
        double f = fq.first, fm = fq.second;
        add("rejection", fmt("f=%g,fmax=%g", f, fm), [=](Quad& Q) {
            // documented: returns true ("keep trying") with probability 1 - f/fmax
            Q.discrete(L1, mono1, [=](Eng& e) { return double(RejectionSampler<double>(f, fm)(e)); },
                       [=](long long k) { return k < 0 ? 0.0 : (k == 0 ? f / fm : 1.0); });
        });
    }
    {
        std::vector<std::pair<std::vector<double>, double>> ws = {{{.125, 0, .375, 0, .5, 0}, 1.0},
                                                                  {{0.1, 0.2, 0.7}, 1.0},
                                                                  {{1, 2, 5}, 8.0},
                                                                  {{0, 0, 3, 1}, 4.0}};
        for (auto const& wt : ws)
        {
            std::vector<double> w = wt.first;
            double total = wt.second;
            std::string s;
            for (double x : w)
                s += fmt("%s%g", s.empty() ? "" : ",", x);
            add("selector", "w=[" + s + "]" + fmt(",total=%g", total), [=](Quad& Q) {
                Q.discrete(L1, mono1,
                           [&](Eng& e) {
                               auto f = [&w](size_type i) { return w[i]; };
                               return double(make_selector(f, size_type(w.size()), total)(e));
                           },
                           [&](long long k) {
                               ld c = 0;
                               for (long long j = 0; j <= k && j < (long long)w.size(); ++j)
                                   c += w[j];
                               return double(k < 0 ? 0 : c / total);
                           });
            });
        }
    }

    //// two canonicals: Normal (both values of the pair, and the move-assigned spare) ////
    for (auto p : std::vector<std::pair<double, double>>{{0, 1}, {5, 0.1}})
    {
        double m = p.first, s = p.second;
        add("normal", fmt("mean=%g,sd=%g,first", m, s), [=](Quad& Q) {
            Q.continuous(L2, bm2, [=](Eng& e) { return NormalDistribution<double>(m, s)(e); },
                         [=](double x) { return Phi((ld(x) - m) / s); });
        });
        add("normal", fmt("mean=%g,sd=%g,cached-second", m, s), [=](Quad& Q) {
            Q.continuous(L2, bm2,
                         [=](Eng& e) {
                             NormalDistribution<double> d(m, s);
                             (void)d(e);
                             return d(e);
                         },
                         [=](double x) { return Phi((ld(x) - m) / s); });
        });
    }
    add("normal", "mean=0,sd=1,third-call(fresh pair)", [=](Quad& Q) {
        // canonicals 1,2 fixed at 1/2 (0 lattice bits), lattice on canonicals 3,4: the third value of
        // one distribution object must again be N(0,1) (the cached value is used exactly once)
        Lattice L4{{0, 0, h, h}};
        Q.continuous(L4, {0, 0, 4, 4},
                     [=](Eng& e) {
                         NormalDistribution<double> d(0, 1);
                         (void)d(e);
                         (void)d(e);
                         return d(e);
                     },
                     [=](double x) { return Phi(ld(x)); });
    });
    add("normal", "move-assign-spare->N(100,2)", [=](Quad& Q) {
        Q.continuous(L2, bm2,
                     [=](Eng& e) {
                         NormalDistribution<double> d(0, 1);
                         (void)d(e);
                         d = NormalDistribution<double>(100, 2);
                         return d(e);
                     },
                     [=](double x) { return Phi((ld(x) - 100) / 2); });
    });

    // (d2) the SOURCE of the move holds a spare and the target does not: the target takes the
    // source's parameters AND its spare (x ~ N(5,0.1), the second member of the pair, no new
    // canonical), and the source loses it (its next call draws a new pair)
    for (int ctor = 0; ctor < 2; ++ctor)
        add("normal", ctor ? "move-construct-from-spare-holder->N(5,0.1)" : "move-assign-from-spare-holder->N(5,0.1)",
            [=](Quad& Q) {
                uint64_t bad = 0;
                uint64_t* pbad = &bad;
                Q.continuous(L2, bm2,
                             [=](Eng& e) {
                                 NormalDistribution<double> a(5, 0.1);
                                 (void)a(e);
                                 double x;
                                 if (ctor)
                                 {
                                     NormalDistribution<double> d(std::move(a));
                                     x = d(e);
                                 }
                                 else
                                 {
                                     NormalDistribution<double> d(100, 2);
                                     d = std::move(a);
                                     x = d(e);
                                 }
                                 if (e.canonicals() != 2)
                                     ++*pbad;
                                 return x;
                             },
                             [=](double x) { return Phi((ld(x) - 5) / 0.1L); });
                // draw pattern of the moved-from source and of the target afterwards
                std::vector<uint32_t> sc(2);
                for (uint64_t idx = 0; idx < 64; ++idx)
                {
                    L2.script(idx * (L2.size() / 64), sc);
                    Eng e(sc, mix64(Q.seed() + idx), 0u);
                    NormalDistribution<double> a(5, 0.1);
                    (void)a(e);
                    NormalDistribution<double> d1(ctor ? std::move(a) : NormalDistribution<double>(100, 2));
                    if (!ctor)
                        d1 = std::move(a);
                    (void)d1(e);
                    uint64_t c1 = e.canonicals();
                    (void)a(e);  // moved-from: no spare any more
                    uint64_t c2 = e.canonicals();
                    (void)d1(e);  // target: spare used up
                    uint64_t c3 = e.canonicals();
                    if (c1 != 2 || c2 != 4 || c3 != 6)
                        ++bad;
                }
                if (bad)
                    Q.R.violation("quad:normal:move-spare-draw-pattern", Q.cid,
                                  fmt("%llu scripts: moving a NormalDistribution that holds a spare must hand the spare "
                                      "over exactly once (target: 0 new canonicals, then source: 2, then target: 2)",
                                      (unsigned long long)bad));
                Q.R.tag("quad:normal:moved-spare");
            });

    //// Isotropic: marginals of cos(theta) and phi, and their joint law on an 8 x 8 grid ////
    add("isotropic", "unit-sphere", [=](Quad& Q) {
        uint64_t const N = L2.size();
        std::vector<double> z, phi;
        z.reserve(N);
        phi.reserve(N);
        std::vector<uint64_t> cell(64, 0);
        std::vector<uint32_t> s(2);
        for (uint64_t idx = 0; idx < N; ++idx)
        {
            L2.script(idx, s);
            Eng e(s, 0, 0u);
            Real3 v = IsotropicDistribution<double>()(e);
            double ph = std::atan2(v[1], v[0]);
            if (ph < 0)
                ph += 2 * double(kPi);
            z.push_back(v[2]);
            phi.push_back(ph);
            int iz = std::min(7, int((v[2] + 1) * 4)), ip = std::min(7, int(ph / (2 * double(kPi)) * 8));
            ++cell[iz * 8 + ip];
        }
        // a marginal depends on one canonical only: it is a 1-D lattice of 2^h distinct values
        // (each 2^h times), judged with the 1-D rule 1/n + 2/n
        Q.judge("cdf(cos theta)", ks_sup(z, [](double x) { return (ld(x) + 1) / 2; }, 1), 1.0 / (1 << h), 0, 1 << h);
        Q.judge("cdf(phi)", ks_sup(phi, [](double x) { return ld(x) / (2 * kPi); }, 1), 1.0 / (1 << h), 0, 1 << h);
        // joint CDF on the grid corners: rectangles in (u1,u2): two monotone boundaries
        double d = 0;
        for (int a = 1; a <= 8; ++a)
            for (int b = 1; b <= 8; ++b)
            {
                uint64_t c = 0;
                for (int i = 0; i < a; ++i)
                    for (int j = 0; j < b; ++j)
                        c += cell[i * 8 + j];
                d = std::max(d, std::fabs(double(c) / N - (a / 8.0) * (b / 8.0)));
            }
        Q.judge("joint-cdf(cos theta,phi) 8x8", d, L2.lterm(mono2), 0, N);
        Q.R.count("evaluations", N);
        Q.R.tag("quad:isotropic");
        Q.R.nontrivial(vf::hash_str(Q.cid));
    });

    //// UniformBox: three canonicals, marginals + joint 4x4x4 ////
    add("box", "[-1,1]x[-2,2]x[0,3]", [=](Quad& Q) {
        Lattice L3{thorough ? std::vector<int>{8, 7, 7} : std::vector<int>{7, 7, 6}};
        uint64_t const N = L3.size();
        Real3 lo{-1, -2, 0}, hi{1, 2, 3};
        std::vector<double> x[3];
        std::vector<uint64_t> cell(64, 0);
        std::vector<uint32_t> s(3);
        for (uint64_t idx = 0; idx < N; ++idx)
        {
            L3.script(idx, s);
            Eng e(s, 0, 0u);
            Real3 v = UniformBoxDistribution<double>(lo, hi)(e);
            int c = 0;
            for (int i = 0; i < 3; ++i)
            {
                x[i].push_back(v[i]);
                c = c * 4 + std::min(3, std::max(0, int((v[i] - lo[i]) / (hi[i] - lo[i]) * 4)));
            }
            ++cell[c];
        }
        for (int i = 0; i < 3; ++i)
            Q.judge(fmt("cdf(x%d)", i), ks_sup(x[i], [=](double t) { return (ld(t) - lo[i]) / (ld(hi[i]) - lo[i]); }, 1),
                    1.0 / (1 << L3.bits[i]), 0, 1 << L3.bits[i]);  // 1-D rule on 2^b_i distinct values
        double d = 0;
        for (int a = 1; a <= 4; ++a)
            for (int b = 1; b <= 4; ++b)
                for (int c = 1; c <= 4; ++c)
                {
                    uint64_t n = 0;
                    for (int i = 0; i < a; ++i)
                        for (int j = 0; j < b; ++j)
                            for (int k = 0; k < c; ++k)
                                n += cell[(i * 4 + j) * 4 + k];
                    d = std::max(d, std::fabs(double(n) / N - a * b * c / 64.0));
                }
        Q.judge("joint-cdf 4x4x4", d, L3.lterm({1, 1, 1}), 0, N);
        Q.R.count("evaluations", N);
        Q.R.tag("quad:box");
        Q.R.nontrivial(vf::hash_str(Q.cid));
    });

    //// Poisson ////
    for (double l : {0.1, 1.0, 4.0, 16.0})
        add("poisson", fmt("lambda=%g (direct: lattice on the first two uniforms, tail after)", l), [=](Quad& Q) {
            // {N <= m | u1,u2} is decreasing in u1 and u2: one monotone piece per axis
            Q.discrete(L2, mono2, [=](Eng& e) { return double(PoissonDistribution<double>(l)(e)); },
                       [=](long long k) { return double(poisson_cdf(l, k)); });
        });
    for (double l : {16.5, 64.0, 1e3})
        add("poisson", fmt("lambda=%g (documented Gaussian approximation)", l), [=](Quad& Q) {
            // documented: lambda > 16 => N(lambda, sqrt(lambda)) rounded to the nearest integer
            Q.discrete(L2, bm2, [=](Eng& e) { return double(PoissonDistribution<double>(l)(e)); },
                       [=](long long k) { return double(k < 0 ? 0 : Phi((ld(k) + 0.5L - l) / sqrtl(l))); });
        });

    //// Gamma: lattice on the two uniforms of the first normal, everything else from the tail ////
    {
        // FULL cross of the shape letters (both sides of and exactly at the alpha = 1 switch-over)
        // with the scale letters: a slip in how ONE branch uses the scale (rate instead of
        // scale, scale dropped) is invisible at beta = 1
        std::vector<std::pair<double, double>> ab;
        for (double a : {0.1, 0.5, 0.99, 1.0, 1.01, 2.0, 5.0, 100.0})
            for (double b : {1.0, 0.5, 3.0, 1e-3})
                ab.push_back({a, b});
        for (auto p : ab)
        {
            double a = p.first, b = p.second;
            add("gamma", fmt("alpha=%g,beta=%g", a, b), [=](Quad& Q) {
                Q.continuous(L2, bm2, [=](Eng& e) { return GammaDistribution<double>(a, b)(e); },
                             [=](double x) { return gamma_p(a, ld(x) / b); }, 16);
            });
        }
        add("gamma", "alpha=2,beta=1,second-call", [=](Quad& Q) {
            Q.continuous(L2, bm2,
                         [=](Eng& e) {
                             GammaDistribution<double> d(2, 1);
                             (void)d(e);
                             return d(e);
                         },
                         [=](double x) { return gamma_p(2, ld(x)); }, 16);
        });
    }

    //// rejection loop as documented in RejectionSampler.hh: target density 2x on [0,1) ////
    add("rejection", "documented-loop f(x)=x", [=](Quad& Q) {
        Q.continuous(L2, mono2,
                     [=](Eng& e) {
                         double x;
                         do
                         {
                             x = generate_canonical(e);
                         } while (RejectionSampler<double>(x, 1.0)(e));
                         return x;
                     },
                     [=](double x) { return ld(x) * x; }, 1, true);
    });

    //// Tsai-Urban: u = -a ln(u1 u2), a = 1.6 w.p. 1/4, 1.6/3 w.p. 3/4, truncated at umax ////
    // (d2) the mass is a letter too: muon (umax = 3.89) and proton (umax = 2.002) masses move the
    // truncation point into the bulk of the law (acceptance 0.92 / 0.76), so that a umax computed
    // from any other mass than the one passed is a different CDF
    for (auto Em : std::vector<std::pair<double, double>>{{1e-3, 0.5109989461},
                                                          {1.0, 0.5109989461},
                                                          {100.0, 0.5109989461},
                                                          {100.0, 105.6583745},
                                                          {1.0, 938.272081}})
        add("tsaiurban",
            Em.second < 1 ? fmt("E=%g,m=0.511", Em.first) : fmt("E=%g,m=%g", Em.first, Em.second),
            [=](Quad& Q) {
            double const E = Em.first;
            // third canonical: only (u3 < 1/4) matters and the 2-bit midpoints {1/8,..,7/8} split
            // exactly 1:3, so that axis contributes no lattice error; each of the two slabs is a
            // set monotone in u1 and u2
            Lattice L3{{h - 1, h - 1, 2}};
            double m = Em.second;
            ld umax = 2 * (1 + ld(E) / m);
            auto G2 = [](ld u, ld s) { return 1 - (1 + u / s) * expl(-u / s); };
            auto Fu = [=](ld u) { return 0.25L * G2(u, 1.6L) + 0.75L * G2(u, 1.6L / 3); };
            ld norm = Fu(umax);
            Q.continuous(L3, {1, 1, 0},
                         [=](Eng& e) { return TsaiUrbanDistribution(units::MevEnergy{E}, units::MevMass{m})(e); },
                         [=](double c) {
                             ld t = (1 - ld(c)) / 2;
                             ld u = umax * sqrtl(t < 0 ? 0 : t);
                             return 1 - Fu(u) / norm;
                         },
                         1, true);
        });

    //// Energy-loss Gaussian: normal truncated to (0, 2 mean] ////
    {
        auto trunc_cdf = [](ld m, ld s) {
            return [=](double x) {
                ld lo = Phi(-m / s), hi = Phi(m / s);
                return (Phi((ld(x) - m) / s) - lo) / (hi - lo);
            };
        };
        for (auto p : std::vector<std::pair<double, double>>{{1, 0.1}, {1, 0.5}, {1, 4}})
        {
            double m = p.first, s = p.second;
            add("eloss-gaussian", fmt("mean=%g,sd=%g", m, s), [=](Quad& Q) {
                Q.continuous(L2, bm2,
                             [=](Eng& e) {
                                 return EnergyLossGaussianDistribution(units::MevEnergy{m}, units::MevEnergy{s})(e).value();
                             },
                             trunc_cdf(m, s), 1, true);
            });
        }
        // incl. shape k = mean^2/var exactly 1 with scale var/mean = 0.5, 1 and 3
        for (auto p : std::vector<std::pair<double, double>>{{0.1, 0.14}, {1, 0.3}, {0.5, 0.25}, {1, 1}, {3, 9}})
        {
            double m = p.first, v = p.second;
            add("eloss-gamma", fmt("mean=%g,var=%g", m, v), [=](Quad& Q) {
                using EnergySq = EnergyLossGammaDistribution::EnergySq;
                ld k = ld(m) * m / v;
                Q.continuous(L2, bm2,
                             [=](Eng& e) { return EnergyLossGammaDistribution(units::MevEnergy{m}, EnergySq{v})(e).value(); },
                             [=](double x) { return gamma_p(k, ld(x) * k / m); }, 16);
            });
        }
        // through the helper (mu- 10 keV in Ar, as in the unit test; alpha 1 MeV: charge 2, the Bohr
        // variance carries q^2): Bohr variance re-derived here
        for (auto pe : std::vector<std::pair<int, double>>{{2, 1e-2}, {4, 1.0}})
        for (double step : {5e-4, 5e-2})
        {
            ElossWorld* w = &W;
            int const ip = pe.first;
            double const Ekin = pe.second;
            add("eloss", fmt("helper:%s,Ar,E=%g,loss=0.1,step=%g", W.par_names[ip].c_str(), Ekin, step), [=](Quad& Q) {
                using units::MevEnergy;
                ParticleTrackView particle(w->particles->host_ref(), w->pstate.ref(), TrackSlotId{0});
                particle = {ParticleId(ip), MevEnergy{Ekin}};
                MaterialTrackView material(w->materials->host_ref(), w->mstate.ref(), TrackSlotId{0});
                material = {MaterialId(1)};
                CutoffView cutoff(w->cutoffs[0]->host_ref(), MaterialId(1));
                EnergyLossHelper helper(w->fluct->host_ref(), cutoff, material, particle, MevEnergy{0.1},
                                        step * units::centimeter);
                ld const me = 0.5109989461L, M = w->par_mass[ip], E = Ekin, q = w->par_charge[ip];
                ld const gam = 1 + E / M, bsq = 1 - 1 / (gam * gam), mr = me / M;
                ld const tmax = 2 * me * bsq * gam * gam / (1 + mr * (2 * gam + mr));
                ld const nel = w->materials->get(MaterialId(1)).electron_density();
                ld const re = constants::r_electron;
                ld const var = 2 * kPi * re * re * me * nel * q * q * tmax * ld(step * units::centimeter) * (1 / bsq - 0.5L);
                ld const m = 0.1L, s = sqrtl(var);
                if (helper.model() == EnergyLossFluctuationModel::gaussian)
                {
                    Q.R.tag("quad:eloss:helper-gaussian");
                    Q.continuous(L2, bm2, [&](Eng& e) { return EnergyLossGaussianDistribution(helper)(e).value(); },
                                 [=](double x) {
                                     ld lo = Phi(-m / s), hi = Phi(m / s);
                                     return (Phi((ld(x) - m) / s) - lo) / (hi - lo);
                                 },
                                 1, true);
                }
                else if (helper.model() == EnergyLossFluctuationModel::gamma)
                {
                    Q.R.tag("quad:eloss:helper-gamma");
                    ld k = m * m / var;
                    Q.continuous(L2, bm2, [&](Eng& e) { return EnergyLossGammaDistribution(helper)(e).value(); },
                                 [=](double x) { return gamma_p(k, ld(x) * k / m); }, 16);
                }
                else
                    Q.R.harness_error("helper did not select gaussian/gamma for the unit-test configuration");
            });
        }
        // Urban: multi-stage, no closed-form law; support is checked in part "support".  The first
        // moment is *reported* (documented: mean loss is preserved) but not judged: no sound bound
        // for the variance of the compound-Poisson sum is available.
        {
            ElossWorld* w = &W;
            add("eloss-urban", "helper:e-,Ar,E=100,loss=0.01,step=0.01 (mean reported only)", [=](Quad& Q) {
                using units::MevEnergy;
                ParticleTrackView particle(w->particles->host_ref(), w->pstate.ref(), TrackSlotId{0});
                particle = {ParticleId(0), MevEnergy{100}};
                MaterialTrackView material(w->materials->host_ref(), w->mstate.ref(), TrackSlotId{0});
                material = {MaterialId(1)};
                CutoffView cutoff(w->cutoffs[0]->host_ref(), MaterialId(1));
                EnergyLossHelper helper(w->fluct->host_ref(), cutoff, material, particle, MevEnergy{0.01},
                                        0.01 * units::centimeter);
                Lattice Ls{{8, 8}};
                ld sum = 0;
                double mn = 1e300, mx = 0;
                QuadOut q = run_lattice(Ls, Q.seed(), [&](Eng& e) {
                    double x = EnergyLossUrbanDistribution(helper)(e).value();
                    sum += x;
                    mn = std::min(mn, x);
                    mx = std::max(mx, x);
                    return x;
                });
                if (!(mn >= 0) || !std::isfinite(mx))
                    Q.R.violation("eloss-urban:outside-support", Q.cid, fmt("min %g max %g", mn, mx));
                Q.R.note("info:" + Q.cid, fmt("N=%zu mean/mean_loss=%.5Lf min=%.4g max=%.4g max_canonicals=%llu (not judged)",
                                              q.all.size(), sum / q.all.size() / 0.01L, mn, mx,
                                              (unsigned long long)q.max_canon));
                Q.R.count("evaluations", q.all.size());
                Q.R.tag("quad:eloss-urban(info)");
            });
        }
        // Urban sampling STAGES (private members reached with -fno-access-control).  The model is a sum
        // of independent stages whose laws are explicit (Geant4 PRM 7.3.2 / GEANT3 PHYS332 2.4, restated
        // in the class comments); every stage is judged against its analytic CDF given the constructor's
        // outputs (xs_exc_, binding_energy_, xs_ion_, max_energy_), and the constructor's outputs are
        // judged separately against the mean-loss identity in part "support".  One case per branch:
        //   fast(mean,sd)            sd <= 4 mean: N(mean,sd) truncated to (0,2 mean]; else U(0,2 mean)
        //   excitation, level fast   contributes (xs_i E_i, xs_i E_i^2) to ONE truncated normal:
        //                            mean = sum xs_i E_i, variance = sum xs_i E_i^2 over the fast levels
        //   excitation, level Poisson  n ~ Poisson(xs_i); n = 0: nothing, else E_i U(n-1,n+1)
        //   ionisation, xs_ion <= 8  n ~ Poisson(xs_ion) collisions of E0/U(E0/Tmax,1) (density ~ 1/E^2 on
        //                            [E0,Tmax])
        {
            ElossWorld* w = &W;
            struct US
            {
                int mat;
                double loss, tmax, two_mebsgs, bsq;
            };
            auto make = [w](US u) {
                MaterialTrackView material(w->materials->host_ref(), w->mstate.ref(), TrackSlotId{0});
                material = {MaterialId(u.mat)};
                return EnergyLossUrbanDistribution(w->fluct->host_ref(), material, units::MevEnergy{u.loss},
                                                   units::MevEnergy{u.tmax}, units::MevMass{u.two_mebsgs}, u.bsq);
            };
            // truncated normal on (0, 2m]: CDF G and its antiderivative H (integral of G from -inf)
            struct TN
            {
                ld m, s;  // s == 0: no Gaussian part (G = step at 0)
                ld lo() const { return Phi(-m / s); }
                ld hi() const { return Phi(m / s); }
                ld G(ld y) const
                {
                    if (s == 0)
                        return y >= 0 ? 1 : 0;
                    if (y <= 0)
                        return 0;
                    if (y >= 2 * m)
                        return 1;
                    return (Phi((y - m) / s) - lo()) / (hi() - lo());
                }
                ld H(ld y) const
                {
                    if (s == 0)
                        return y > 0 ? y : 0;
                    if (y <= 0)
                        return 0;
                    // int Phi(z) dz = z Phi(z) + phi(z)
                    auto A = [](ld z) { return z * Phi(z) + expl(-z * z / 2) / sqrtl(2 * kPi); };
                    ld yy = y < 2 * m ? y : 2 * m;
                    ld in = (s * (A((yy - m) / s) - A(-m / s)) - lo() * yy) / (hi() - lo());
                    return in + (y > 2 * m ? y - 2 * m : 0);
                }
            };
            // law of  [Poisson(lam) smear of level energy E]  +  [TN]  (independent)
            auto smear_cdf = [](ld lam, ld E, TN g) {
                return [=](double x) {
                    ld f = expl(-lam) * g.G(x);
                    for (int n = 1; n < 200; ++n)
                    {
                        ld pn = expl(-lam + n * logl(lam) - lgammal(ld(n) + 1));
                        f += pn * (g.H(ld(x) - (n - 1) * E) - g.H(ld(x) - (n + 1) * E)) / (2 * E);
                    }
                    return f;
                };
            };

            //// fast(mean, sd) ////
            for (auto p : std::vector<std::pair<double, double>>{{1, 0.5}, {1, 3.9}, {3e-3, 1e-3}})
            {
                double m = p.first, sd = p.second;
                add("eloss-urban", fmt("stage:fast:mean=%g,sd=%g (truncated normal)", m, sd), [=](Quad& Q) {
                    TN g{m, sd};
                    Q.continuous(L2, bm2,
                                 [=](Eng& e) { return EnergyLossUrbanDistribution::sample_fast_urban(m, sd, e); },
                                 [=](double x) { return g.G(x); }, 1, true);
                    Q.R.tag("quad:urban-stage:fast-gaussian");
                });
            }
            // (d2) the tie sd == 4 mean (4 * 1.0 == 4.0 exactly) belongs to the truncated normal
            // (source: `stddev <= 4 * mean`).  The two laws differ by ~2e-3 only, so the deciding claim
            // is the draw pattern: Box-Muller pairs (an even number >= 2), the uniform branch draws 1
            add("eloss-urban", "stage:fast:mean=1,sd=4 (tie sd == 4 mean: truncated normal)", [=](Quad& Q) {
                TN g{1.0, 4.0};
                uint64_t bad = 0;
                uint64_t* pbad = &bad;
                Q.continuous(L2, bm2,
                             [=](Eng& e) {
                                 double x = EnergyLossUrbanDistribution::sample_fast_urban(1.0, 4.0, e);
                                 if (e.canonicals() < 2 || e.canonicals() % 2)
                                     ++*pbad;
                                 return x;
                             },
                             [=](double x) { return g.G(x); }, 1, true);
                if (bad)
                    Q.R.violation("quad:eloss-urban:fast-tie-branch", Q.cid,
                                  fmt("%llu lattice points: sample_fast_urban(1, 4) did not draw whole Box-Muller "
                                      "pairs (sd == 4 mean is documented / coded as the Gaussian branch)",
                                      (unsigned long long)bad));
                Q.R.tag("quad:urban-stage:fast-tie");
            });
            add("eloss-urban", "stage:fast:mean=1,sd=4.5 (uniform on (0,2 mean))", [=](Quad& Q) {
                Q.continuous(L1, mono1,
                             [=](Eng& e) { return EnergyLossUrbanDistribution::sample_fast_urban(1.0, 4.5, e); },
                             [=](double x) { return ld(x) / 2; });
                Q.R.tag("quad:urban-stage:fast-uniform");
            });

            //// excitation: both levels fast / level 1 fast and level 2 off ////
            struct ExcFast
            {
                US u;
                bool both;
                char const* what;
            };
            std::vector<ExcFast> efs = {{{1, 2.0, 50.0, 1e3, 0.99}, true, "Ar,loss=2,Tmax=50"},
                                        {{1, 2.0, 1e-3, 1e3, 0.99}, true, "Ar,loss=2,Tmax=0.001(width-correction)"},
                                        {{1, 20.0, 1.0, 50.0, 0.98}, true, "Ar,loss=20,Tmax=1"},
                                        {{0, 0.01, 1.0, 1e3, 0.99}, false, "H2,loss=0.01,Tmax=1"}};
            for (auto ef : efs)
                add("eloss-urban",
                    fmt("stage:excitation:%s:%s", ef.both ? "both-levels-fast" : "level1-fast,level2-off", ef.what),
                    [=](Quad& Q) {
                        EnergyLossUrbanDistribution d = make(ef.u);
                        bool f0 = d.xs_exc_[0] > 8, f1 = d.xs_exc_[1] > 8;
                        if (!(f0 && (ef.both ? f1 : d.xs_exc_[1] == 0)))
                        {
                            Q.R.harness_error(fmt("%s: excitation regime is not the declared one (xs_exc=%g,%g)",
                                                  Q.cid.c_str(), d.xs_exc_[0], d.xs_exc_[1]));
                            return;
                        }
                        ld m = 0, var = 0;
                        for (int i = 0; i < 2; ++i)
                        {
                            m += ld(d.xs_exc_[i]) * d.binding_energy_[i];
                            var += ld(d.xs_exc_[i]) * d.binding_energy_[i] * d.binding_energy_[i];
                        }
                        TN g{m, sqrtl(var)};
                        Q.R.note("info:" + Q.cid, fmt("xs_exc=(%g,%g) E=(%g,%g): truncated normal mean=%Lg sd=%Lg",
                                                      d.xs_exc_[0], d.xs_exc_[1], d.binding_energy_[0],
                                                      d.binding_energy_[1], g.m, g.s));
                        Q.continuous(L2, bm2, [&](Eng& e) { return d.sample_excitation_loss(e); },
                                     [=](double x) { return g.G(x); }, 1, true);
                        Q.R.tag(ef.both ? "quad:urban-stage:exc-both-fast" : "quad:urban-stage:exc-level1-fast-only");
                    });

            //// excitation: one level in the Poisson branch (+ the other fast or off) ////
            struct ExcPois
            {
                US u;
                int level;  // the Poisson level
                char const* what;
            };
            std::vector<ExcPois> eps = {{{0, 1e-4, 1.0, 1e3, 0.99}, 0, "H2,loss=1e-4,Tmax=1 (level 1 Poisson, level 2 off)"},
                                        {{0, 1e-3, 1e-3, 1e3, 0.99}, 0, "H2,loss=1e-3,Tmax=0.001 (level 1 Poisson, level 2 off)"},
                                        {{1, 0.1, 1.0, 1e3, 0.99}, 1, "Ar,loss=0.1,Tmax=1 (level 1 fast, level 2 Poisson)"},
                                        {{1, 0.5, 50.0, 1e3, 0.99}, 1, "Ar,loss=0.5,Tmax=50 (level 1 fast, level 2 Poisson)"}};
            for (auto ep : eps)
                add("eloss-urban", fmt("stage:excitation:poisson-level:%s", ep.what), [=](Quad& Q) {
                    EnergyLossUrbanDistribution d = make(ep.u);
                    int const i = ep.level, j = 1 - i;
                    bool ok = d.xs_exc_[i] > 0 && d.xs_exc_[i] <= 8 && (d.xs_exc_[j] > 8 || d.xs_exc_[j] == 0)
                              && (i == 1 || d.xs_exc_[1] == 0);
                    if (!ok)
                    {
                        Q.R.harness_error(fmt("%s: excitation regime is not the declared one (xs_exc=%g,%g)",
                                              Q.cid.c_str(), d.xs_exc_[0], d.xs_exc_[1]));
                        return;
                    }
                    TN g{0, 0};
                    if (d.xs_exc_[j] > 8)
                        g = TN{ld(d.xs_exc_[j]) * d.binding_energy_[j], sqrtl(ld(d.xs_exc_[j])) * d.binding_energy_[j]};
                    ld const lam = d.xs_exc_[i], E = d.binding_energy_[i];
                    auto F = smear_cdf(lam, E, g);
                    Q.R.note("info:" + Q.cid, fmt("xs_exc=(%g,%g) E=(%g,%g)", d.xs_exc_[0], d.xs_exc_[1],
                                                  d.binding_energy_[0], d.binding_energy_[1]));
                    // the first canonicals are the Poisson uniforms: {n <= k} is decreasing in each of
                    // them (one monotone piece per axis, as for the Poisson cases above); everything
                    // after them comes from the tail.  The only atom is the zero loss (n = 0, no
                    // Gaussian part).
                    Q.continuous_lr(L2, mono2, [&](Eng& e) { return d.sample_excitation_loss(e); }, F,
                                    [=](double x) { return (g.s == 0 && x == 0) ? ld(0) : ld(F(x)); }, 16);
                    Q.R.tag(d.xs_exc_[j] > 8 ? "quad:urban-stage:exc-poisson+fast" : "quad:urban-stage:exc-poisson-only");
                });

            //// ionisation, Poisson-only regime (xs_ion <= 8, alpha = 1) ////
            std::vector<std::pair<US, char const*>> ios = {{{0, 1e-4, 1e-3, 1e3, 0.99}, "H2,loss=1e-4,Tmax=0.001"},
                                                           {{2, 6e-5, 5e-4, 1e3, 0.99}, "Pb,loss=6e-5,Tmax=5e-4(Tmax<=I: no excitation)"},
                                                           {{1, 1e-4, 50.0, 1e3, 0.99}, "Ar,loss=1e-4,Tmax=50"}};
            for (auto io : ios)
            {
                US u = io.first;
                add("eloss-urban", fmt("stage:ionisation:poisson-only:%s:P(no collision)", io.second), [=](Quad& Q) {
                    EnergyLossUrbanDistribution d = make(u);
                    if (!(d.xs_ion_ > 0 && d.xs_ion_ <= 8))
                    {
                        Q.R.harness_error(fmt("%s: xs_ion=%g is not in the Poisson-only regime", Q.cid.c_str(), d.xs_ion_));
                        return;
                    }
                    ld const p0 = expl(-ld(d.xs_ion_));
                    Q.R.note("info:" + Q.cid, fmt("xs_ion=%g", d.xs_ion_));
                    // zero loss <=> no collision <=> first uniform <= exp(-xs_ion): depends on u1 only
                    Q.discrete(L1, mono1, [&](Eng& e) { return d.sample_ionization_loss(e) == 0 ? 0.0 : 1.0; },
                               [=](long long k) { return double(k < 0 ? 0 : (k == 0 ? p0 : 1)); });
                    Q.R.tag("quad:urban-stage:ion-poisson-only");
                });
                add("eloss-urban", fmt("stage:ionisation:poisson-only:%s:single-collision-spectrum", io.second), [=](Quad& Q) {
                    EnergyLossUrbanDistribution d = make(u);
                    // the two Poisson uniforms are fixed at 1/2 (0 lattice bits): exactly one collision
                    // iff 1/2 > exp(-xs) >= 1/4; its energy is then a function of the third canonical
                    ld const p0 = expl(-ld(d.xs_ion_));
                    if (!(d.xs_ion_ <= 8 && p0 < 0.5L && p0 >= 0.25L))
                    {
                        Q.R.tag("quad:urban-stage:ion-single-collision:skipped(xs not in (ln2,ln4])");
                        return;
                    }
                    ld const e0 = 1e-5L, tmax = d.max_energy_;
                    Lattice L3{{0, 0, b1}};
                    Q.continuous(L3, {0, 0, 1}, [&](Eng& e) { return d.sample_ionization_loss(e); },
                                 [=](double x) {
                                     if (x <= e0)
                                         return ld(0);
                                     if (x >= tmax)
                                         return ld(1);
                                     return (1 - e0 / ld(x)) / (1 - e0 / tmax);
                                 });
                    Q.R.tag("quad:urban-stage:ion-single-collision");
                });
            }

            //// ionisation, fast regime (xs_ion > 8): Gaussian for the collisions in [E0, alpha E0] plus
            //// individually sampled collisions in (alpha E0, Tmax].  With n3 = xs_ion collisions of
            //// density ~ 1/E^2 on [E0, Tmax], R = Tmax/E0 and alpha = (n3 + 8) R / (8 R + n3) (PHYS332
            //// Eq. 25 with the class's max_collisions = 8):
            ////   number above alpha E0:  Poisson(n3 (R - alpha) / (alpha (R - 1)))
            ////   mean loss below:        n3 R E0 ln(alpha) / (R - 1)        (both by integrating 1/E^2)
            //// Judged: the law of the number of collisions above alpha E0, and the MEDIAN of the Gaussian part (a normal
            //// truncated symmetrically to (0, 2 mean] has median = mean whatever its width; the width
            //// formula itself is not judged).
            std::vector<std::pair<US, char const*>> ifs = {{{1, 1e-2, 1.0, 1e3, 0.99}, "Ar,loss=0.01,Tmax=1"},
                                                           {{0, 0.1, 1e-3, 1e3, 0.99}, "H2,loss=0.1,Tmax=0.001"},
                                                           {{2, 1e-3, 5e-4, 1e3, 0.99}, "Pb,loss=1e-3,Tmax=5e-4(no excitation)"}};
            for (auto io : ifs)
            {
                US u = io.first;
                auto ref = [](EnergyLossUrbanDistribution const& d, ld* lam_up, ld* mean_low) {
                    ld const e0 = 1e-5L, R = ld(d.max_energy_) / e0, n3 = d.xs_ion_;
                    ld const alpha = (n3 + 8) * R / (8 * R + n3);
                    *lam_up = n3 * (R - alpha) / (alpha * (R - 1));
                    *mean_low = n3 * R * e0 * logl(alpha) / (R - 1);
                };
                add("eloss-urban", fmt("stage:ionisation:fast:%s:number of collisions above alpha E0", io.second), [=](Quad& Q) {
                    EnergyLossUrbanDistribution d = make(u);
                    if (!(d.xs_ion_ > 8))
                    {
                        Q.R.harness_error(fmt("%s: xs_ion=%g is not in the fast regime", Q.cid.c_str(), d.xs_ion_));
                        return;
                    }
                    ld lam, mlow;
                    ref(d, &lam, &mlow);
                    Q.R.note("info:" + Q.cid, fmt("xs_ion=%g: Poisson mean above alpha E0 = %Lg, Gaussian mean = %Lg", d.xs_ion_, lam, mlow));
                    // canonicals 1,2 (the normal pair) fixed at 1/2: Box-Muller gives z in {0, -1.18}, accepted
                    // at the first attempt.  Then the direct Poisson method draws n + 1 uniforms and every
                    // collision one more: 2 + (n + 1) + n canonicals in total, i.e. the number n of collisions
                    // above alpha E0 is read off the draw count.  Lattice on the first two Poisson uniforms
                    // ({n <= k} is decreasing in each), the rest from the tail - as for the Poisson cases.
                    Lattice L4{{0, 0, h, h}};
                    bool first_rejected = false;
                    Q.discrete(L4, {0, 0, 1, 1},
                               [&](Eng& e) {
                                   double x = d.sample_ionization_loss(e);
                                   if (!(x > 0))
                                       first_rejected = true;
                                   uint64_t const c = e.canonicals();
                                   return (c >= 3 && (c - 3) % 2 == 0) ? double((c - 3) / 2) : 1e6;
                               },
                               [=](long long k) { return double(poisson_cdf(lam, k)); });
                    if (first_rejected)
                        Q.R.violation("quad:eloss-urban:fast-ionisation-loss-not-positive", Q.cid,
                                      "the Gaussian part lies in (0, 2 mean]: a non-positive ionisation loss is outside the support");
                    Q.R.tag("quad:urban-stage:ion-fast:poisson-part");
                });
                add("eloss-urban", fmt("stage:ionisation:fast:%s:median of the Gaussian part", io.second), [=](Quad& Q) {
                    EnergyLossUrbanDistribution d = make(u);
                    ld lam, mlow;
                    ref(d, &lam, &mlow);
                    // lattice on the normal pair; third canonical 2^-32 exactly: exp(lam) 2^-32 < 1 (lam < 8),
                    // so no collision above alpha E0 and the sample IS the Gaussian part.  Points whose first
                    // normal is rejected (more than 3 canonicals) are left out: the accepted set and {x <= mean}
                    // are both unions of Box-Muller cells, error <= 2 L / p_accept as for the conditional CDFs.
                    uint64_t const N = L2.size();
                    uint64_t acc = 0, below = 0;
                    std::vector<uint32_t> sc(3);
                    for (uint64_t idx = 0; idx < N; ++idx)
                    {
                        L2.script(idx, sc);
                        sc[2] = 0u;
                        Eng e({sc[0], sc[1], 0x00000001u}, mix64(Q.seed() + idx), 0u);
                        double x = d.sample_ionization_loss(e);
                        if (e.canonicals() != 3)
                            continue;
                        ++acc;
                        if (x <= double(mlow))
                            ++below;
                    }
                    if (acc < N / 2)
                    {
                        // declared configurations: sd < mean/4, first-attempt acceptance > 0.9999
                        Q.R.violation("quad:eloss-urban:fast-ionisation-draw-pattern", Q.cid,
                                      fmt("only %llu of %llu lattice points consumed exactly 3 canonicals (normal pair accepted at "
                                          "the first attempt + one Poisson uniform <= exp(-lambda), lambda = %Lg < 8)",
                                          (unsigned long long)acc, (unsigned long long)N, lam));
                        return;
                    }
                    double const pacc = double(acc) / N;
                    Q.judge("P(x <= analytic mean | first attempt accepted) vs 1/2", std::fabs(double(below) / acc - 0.5),
                            L2.lterm(bm2), 0, acc, 2.0 / pacc);
                    Q.R.note("info:" + Q.cid, fmt("Gaussian mean (analytic) = %Lg, accepted %llu of %llu, below %llu", mlow,
                                                  (unsigned long long)acc, (unsigned long long)N, (unsigned long long)below));
                    Q.R.count("evaluations", N);
                    Q.R.tag("quad:urban-stage:ion-fast:gaussian-median");
                    Q.R.nontrivial(vf::hash_str(Q.cid));
                });
                // (d2) the energy of ONE individually sampled collision where alpha != 1 (in the Poisson-only
                // cases above alpha == 1, where alpha E0 == E0 and alpha/R == 1/R).  Explicit words, lower word 0:
                //   1,2  normal pair at (1/2,1/2): z = r sin(pi) ~ 1e-16, Gaussian part == its mean, accepted
                //   3    u = 1/2:  1/2 > exp(-lam)  (checked: lam > ln 2)  -> the Poisson loop continues
                //   4    u = 2^-13: 2^-14 <= exp(-lam) (lam < 8 < 14 ln 2) -> exactly ONE collision
                //   5    the 2^b1 lattice midpoints: y = alpha E0 / U(alpha/R, 1), monotone in u5
                // y = x - g0 with g0 the sample of the no-collision script {1/2, 1/2, 2^-32}; law
                //   F(y) = (1 - alpha E0/y) / (1 - alpha E0/Tmax) on [alpha E0, Tmax], alpha from PHYS332 Eq. 25.
                add("eloss-urban", fmt("stage:ionisation:fast:%s:single-collision-spectrum above alpha E0", io.second), [=](Quad& Q) {
                    EnergyLossUrbanDistribution d = make(u);
                    ld lam, mlow;
                    ref(d, &lam, &mlow);
                    ld const e0 = 1e-5L, tmax = d.max_energy_, R = tmax / e0, n3 = d.xs_ion_;
                    ld const alpha = (n3 + 8) * R / (8 * R + n3);
                    if (!(d.xs_ion_ > 8 && lam > 0.7L && lam < 8 && alpha > 1.5L && alpha * e0 < tmax))
                    {
                        Q.R.harness_error(fmt("%s: xs_ion=%g lam=%Lg alpha=%Lg: not a fast-regime single-collision set-up",
                                              Q.cid.c_str(), d.xs_ion_, lam, alpha));
                        return;
                    }
                    double g0;
                    {
                        Eng e({0x80000000u, 0x80000000u, 0x00000001u}, mix64(Q.seed()), 0u);
                        g0 = d.sample_ionization_loss(e);
                        if (e.canonicals() != 3)
                        {
                            Q.R.harness_error(fmt("%s: the no-collision script drew %llu canonicals", Q.cid.c_str(),
                                                  (unsigned long long)e.canonicals()));
                            return;
                        }
                    }
                    uint64_t const N = L1.size();
                    std::vector<double> ys;
                    ys.reserve(N);
                    std::vector<uint32_t> sc(1);
                    uint64_t badc = 0;
                    for (uint64_t idx = 0; idx < N; ++idx)
                    {
                        L1.script(idx, sc);
                        Eng e({0x80000000u, 0x80000000u, 0x80000000u, 0x00080000u, sc[0]}, mix64(Q.seed() + idx), 0u);
                        double x = d.sample_ionization_loss(e);
                        if (e.canonicals() != 5)
                            ++badc;
                        ys.push_back(x - g0);
                    }
                    if (badc)
                    {
                        Q.R.violation("quad:eloss-urban:fast-ionisation-draw-pattern", Q.cid,
                                      fmt("%llu of %llu scripts did not consume exactly 5 canonicals (normal pair, two Poisson "
                                          "uniforms 1/2 and 2^-13 -> one collision, one energy fraction); lambda = %Lg",
                                          (unsigned long long)badc, (unsigned long long)N, lam));
                        return;
                    }
                    ld const ae0 = alpha * e0;
                    double dist = ks_sup(ys,
                                         [=](double y) {
                                             if (y <= ae0)
                                                 return ld(0);
                                             if (y >= tmax)
                                                 return ld(1);
                                             return (1 - ae0 / ld(y)) / (1 - ae0 / tmax);
                                         },
                                         1);
                    Q.judge("cdf of the collision energy (x - Gaussian part)", dist, L1.lterm(mono1), 0, N);
                    Q.R.note("info:" + Q.cid, fmt("alpha=%Lg alpha*E0=%Lg Tmax=%Lg lambda=%Lg g0=%g min y=%g max y=%g", alpha, ae0,
                                                  tmax, lam, g0, ys.front(), ys.back()));
                    Q.R.count("evaluations", N);
                    Q.R.tag("quad:urban-stage:ion-fast:single-collision");
                    Q.R.nontrivial(vf::hash_str(Q.cid));
                });
            }
        }
    }
    return C;
}

static void self_check(vf::Run& R)
{
    // reference functions against closed forms
    struct T
    {
        ld got, want;
        char const* what;
    };
    std::vector<T> ts = {{gamma_p(1, 0.3L), 1 - expl(-0.3L), "P(1,x)"},
                         {gamma_p(1, 7.0L), 1 - expl(-7.0L), "P(1,x) cf"},
                         {gamma_p(0.5L, 0.8L), erfl(sqrtl(0.8L)), "P(1/2,x)"},
                         {gamma_p(0.5L, 4.0L), erfl(2.0L), "P(1/2,x) cf"},
                         {gamma_p(3, 2.5L), 1 - expl(-2.5L) * (1 + 2.5L + 2.5L * 2.5L / 2), "P(3,x)"},
                         {gamma_p(3, 9.0L), 1 - expl(-9.0L) * (1 + 9.0L + 40.5L), "P(3,x) cf"},
                         {Phi(0), 0.5L, "Phi(0)"},
                         {Phi(1.959963984540054L), 0.975L, "Phi(1.96)"},
                         {poisson_cdf(2, 1), 3 * expl(-2.0L), "Poisson cdf"}};
    for (auto const& t : ts)
        if (!(fabsl(t.got - t.want) < 1e-15L))
            R.harness_error(fmt("reference function %s: %.20Lg vs %.20Lg", t.what, t.got, t.want));
    // the scripted engine delivers what this harness assumes
    {
        Eng e({0x00000001u, 0xffffffffu}, 1, kMidCell);
        double a = generate_canonical(e), b = generate_canonical(e);
        if (a != canon_of(1u) || b != canon_of(0xffffffffu) || !(b < 1.0) || e.canonicals() != 2)
            R.harness_error("scripted engine: mid-cell canonical mismatch");
        Lattice L{{3}};
        std::vector<uint32_t> s(1);
        L.script(5, s);
        Eng g(s, 0, 0u);
        if (generate_canonical(g) != 11.0 / 16)
            R.harness_error("scripted engine: lattice midpoint mismatch");
    }
}

static void run_quadrature(vf::Run& R, ElossWorld& W)
{
    auto cases = build_quad_cases(W, R.thorough());
    for (uint64_t i = 0; i < cases.size(); ++i)
    {
        if (!R.mine(i))
            continue;
        if (R.expired())
            break;
        std::string cid = "quad:" + cases[i].name;
        if (!R.want(cid))
            continue;
        R.begin_case(cid, 3000);
        Quad Q{R, R.thorough(), cid, cases[i].family};
        cases[i].body(Q);
        R.count("quad-cases");
        if (i % 7 == 0)
            R.sample(cid + (R.thorough() ? " on the 2^22-point" : " on the 2^20-point") + " midpoint lattice of the first canonicals");
        R.end_case();
    }
}

int main(int argc, char** argv)
{
    vf::Run R(argc, argv, "C15", "c15_samplers");
    self_check(R);
    ElossWorld W;
    if (R.part() == "quadrature")
        run_quadrature(R, W);
    else if (R.part() == "support" || R.part().empty())
        run_support(R, W);
    else
        R.harness_error("unknown part " + R.part());
    return R.finish();
}
