// C17 - user scoring receives exactly the steps that happened.
//
// Executions: the E1 exploration of harness/loop_explore.hh (all interaction-outcome
// sequences within the deviation bound) over a lattice of SCORING configurations:
//   callbacks/filters (mode m<k>):
//     0 one recorder, no detectors, all fields          1 ... minimal fields
//     2 two recorders (all ; minimal)                   8 two recorders (minimal ; all)
//     3 detector map {inner->0}                          4 ... + non-zero-deposit filter
//     5 {inner->0, world->1} + filter                   12 {inner->3, world->0} + filter (ids not the
//                                                          rank of the volume ids, not contiguous)
//     6 two recorders, disjoint maps, filter (on ; off)  9 the same with (off ; on): declared filter
//                                                          is the AND whatever the callback order
//     17 the same with (on ; on): the merged filter is ON with two callbacks
//     10 {inner->0}, selection = {energy_deposition} only (no pre-step field: the pre-step gather
//        action exists only because detectors are declared)
//     11 {inner->3, world->0} + filter, selection {energy_deposition}
//     14 {inner->0, world->1}, selection {parent_id, step_length, pre.energy, post.pos}
//     7 SimpleCalo alone, labels {inner, g1}            13 SimpleCalo, labels {g1, inner}
//     oh<k> one recorder selecting ONLY flag k (each of the 17 flags of StepSelection)
//     dj<k> two recorders with disjoint one-flag selections (k ; (k+5) mod 17)
//   x slots {1,2,8} x {1 stream | 2 streams, changing from root to root: stream = (pidx/2 +
//     pidx/4) % 2, event = (pidx/3) % 4, decoupled from the start position in the low bit of pidx}
//   x track order {none; reindex_shuffle, reindex_status (+ particle_type, both_action in
//     thorough) for modes 0 and 4: thread id != slot id},
//   always with ActionDiagnostic and StepDiagnostic attached; primaries carry event ids 0..3.
// Oracle: independent probe actions at user_pre / user_post snapshot every slot through
// CoreTrackView; the multiset of delivered records must equal the multiset of snapshots
// filtered by the DECLARED (merged) filters, field by field and bit for bit, for every
// selected field, and the stream id handed to the callback must be the stepper's; the set of
// gathered collections must be exactly the union of the selections; with a detector map every
// recorder also runs the real copy_steps() (DetectorSteps.cc) into a reused DetectorStepOutput
// and compares it element-wise with the raw slots that carry a detector id;
// SimpleCalo per-stream tallies and totals == sum of expected deposits per (stream, detector);
// ActionDiagnostic == histogram of (particle, post-step action) over active slots;
// StepDiagnostic == histogram of step counts of killed tracks (66 bins, clamped at 65; 4 bins
// clamped at 3 in m0.s8.t1 / m4.s8.t1, where the overflow bin is reached: tags
// step-diagnostic:overflow-bin:{tie,beyond});
// and once per root ActionDiagnostic::calc_actions_map() == the labelled non-zero counts;
// after every root the three tallies are clear()ed, must read zero, and start again.
// Every configuration of the lattice is valid: a rejection while building it is a violation.
#include "harness/loop_explore.hh"

using namespace celeritas;
using namespace vf;

struct ScoreCfg
{
    std::string id;
    int mode;
    unsigned slots;
    unsigned streams;
    TrackOrder order{TrackOrder::none};
    int hot{-1}, hot2{-1};  // one-flag selections (modes 15 / 16)
    unsigned step_max_bin{64};  // StepDiagnostic max_step_bin (2 for m0/m4 with 8 slots, 1 stream)
};

// merged declared filters / selection of a configuration
struct Declared
{
    std::map<int, int> detectors;  // volume -> detector
    bool nonzero{false};
    StepSelection selection;
    std::vector<int> calo_detectors;  // SimpleCalo: detector index -> volume
};

// the 17 flags of StepSelection in the bit order of Recorder::note_presence
static constexpr int num_flags = 17;
static bool& flag(StepSelection& s, int k)
{
    switch (k)
    {
        case 0: return s.event_id;
        case 1: return s.parent_id;
        case 2: return s.track_step_count;
        case 3: return s.action_id;
        case 4: return s.step_length;
        case 5: return s.particle;
        case 6: return s.energy_deposition;
        default: break;
    }
    StepPointSelection& p = s.points[k < 12 ? StepPoint::pre : StepPoint::post];
    switch ((k - 7) % 5)
    {
        case 0: return p.time;
        case 1: return p.pos;
        case 2: return p.dir;
        case 3: return p.volume_id;
        default: return p.energy;
    }
}
static char const* flag_name(int k)
{
    static char const* const n[num_flags]
        = {"event_id", "parent_id", "track_step_count", "action_id", "step_length", "particle",
           "energy_deposition", "pre.time", "pre.pos", "pre.dir", "pre.volume", "pre.energy",
           "post.time", "post.pos", "post.dir", "post.volume", "post.energy"};
    return n[k];
}
static uint32_t mask_of(StepSelection s)
{
    uint32_t m = 0;
    for (int k = 0; k < num_flags; ++k)
        m |= uint32_t(flag(s, k)) << k;
    return m;
}
static StepSelection one_flag(int k)
{
    StepSelection s;
    flag(s, k) = true;
    return s;
}
static std::string mask_str(uint32_t m)
{
    std::string o;
    for (int k = 0; k < num_flags; ++k)
        if (m & (1u << k))
            o += (o.empty() ? "" : ",") + std::string(flag_name(k));
    return "{" + o + "}";
}

static StepSelection minimal_selection()
{
    StepSelection s;
    s.energy_deposition = true;
    s.points[StepPoint::pre].volume_id = true;
    s.points[StepPoint::post].energy = true;
    return s;
}

static LoopConfig make_cfg(ScoreCfg const& sc, Declared* decl, int inner_vol, int world_vol)
{
    LoopConfig c;
    c.geometry = 1;
    c.along = AlongStep::linear;
    c.slots = sc.slots;
    c.max_streams = sc.streams;
    c.track_order = sc.order;
    c.xs_gamma = 2.0;
    c.xs_electron = 3.0;
    c.dedx = 2.0;
    c.probes = {StepActionOrder::user_pre, StepActionOrder::user_post};
    c.action_diagnostic = true;
    c.step_diagnostic = true;
    c.step_diagnostic_max_bin = sc.step_max_bin;
    decl->detectors.clear();
    decl->nonzero = false;
    decl->selection = StepSelection::all();
    auto det = [](std::initializer_list<std::pair<int, int>> l) {
        StepInterface::Filters f;
        for (auto const& kv : l)
            f.detectors[VolumeId(kv.first)] = DetectorId(kv.second);
        return f;
    };
    auto edep_only = [] {
        StepSelection s;
        s.energy_deposition = true;
        return s;
    };
    switch (sc.mode)
    {
        case 0: break;  // one recorder, everything
        case 1:
            c.recorder_selection = minimal_selection();
            decl->selection = minimal_selection();
            break;
        case 2:
            c.second_recorder = true;
            c.recorder2_selection = minimal_selection();
            break;  // union = all
        case 8:
            c.recorder_selection = minimal_selection();
            c.second_recorder = true;  // selects everything: union = all
            break;
        case 3:
            c.recorder_filters = det({{inner_vol, 0}});
            decl->detectors = {{inner_vol, 0}};
            break;
        case 4:
            c.recorder_filters = det({{inner_vol, 0}});
            c.recorder_filters.nonzero_energy_deposition = true;
            decl->detectors = {{inner_vol, 0}};
            decl->nonzero = true;
            break;
        case 5:
            c.recorder_filters = det({{inner_vol, 0}, {world_vol, 1}});
            c.recorder_filters.nonzero_energy_deposition = true;
            decl->detectors = {{inner_vol, 0}, {world_vol, 1}};
            decl->nonzero = true;
            break;
        case 12:
            c.recorder_filters = det({{inner_vol, 3}, {world_vol, 0}});
            c.recorder_filters.nonzero_energy_deposition = true;
            decl->detectors = {{inner_vol, 3}, {world_vol, 0}};
            decl->nonzero = true;
            break;
        case 6:
        case 9:
        case 17:
            c.recorder_filters = det({{inner_vol, 0}});
            c.recorder_filters.nonzero_energy_deposition = (sc.mode != 9);
            c.second_recorder = true;
            c.recorder2_filters = det({{world_vol, 1}});
            c.recorder2_filters.nonzero_energy_deposition = (sc.mode != 6);
            decl->detectors = {{inner_vol, 0}, {world_vol, 1}};
            decl->nonzero = (sc.mode == 17);  // only if all agree, whatever the order
            break;
        case 10:
            c.recorder_filters = det({{inner_vol, 0}});
            c.recorder_selection = edep_only();
            decl->detectors = {{inner_vol, 0}};
            decl->selection = edep_only();
            break;
        case 11:
            c.recorder_filters = det({{inner_vol, 3}, {world_vol, 0}});
            c.recorder_filters.nonzero_energy_deposition = true;
            c.recorder_selection = edep_only();
            decl->detectors = {{inner_vol, 3}, {world_vol, 0}};
            decl->nonzero = true;
            decl->selection = edep_only();
            break;
        case 14: {
            StepSelection s;
            s.parent_id = true;
            s.step_length = true;
            s.points[StepPoint::pre].energy = true;
            s.points[StepPoint::post].pos = true;
            c.recorder_filters = det({{inner_vol, 0}, {world_vol, 1}});
            c.recorder_selection = s;
            decl->detectors = {{inner_vol, 0}, {world_vol, 1}};
            decl->selection = s;
            break;
        }
        case 7:
        case 13:
            c.with_recorder = false;
            if (sc.mode == 7)
            {
                c.calo_volumes = {"inner", "g1"};
                decl->detectors = {{inner_vol, 0}, {world_vol, 1}};
                decl->calo_detectors = {inner_vol, world_vol};
            }
            else
            {
                c.calo_volumes = {"g1", "inner"};
                decl->detectors = {{world_vol, 0}, {inner_vol, 1}};
                decl->calo_detectors = {world_vol, inner_vol};
            }
            decl->nonzero = true;
            {
                // SimpleCalo's own selection
                StepSelection s;
                s.energy_deposition = true;
                s.points[StepPoint::pre].volume_id = true;
                decl->selection = s;
            }
            break;
        case 15:
            c.recorder_selection = one_flag(sc.hot);
            decl->selection = one_flag(sc.hot);
            break;
        case 16:
            c.recorder_selection = one_flag(sc.hot);
            c.second_recorder = true;
            c.recorder2_selection = one_flag(sc.hot2);
            decl->selection = one_flag(sc.hot);
            flag(decl->selection, sc.hot2) = true;
            break;
        default: throw std::runtime_error("bad scoring mode");
    }
    return c;
}

struct Expected
{
    ProbeSnap const* pre;
    ProbeSnap const* post;
    int detector;
};

int main(int argc, char** argv)
{
    vf::Run R(argc, argv, "C17", "c17_scoring");
    bool const thorough = R.thorough();
    int const bound = 2;
    std::vector<ScoreCfg> cfgs;
    for (int mode : {0, 1, 2, 3, 4, 5, 6, 7, 8, 9, 10, 11, 12, 13, 14, 17})
        for (unsigned s : {1u, 2u, 8u})
            for (unsigned streams : {1u, 2u})
            {
                // quick: two streams only where the stream matters beyond the stream id handed
                // to the callback (calorimeters) + one representative of each family
                if (!thorough && streams == 2
                    && !(mode == 0 || mode == 4 || mode == 7 || mode == 9 || mode == 12 || mode == 13))
                    continue;
                ScoreCfg sc{fmt("m%d.s%u.t%u", mode, s, streams), mode, s, streams};
                // a StepDiagnostic with 4 bins (0, 1, 2, overflow) where the most tracks are
                // alive: the clamp min(num_steps, num_bins - 1) binds (tie and beyond)
                if ((mode == 0 || mode == 4) && s == 8 && streams == 1)
                    sc.step_max_bin = 2;
                cfgs.push_back(sc);
            }
    // thread id != slot id
    {
        std::vector<TrackOrder> orders = {TrackOrder::reindex_shuffle, TrackOrder::reindex_status};
        if (thorough)
        {
            orders.push_back(TrackOrder::reindex_particle_type);
            orders.push_back(TrackOrder::reindex_both_action);
            orders.push_back(TrackOrder::init_charge);
        }
        for (int mode : {0, 4})
            for (unsigned s : {2u, 8u})
                for (TrackOrder o : orders)
                {
                    ScoreCfg sc{fmt("m%d.s%u.t1.o%d", mode, s, int(o)), mode, s, 1};
                    sc.order = o;
                    cfgs.push_back(sc);
                }
    }
    // one-flag selections, and pairs of disjoint one-flag selections
    for (int k = 0; k < num_flags; ++k)
        for (unsigned s : {1u, 2u, 8u})
        {
            if (!thorough && s != 2)
                continue;
            ScoreCfg a{fmt("oh%d.s%u.t1", k, s), 15, s, 1};
            a.hot = k;
            cfgs.push_back(a);
            ScoreCfg b{fmt("dj%d.s%u.t1", k, s), 16, s, 1};
            b.hot = k;
            b.hot2 = (k + 5) % num_flags;
            cfgs.push_back(b);
        }
    auto prims = primary_lattice(false);
    if (!thorough)
    {
        // 3 particles x {1,100 MeV} x 2 positions x 1 direction
        std::vector<PrimaryCase> p2;
        for (auto const& p : prims)
            if (p.id.find(".e0.") == std::string::npos && p.id.find(".d2") != std::string::npos)
                p2.push_back(p);
        prims.swap(p2);
    }
    uint64_t outer = 0;
    for (auto const& sc : cfgs)
    {
        if (!R.mine(outer++))
            continue;
        if (R.expired())
            break;
        if (R.replay() && R.replay_case().compare(0, sc.id.size() + 1, sc.id + ":") != 0)
            continue;
        // volume ids of the box-in-box geometry: [EXTERIOR]=0, inner=1, g1(world)=2
        int const inner_vol = 1, world_vol = 2;
        Declared decl;
        LoopConfig cfg = make_cfg(sc, &decl, inner_vol, world_vol);
        std::unique_ptr<LoopProblem> P;
        try
        {
            P = make_loop_problem(cfg);
        }
        catch (std::exception const& e)
        {
            // every configuration of the lattice is valid (non-empty selections, disjoint
            // detector maps, detectors on all callbacks or on none)
            std::string what = e.what();
            R.violation("scoring:valid-configuration-rejected", sc.id + ":" + prims.front().id + "|",
                        fmt("%s: constructing the problem with a valid set of step callbacks threw: %s",
                            sc.id.c_str(), what.substr(0, 400).c_str()));
            continue;
        }
        {
            auto const& vols = P->geometry->volumes();
            if (vols.at(VolumeId(inner_vol)).name != "inner" || vols.at(VolumeId(world_vol)).name != "g1")
                R.harness_error("unexpected volume numbering");
        }
        for (Recorder* rec : {P->recorder.get(), P->recorder2.get()})
            if (rec)
            {
                rec->track_presence = true;
                rec->run_copy_steps = true;  // acts only when a detector map is declared
            }
        R.tag("config:" + sc.id);
        uint32_t const want_mask = mask_of(decl.selection);
        // cumulative expectations for the diagnostics (they accumulate in the shared params
        // until clear() is called at the end of every root)
        std::map<std::pair<int, int>, uint64_t> exp_actions;  // (particle, action) -> count
        std::map<std::pair<int, int>, uint64_t> exp_steps;  // (particle, nsteps bin) -> count
        size_t const ncalo = decl.calo_detectors.size();
        std::vector<std::vector<double>> exp_calo(sc.streams, std::vector<double>(ncalo, 0.0));
        // StepDiagnostic::make_and_insert(core, max_bin): max_bin + underflow + overflow bins,
        // the executor clamps the step count at num_bins - 1
        unsigned const step_bins = sc.step_max_bin + 2;
        unsigned prim_index = 0;
        for (auto const& pc : prims)
        {
            unsigned const pidx = prim_index++;
            std::string root = sc.id + ":" + pc.id;
            if (R.replay() && R.replay_case().compare(0, root.size() + 1, root + "|") != 0)
                continue;
            R.begin_case(root, 600);
            auto const violations_before = R.num_violations();
            ExploreStats st;
            EventRun er;
            // streams change from root to root (a function of the root, so that a replay runs
            // on the same stream); event ids 0..3.  The roots are ordered (kind, energy,
            // position[, direction]) with the position in the low bit of pidx: stream and event
            // are mixed so that neither is a function of the start position, the energy or the
            // particle alone and stream != event % 2 on some roots (all four (stream, event
            // parity) and (stream, position) pairs occur)
            unsigned const stream = (sc.streams == 2) ? ((pidx / 2 + pidx / 4) % 2) : 0;
            unsigned const event = (pidx / 3) % 4;
            auto body = [&](Choices& c) {
                if (P->recorder)
                    P->recorder->steps.clear();
                if (P->recorder2)
                    P->recorder2->steps.clear();
                P->probe_log->snaps.clear();
                P->probe_log->call = 0;
                ExploreChooser ch;
                ch.c = &c;
                g_loop_chooser = &ch;
                er = EventRun{};
                try
                {
                    auto stp = P->make_stepper(stream);
                    stp->reseed(UniqueEventId{0});
                    Primary p = P->primary(pc.kind, pc.energy, pc.pos, pc.dir, event);
                    StepperResult r = (*stp)(Span<Primary const>{&p, 1});
                    er.calls = 1;
                    while (r && er.calls < 10000)
                    {
                        P->probe_log->call = er.calls;
                        r = (*stp)();
                        ++er.calls;
                    }
                    er.completed = !r;
                }
                catch (std::exception const& e)
                {
                    er.exception = e.what();
                }
                g_loop_chooser = nullptr;
            };
            auto on_exec = [&](Choices const& c) {
                R.count("evaluations");
                R.count("transitions", er.calls);
                std::string cid = root + "|" + choices_to_string(c.chosen());
                if (!er.exception.empty() || !er.completed)
                {
                    R.violation("loop:exception-or-no-termination", cid, er.exception);
                    return true;
                }
                // expected deliveries from the probes
                std::map<std::pair<unsigned, unsigned>, Expected> exp;  // (call, slot)
                for (auto const& s : P->probe_log->snaps)
                {
                    if (s.status == int(TrackStatus::inactive))
                        continue;
                    auto& e = exp[{s.call, s.slot}];
                    if (s.order == int(StepActionOrder::user_pre))
                        e.pre = &s;
                    else
                        e.post = &s;
                }
                uint64_t nexp = 0;
                std::vector<std::pair<std::pair<unsigned, unsigned>, Expected>> deliver;
                for (auto& kv : exp)
                {
                    Expected& e = kv.second;
                    if (!e.pre || !e.post)
                    {
                        R.violation("scoring:probe-mismatch", cid,
                                    "slot active at only one of user_pre/user_post");
                        return true;
                    }
                    // diagnostics count every active slot
                    ++exp_actions[{e.post->particle, e.post->post_action}];
                    if (e.post->status == int(TrackStatus::killed))
                    {
                        ++exp_steps[{e.post->particle,
                                     int(std::min<unsigned>(e.post->num_steps, step_bins - 1))}];
                        if (e.post->num_steps == step_bins - 1)
                            R.tag("step-diagnostic:overflow-bin:tie");
                        if (e.post->num_steps > step_bins - 1)
                            R.tag("step-diagnostic:overflow-bin:beyond");
                    }
                    e.detector = -1;
                    if (!decl.detectors.empty())
                    {
                        auto it = decl.detectors.find(e.pre->volume);
                        if (it == decl.detectors.end())
                            continue;
                        e.detector = it->second;
                        if (decl.nonzero && e.post->edep == 0)
                            continue;
                        if (ncalo)
                            exp_calo[stream][e.detector] += e.post->edep;
                    }
                    deliver.push_back(kv);
                    ++nexp;
                }
                R.count("expected_records", nexp);
                // compare with each recorder
                for (Recorder* rec : {P->recorder.get(), P->recorder2.get()})
                {
                    if (!rec)
                        continue;
                    if (rec->stale_detector_slots)
                    {
                        R.violation("scoring:detector-id-on-vacant-slot", cid,
                                    fmt("%s: %llu vacant slots (null track id) were delivered with a "
                                        "detector id set (first: %s): consumers that select slots by "
                                        "detector id score the stale step again",
                                        sc.id.c_str(), (unsigned long long)rec->stale_detector_slots,
                                        rec->stale_detector_first.c_str()));
                        rec->stale_detector_slots = 0;
                        rec->stale_detector_first.clear();
                        rec->copy_steps_errors = 0;
                        rec->copy_steps_first.clear();
                        return true;
                    }
                    if (rec->copy_steps_errors)
                    {
                        R.violation("scoring:copy-steps", cid,
                                    fmt("%s: copy_steps() output differs from the raw slots that have a "
                                        "detector id in %llu of %llu calls (first: %s)",
                                        sc.id.c_str(), (unsigned long long)rec->copy_steps_errors,
                                        (unsigned long long)rec->copy_steps_calls,
                                        rec->copy_steps_first.c_str()));
                        rec->copy_steps_errors = 0;
                        rec->copy_steps_first.clear();
                        return true;
                    }
                    // "each data member corresponds exactly to a flag in StepSelection; if the
                    // flag is disabled the member data will be empty" (StepData.hh): the gathered
                    // collections are exactly the union of the callbacks' selections
                    if (rec->present_or != 0 || rec->present_and != ~uint32_t(0))
                    {
                        uint32_t const missing = want_mask & ~rec->present_and;
                        uint32_t const extra = rec->present_or & ~want_mask;
                        rec->present_or = 0;
                        rec->present_and = ~uint32_t(0);
                        if (missing)
                        {
                            R.violation("scoring:selected-field-not-gathered", cid,
                                        fmt("%s: selected %s, but the collections of %s were delivered "
                                            "empty",
                                            sc.id.c_str(), mask_str(want_mask).c_str(),
                                            mask_str(missing).c_str()));
                            return true;
                        }
                        if (extra)
                        {
                            R.violation("scoring:field-gathered-but-not-selected", cid,
                                        fmt("%s: selected %s, but %s were gathered too", sc.id.c_str(),
                                            mask_str(want_mask).c_str(), mask_str(extra).c_str()));
                            return true;
                        }
                        R.count("presence_checked");
                    }
                    std::map<std::pair<unsigned, unsigned>, StepRec const*> got;
                    for (auto const& r : rec->steps)
                    {
                        if (!got.emplace(std::make_pair(r.call, r.slot), &r).second)
                        {
                            R.violation("scoring:step-delivered-twice", cid,
                                        fmt("call %u slot %u delivered twice to one callback", r.call, r.slot));
                            return true;
                        }
                    }
                    if (got.size() != deliver.size())
                    {
                        R.violation("scoring:wrong-number-of-steps", cid,
                                    fmt("%s: %zu records delivered, %zu steps happened that pass the "
                                        "declared filters (detectors %zu, nonzero %d)",
                                        sc.id.c_str(), got.size(), deliver.size(),
                                        decl.detectors.size(), int(decl.nonzero)));
                        return true;
                    }
                    for (auto const& kv : deliver)
                    {
                        auto it = got.find(kv.first);
                        if (it == got.end())
                        {
                            R.violation("scoring:step-not-delivered", cid,
                                        fmt("call %u slot %u (track %u) not delivered", kv.first.first,
                                            kv.first.second, kv.second.post->track));
                            return true;
                        }
                        StepRec const& r = *it->second;
                        Expected const& e = kv.second;
                        auto const& sel = decl.selection;
                        std::string bad;
                        auto chk = [&](bool selected, bool equal, char const* what) {
                            if (selected && !equal && bad.empty())
                                bad = what;
                        };
                        chk(true, r.track == e.post->track, "track_id");
                        chk(true, r.stream == int(stream), "stream_id");
                        chk(!decl.detectors.empty(), r.detector == e.detector, "detector");
                        chk(sel.event_id, r.event == e.post->event, "event_id");
                        chk(sel.event_id, r.event == event, "event_id");
                        chk(sel.parent_id, r.parent == e.post->parent, "parent_id");
                        chk(sel.track_step_count, r.step_count == e.post->num_steps, "track_step_count");
                        chk(sel.action_id, r.action == e.post->post_action, "action_id");
                        chk(sel.step_length, r.step_length == e.post->step_length, "step_length");
                        chk(sel.particle, r.particle == e.post->particle, "particle");
                        chk(sel.energy_deposition, r.edep == e.post->edep, "energy_deposition");
                        for (int w = 0; w < 2; ++w)
                        {
                            auto const& ps = sel.points[w ? StepPoint::post : StepPoint::pre];
                            auto const& q = w ? r.post : r.pre;
                            ProbeSnap const& s = w ? *e.post : *e.pre;
                            chk(ps.time, q.time == s.time, w ? "post.time" : "pre.time");
                            chk(ps.pos, q.pos == s.pos, w ? "post.pos" : "pre.pos");
                            chk(ps.dir, q.dir == s.dir, w ? "post.dir" : "pre.dir");
                            chk(ps.volume_id, q.volume == s.volume, w ? "post.volume" : "pre.volume");
                            chk(ps.energy, q.energy == s.energy, w ? "post.energy" : "pre.energy");
                        }
                        if (!bad.empty())
                        {
                            R.violation("scoring:field-differs:" + bad, cid,
                                        fmt("%s call %u slot %u track %u: delivered %s differs from the "
                                            "track state at the step point",
                                            sc.id.c_str(), kv.first.first, kv.first.second,
                                            e.post->track, bad.c_str()));
                            return true;
                        }
                        R.count("records_compared");
                    }
                    if (rec->copy_steps_calls)
                    {
                        R.count("copy_steps_calls", rec->copy_steps_calls);
                        R.count("copy_steps_elements", rec->copy_steps_elements);
                        rec->copy_steps_calls = 0;
                        rec->copy_steps_elements = 0;
                    }
                }
                // calorimeter: per stream (the state the callback's stream id selects) and total
                if (P->calo)
                {
                    auto tot = P->calo->calc_total_energy_deposition();
                    if (tot.size() != ncalo)
                        R.harness_error("calorimeter size");
                    for (size_t d = 0; d < tot.size(); ++d)
                    {
                        double want_tot = 0;
                        for (unsigned s = 0; s < sc.streams; ++s)
                        {
                            double const want = exp_calo[s][d];
                            want_tot += want;
                            // stream-local tally: SimpleCalo::energy_deposition<host>(StreamId) is
                            // declared but not instantiated in the library, so read its store
                            auto const* sp = P->calo->store_.state<MemSpace::host>(StreamId{s});
                            double const have
                                = sp ? sp->energy_deposition[DetectorId(d)] : 0.0;
                            double tol = 1e-12 * (std::fabs(want) + 1);
                            if (std::fabs(have - want) > tol)
                            {
                                R.violation("scoring:calorimeter-stream-tally", cid,
                                            fmt("%s stream %u detector %zu (volume %d): stream-local "
                                                "tally %.17g, sum of deposits of the steps that "
                                                "happened on that stream %.17g (event ran on stream %u)",
                                                sc.id.c_str(), s, d, decl.calo_detectors[d], have, want,
                                                stream));
                                return true;
                            }
                        }
                        double tol = 1e-12 * (std::fabs(want_tot) + 1);
                        if (std::fabs(tot[d] - want_tot) > tol)
                        {
                            R.violation("scoring:calorimeter-total", cid,
                                        fmt("%s detector %zu (volume %d): tally %.17g, sum of deposits "
                                            "of the steps that happened %.17g",
                                            sc.id.c_str(), d, decl.calo_detectors[d], tot[d], want_tot));
                            return true;
                        }
                    }
                    R.count("calo_compared");
                }
                // diagnostics (cumulative over the executions of this root on this CoreParams)
                {
                    auto act = P->action_diag->calc_actions();
                    for (size_t p = 0; p < act.size(); ++p)
                        for (size_t a = 0; a < act[p].size(); ++a)
                        {
                            auto it = exp_actions.find({int(p), int(a)});
                            uint64_t want = it == exp_actions.end() ? 0 : it->second;
                            if (act[p][a] != want)
                            {
                                // the recorded (fixed) finding is "never runs with one track
                                // slot": every count is zero; any other miscount is not it
                                bool all_zero = true;
                                for (auto const& row : act)
                                    for (auto v : row)
                                        all_zero = all_zero && v == 0;
                                R.violation(sc.slots == 1 && all_zero
                                                ? "scoring:action-diagnostic-count[1-slot]"
                                                : "scoring:action-diagnostic-count",
                                            cid,
                                            fmt("%s: ActionDiagnostic counts %u steps of particle %zu "
                                                "ending with action %s, %llu happened",
                                                sc.id.c_str(), unsigned(act[p][a]), p,
                                                P->action_labels.at(int(a)).c_str(),
                                                (unsigned long long)want));
                                return true;
                            }
                        }
                    auto stp = P->step_diag->calc_steps();
                    for (size_t p = 0; p < stp.size(); ++p)
                    {
                        if (stp[p].size() != step_bins)
                            R.harness_error("StepDiagnostic bin count");
                        for (size_t b = 0; b < stp[p].size(); ++b)
                        {
                            auto it = exp_steps.find({int(p), int(b)});
                            uint64_t want = it == exp_steps.end() ? 0 : it->second;
                            if (stp[p][b] != want)
                            {
                                R.violation("scoring:step-diagnostic-count", cid,
                                            fmt("%s: StepDiagnostic counts %u killed tracks of particle "
                                                "%zu with %zu steps, %llu happened",
                                                sc.id.c_str(), unsigned(stp[p][b]), p, b,
                                                (unsigned long long)want));
                                return true;
                            }
                        }
                    }
                    R.count("diagnostics_compared");
                }
                uint64_t h = hash_str(sc.id);
                for (auto const& kv : deliver)
                    h = hash_mix(h, hash_pod(kv.second.post->track) ^ hash_pod(kv.second.post->post_action));
                R.outcome(h);
                R.state(h);
                if (c.deviations() > 0)
                    R.nontrivial(hash_mix(hash_str(root), h));
                return !((st.executions & 31) == 0 && R.expired());
            };
            if (R.replay())
            {
                std::string rc = R.replay_case();
                Choices c(choices_from_string(rc.substr(root.size() + 1)));
                body(c);
                on_exec(c);
            }
            else
            {
                explore(body, on_exec, bound, &st);
            }
            // labelled form of the action counts (once per root, on the cumulative counts)
            if (R.num_violations() == violations_before)
            {
                std::map<std::string, uint64_t> want;
                for (auto const& kv : exp_actions)
                    if (kv.second)
                        want[P->action_labels.at(kv.first.second) + " "
                             + std::string(P->particle->id_to_label(ParticleId(kv.first.first)))]
                            += kv.second;
                std::map<std::string, uint64_t> have;
                for (auto const& kv : P->action_diag->calc_actions_map())
                    have[kv.first] = kv.second;
                if (have != want)
                {
                    std::string diff;
                    for (auto const& kv : want)
                        if (!have.count(kv.first) || have[kv.first] != kv.second)
                            diff += fmt(" '%s' expected %llu got %llu;", kv.first.c_str(),
                                        (unsigned long long)kv.second,
                                        (unsigned long long)(have.count(kv.first) ? have[kv.first] : 0));
                    for (auto const& kv : have)
                        if (!want.count(kv.first))
                            diff += fmt(" '%s' expected 0 got %llu;", kv.first.c_str(),
                                        (unsigned long long)kv.second);
                    R.violation("scoring:action-diagnostic-map", root + "|",
                                fmt("%s: calc_actions_map() differs from the steps that happened:%s",
                                    sc.id.c_str(), diff.c_str()));
                }
                R.count("action_map_compared");
            }
            // reset of the tallies: clear() (all streams), everything must read zero, and the
            // expectations of the next root start from zero
            {
                if (P->calo)
                    P->calo->clear();
                P->action_diag->clear();  // precondition: a run has begun (a Stepper was made)
                P->step_diag->clear();
                std::string left;
                if (P->calo)
                {
                    for (double v : P->calo->calc_total_energy_deposition())
                        if (v != 0)
                            left = "SimpleCalo total";
                    for (unsigned s = 0; s < sc.streams; ++s)
                        if (auto const* sp = P->calo->store_.state<MemSpace::host>(StreamId{s}))
                            for (size_t d = 0; d < ncalo; ++d)
                                if (sp->energy_deposition[DetectorId(d)] != 0)
                                    left = fmt("SimpleCalo stream %u", s);
                }
                for (auto const& row : P->action_diag->calc_actions())
                    for (auto v : row)
                        if (v != 0)
                            left = "ActionDiagnostic";
                for (auto const& row : P->step_diag->calc_steps())
                    for (auto v : row)
                        if (v != 0)
                            left = "StepDiagnostic";
                if (!left.empty())
                    R.violation("scoring:clear-does-not-reset", root + "|",
                                fmt("%s: %s still holds counts after clear()", sc.id.c_str(),
                                    left.c_str()));
                R.count("clear_checked");
                exp_actions.clear();
                exp_steps.clear();
                for (auto& v : exp_calo)
                    std::fill(v.begin(), v.end(), 0.0);
            }
            R.count("roots");
            R.end_case();
            if (R.num_violations() > 20)
                break;
        }
    }
    R.sample("m4.s2.t1:k0.e2.p0.d2|3.1 = recorder with detector map {inner} + non-zero filter, 2 slots: "
             "100 MeV gamma, outcomes absorb_two then scatter_half; delivered records vs probe snapshots; "
             "copy_steps() output vs raw slots");
    R.sample("m7.s1.t2:k2.e1.p1.d2| = SimpleCalo alone, one slot, two streams alternating: positron "
             "event, per-stream tallies vs expected deposits; ActionDiagnostic/StepDiagnostic histograms");
    R.sample("oh9.s2.t1:k1.e1.p0.d2|1 = one recorder selecting ONLY pre.dir: the pre-step gather action "
             "must exist and nothing else may be gathered");
    R.sample("m9.s2.t1:k0.e1.p0.d2| = two recorders, disjoint detector maps, non-zero filter (off ; on): "
             "zero-deposit steps must still reach both");
    return R.finish();
}
