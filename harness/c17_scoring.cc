// C17 - user scoring receives exactly the steps that happened.
//
// Executions: the E1 exploration of harness/loop_explore.hh (all interaction-outcome
// sequences within the deviation bound) over a lattice of SCORING configurations:
//   callbacks/filters: {one recorder, no detectors, all fields | minimal fields;
//                       two recorders sharing one collector;
//                       recorder with detector map {inner} (non-zero filter off / on);
//                       recorder with detector map {inner, world} + non-zero filter;
//                       two recorders with disjoint detector maps;
//                       SimpleCalo alone}
//   x slots {1,2,8} x {1 stream | 2 streams run one after the other},
//   always with ActionDiagnostic and StepDiagnostic attached.
// Oracle: independent probe actions at user_pre / user_post snapshot every slot through
// CoreTrackView; the multiset of delivered records must equal the multiset of snapshots
// filtered by the DECLARED (merged) filters, field by field and bit for bit, for every
// selected field; SimpleCalo totals == sum of expected deposits per detector;
// ActionDiagnostic == histogram of (particle, post-step action) over active slots;
// StepDiagnostic == histogram of step counts of killed tracks.
#include "harness/loop_explore.hh"

using namespace celeritas;
using namespace vf;

struct ScoreCfg
{
    std::string id;
    int mode;
    unsigned slots;
    unsigned streams;
};

// merged declared filters / selection of a configuration
struct Declared
{
    std::map<int, int> detectors;  // volume -> detector
    bool nonzero{false};
    StepSelection selection;
};

static StepSelection minimal_selection()
{
    StepSelection s;
    s.energy_deposition = true;
    s.points[StepPoint::pre].volume_id = true;
    s.points[StepPoint::post].energy = true;
    return s;
}

static LoopConfig make_cfg(ScoreCfg const& sc, Declared* decl, int inner_vol, int world_vol)
{
    LoopConfig c;
    c.geometry = 1;
    c.along = AlongStep::linear;
    c.slots = sc.slots;
    c.max_streams = sc.streams;
    c.xs_gamma = 2.0;
    c.xs_electron = 3.0;
    c.dedx = 2.0;
    c.probes = {StepActionOrder::user_pre, StepActionOrder::user_post};
    c.action_diagnostic = true;
    c.step_diagnostic = true;
    decl->detectors.clear();
    decl->nonzero = false;
    decl->selection = StepSelection::all();
    auto det = [](std::initializer_list<std::pair<int, int>> l) {
        StepInterface::Filters f;
        for (auto const& kv : l)
            f.detectors[VolumeId(kv.first)] = DetectorId(kv.second);
        return f;
    };
    switch (sc.mode)
    {
        case 0: break;  // one recorder, everything
        case 1:
            c.recorder_selection = minimal_selection();
            decl->selection = minimal_selection();
            break;
        case 2:
            c.second_recorder = true;
            c.recorder2_selection = minimal_selection();
            break;  // union = all
        case 3:
            c.recorder_filters = det({{inner_vol, 0}});
            decl->detectors = {{inner_vol, 0}};
            break;
        case 4:
            c.recorder_filters = det({{inner_vol, 0}});
            c.recorder_filters.nonzero_energy_deposition = true;
            decl->detectors = {{inner_vol, 0}};
            decl->nonzero = true;
            break;
        case 5:
            c.recorder_filters = det({{inner_vol, 0}, {world_vol, 1}});
            c.recorder_filters.nonzero_energy_deposition = true;
            decl->detectors = {{inner_vol, 0}, {world_vol, 1}};
            decl->nonzero = true;
            break;
        case 6:
            c.recorder_filters = det({{inner_vol, 0}});
            c.recorder_filters.nonzero_energy_deposition = true;
            c.second_recorder = true;
            c.recorder2_filters = det({{world_vol, 1}});
            c.recorder2_filters.nonzero_energy_deposition = false;
            decl->detectors = {{inner_vol, 0}, {world_vol, 1}};
            decl->nonzero = false;  // only if all agree
            break;
        case 7:
            c.with_recorder = false;
            c.calo_volumes = {"inner", "g1"};
            decl->detectors = {{inner_vol, 0}, {world_vol, 1}};
            decl->nonzero = true;
            {
                StepSelection s;
                s.energy_deposition = true;
                decl->selection = s;
            }
            break;
    }
    return c;
}

struct Expected
{
    ProbeSnap const* pre;
    ProbeSnap const* post;
    int detector;
};

int main(int argc, char** argv)
{
    vf::Run R(argc, argv, "C17", "c17_scoring");
    bool const thorough = R.thorough();
    int const bound = 2;
    std::vector<ScoreCfg> cfgs;
    for (int mode = 0; mode <= 7; ++mode)
        for (unsigned s : {1u, 2u, 8u})
            for (unsigned streams : {1u, 2u})
            {
                if (!thorough && streams == 2 && !(mode == 0 || mode == 7))
                    continue;
                if (!thorough && s == 8 && mode % 2)
                    continue;
                cfgs.push_back({fmt("m%d.s%u.t%u", mode, s, streams), mode, s, streams});
            }
    auto prims = primary_lattice(false);
    if (!thorough)
    {
        // 3 particles x {1,100 MeV} x 2 positions x 1 direction
        std::vector<PrimaryCase> p2;
        for (auto const& p : prims)
            if (p.id.find(".e0.") == std::string::npos && p.id.find(".d2") != std::string::npos)
                p2.push_back(p);
        prims.swap(p2);
    }
    uint64_t outer = 0;
    for (auto const& sc : cfgs)
    {
        if (!R.mine(outer++))
            continue;
        if (R.expired())
            break;
        if (R.replay() && R.replay_case().compare(0, sc.id.size() + 1, sc.id + ":") != 0)
            continue;
        // volume ids of the box-in-box geometry: [EXTERIOR]=0, inner=1, g1(world)=2
        int const inner_vol = 1, world_vol = 2;
        Declared decl;
        LoopConfig cfg = make_cfg(sc, &decl, inner_vol, world_vol);
        auto P = make_loop_problem(cfg);
        {
            auto const& vols = P->geometry->volumes();
            if (vols.at(VolumeId(inner_vol)).name != "inner" || vols.at(VolumeId(world_vol)).name != "g1")
                R.harness_error("unexpected volume numbering");
        }
        R.tag("config:" + sc.id);
        // cumulative expectations for the diagnostics (they accumulate in the shared params)
        std::map<std::pair<int, int>, uint64_t> exp_actions;  // (particle, action) -> count
        std::map<std::pair<int, int>, uint64_t> exp_steps;  // (particle, nsteps bin) -> count
        std::vector<double> exp_calo(2, 0.0);
        unsigned stream_toggle = 0;
        for (auto const& pc : prims)
        {
            std::string root = sc.id + ":" + pc.id;
            if (R.replay() && R.replay_case().compare(0, root.size() + 1, root + "|") != 0)
                continue;
            R.begin_case(root, 600);
            ExploreStats st;
            EventRun er;
            unsigned stream = 0;
            auto body = [&](Choices& c) {
                // run_event() makes the stepper on stream 0; alternate streams by hand
                stream = (sc.streams == 2) ? (stream_toggle++ % 2) : 0;
                if (P->recorder)
                    P->recorder->steps.clear();
                if (P->recorder2)
                    P->recorder2->steps.clear();
                P->probe_log->snaps.clear();
                P->probe_log->call = 0;
                ExploreChooser ch;
                ch.c = &c;
                g_loop_chooser = &ch;
                er = EventRun{};
                try
                {
                    auto stp = P->make_stepper(stream);
                    stp->reseed(UniqueEventId{0});
                    Primary p = P->primary(pc.kind, pc.energy, pc.pos, pc.dir, 0);
                    StepperResult r = (*stp)(Span<Primary const>{&p, 1});
                    er.calls = 1;
                    while (r && er.calls < 10000)
                    {
                        P->probe_log->call = er.calls;
                        r = (*stp)();
                        ++er.calls;
                    }
                    er.completed = !r;
                }
                catch (std::exception const& e)
                {
                    er.exception = e.what();
                }
                g_loop_chooser = nullptr;
            };
            auto on_exec = [&](Choices const& c) {
                R.count("evaluations");
                R.count("transitions", er.calls);
                std::string cid = root + "|" + choices_to_string(c.chosen());
                if (!er.exception.empty() || !er.completed)
                {
                    R.violation("loop:exception-or-no-termination", cid, er.exception);
                    return true;
                }
                // expected deliveries from the probes
                std::map<std::pair<unsigned, unsigned>, Expected> exp;  // (call, slot)
                for (auto const& s : P->probe_log->snaps)
                {
                    if (s.status == int(TrackStatus::inactive))
                        continue;
                    auto& e = exp[{s.call, s.slot}];
                    if (s.order == int(StepActionOrder::user_pre))
                        e.pre = &s;
                    else
                        e.post = &s;
                }
                uint64_t nexp = 0;
                std::vector<std::pair<std::pair<unsigned, unsigned>, Expected>> deliver;
                for (auto& kv : exp)
                {
                    Expected& e = kv.second;
                    if (!e.pre || !e.post)
                    {
                        R.violation("scoring:probe-mismatch", cid,
                                    "slot active at only one of user_pre/user_post");
                        return true;
                    }
                    // diagnostics count every active slot
                    ++exp_actions[{e.post->particle, e.post->post_action}];
                    if (e.post->status == int(TrackStatus::killed))
                        ++exp_steps[{e.post->particle, int(std::min<unsigned>(e.post->num_steps, 63))}];
                    e.detector = -1;
                    if (!decl.detectors.empty())
                    {
                        auto it = decl.detectors.find(e.pre->volume);
                        if (it == decl.detectors.end())
                            continue;
                        e.detector = it->second;
                        if (decl.nonzero && e.post->edep == 0)
                            continue;
                        exp_calo[e.detector] += e.post->edep;
                    }
                    deliver.push_back(kv);
                    ++nexp;
                }
                R.count("expected_records", nexp);
                // compare with each recorder
                for (Recorder* rec : {P->recorder.get(), P->recorder2.get()})
                {
                    if (!rec)
                        continue;
                    if (rec->stale_detector_slots)
                    {
                        R.violation("scoring:detector-id-on-vacant-slot", cid,
                                    fmt("%s: %llu vacant slots (null track id) were delivered with a "
                                        "detector id set (first: %s): consumers that select slots by "
                                        "detector id score the stale step again",
                                        sc.id.c_str(), (unsigned long long)rec->stale_detector_slots,
                                        rec->stale_detector_first.c_str()));
                        rec->stale_detector_slots = 0;
                        rec->stale_detector_first.clear();
                        return true;
                    }
                    std::map<std::pair<unsigned, unsigned>, StepRec const*> got;
                    for (auto const& r : rec->steps)
                    {
                        if (!got.emplace(std::make_pair(r.call, r.slot), &r).second)
                        {
                            R.violation("scoring:step-delivered-twice", cid,
                                        fmt("call %u slot %u delivered twice to one callback", r.call, r.slot));
                            return true;
                        }
                    }
                    if (got.size() != deliver.size())
                    {
                        R.violation("scoring:wrong-number-of-steps", cid,
                                    fmt("%s: %zu records delivered, %zu steps happened that pass the "
                                        "declared filters (detectors %zu, nonzero %d)",
                                        sc.id.c_str(), got.size(), deliver.size(),
                                        decl.detectors.size(), int(decl.nonzero)));
                        return true;
                    }
                    for (auto const& kv : deliver)
                    {
                        auto it = got.find(kv.first);
                        if (it == got.end())
                        {
                            R.violation("scoring:step-not-delivered", cid,
                                        fmt("call %u slot %u (track %u) not delivered", kv.first.first,
                                            kv.first.second, kv.second.post->track));
                            return true;
                        }
                        StepRec const& r = *it->second;
                        Expected const& e = kv.second;
                        auto const& sel = decl.selection;
                        std::string bad;
                        auto chk = [&](bool selected, bool equal, char const* what) {
                            if (selected && !equal && bad.empty())
                                bad = what;
                        };
                        chk(true, r.track == e.post->track, "track_id");
                        chk(!decl.detectors.empty(), r.detector == e.detector, "detector");
                        chk(sel.event_id, r.event == e.post->event, "event_id");
                        chk(sel.parent_id, r.parent == e.post->parent, "parent_id");
                        chk(sel.track_step_count, r.step_count == e.post->num_steps, "track_step_count");
                        chk(sel.action_id, r.action == e.post->post_action, "action_id");
                        chk(sel.step_length, r.step_length == e.post->step_length, "step_length");
                        chk(sel.particle, r.particle == e.post->particle, "particle");
                        chk(sel.energy_deposition, r.edep == e.post->edep, "energy_deposition");
                        for (int w = 0; w < 2; ++w)
                        {
                            auto const& ps = sel.points[w ? StepPoint::post : StepPoint::pre];
                            auto const& q = w ? r.post : r.pre;
                            ProbeSnap const& s = w ? *e.post : *e.pre;
                            chk(ps.time, q.time == s.time, w ? "post.time" : "pre.time");
                            chk(ps.pos, q.pos == s.pos, w ? "post.pos" : "pre.pos");
                            chk(ps.dir, q.dir == s.dir, w ? "post.dir" : "pre.dir");
                            chk(ps.volume_id, q.volume == s.volume, w ? "post.volume" : "pre.volume");
                            chk(ps.energy, q.energy == s.energy, w ? "post.energy" : "pre.energy");
                        }
                        if (!bad.empty())
                        {
                            R.violation("scoring:field-differs:" + bad, cid,
                                        fmt("%s call %u slot %u track %u: delivered %s differs from the "
                                            "track state at the step point",
                                            sc.id.c_str(), kv.first.first, kv.first.second,
                                            e.post->track, bad.c_str()));
                            return true;
                        }
                        R.count("records_compared");
                    }
                }
                // calorimeter
                if (P->calo)
                {
                    auto tot = P->calo->calc_total_energy_deposition();
                    for (size_t d = 0; d < tot.size(); ++d)
                    {
                        double tol = 1e-12 * (std::fabs(exp_calo[d]) + 1);
                        if (std::fabs(tot[d] - exp_calo[d]) > tol)
                        {
                            R.violation("scoring:calorimeter-total", cid,
                                        fmt("%s detector %zu: tally %.17g, sum of deposits of the steps "
                                            "that happened %.17g",
                                            sc.id.c_str(), d, tot[d], exp_calo[d]));
                            return true;
                        }
                    }
                    R.count("calo_compared");
                }
                // diagnostics (cumulative over all executions on this CoreParams)
                {
                    auto act = P->action_diag->calc_actions();
                    for (size_t p = 0; p < act.size(); ++p)
                        for (size_t a = 0; a < act[p].size(); ++a)
                        {
                            auto it = exp_actions.find({int(p), int(a)});
                            uint64_t want = it == exp_actions.end() ? 0 : it->second;
                            if (act[p][a] != want)
                            {
                                R.violation(sc.slots == 1 ? "scoring:action-diagnostic-count[1-slot]"
                                                          : "scoring:action-diagnostic-count",
                                            cid,
                                            fmt("%s: ActionDiagnostic counts %u steps of particle %zu "
                                                "ending with action %s, %llu happened",
                                                sc.id.c_str(), unsigned(act[p][a]), p,
                                                P->action_labels.at(int(a)).c_str(),
                                                (unsigned long long)want));
                                return true;
                            }
                        }
                    auto stp = P->step_diag->calc_steps();
                    for (size_t p = 0; p < stp.size(); ++p)
                        for (size_t b = 0; b < stp[p].size(); ++b)
                        {
                            auto it = exp_steps.find({int(p), int(b)});
                            uint64_t want = it == exp_steps.end() ? 0 : it->second;
                            if (stp[p][b] != want)
                            {
                                R.violation("scoring:step-diagnostic-count", cid,
                                            fmt("%s: StepDiagnostic counts %u killed tracks of particle "
                                                "%zu with %zu steps, %llu happened",
                                                sc.id.c_str(), unsigned(stp[p][b]), p, b,
                                                (unsigned long long)want));
                                return true;
                            }
                        }
                    R.count("diagnostics_compared");
                }
                uint64_t h = hash_str(sc.id);
                for (auto const& kv : deliver)
                    h = hash_mix(h, hash_pod(kv.second.post->track) ^ hash_pod(kv.second.post->post_action));
                R.outcome(h);
                R.state(h);
                if (c.deviations() > 0)
                    R.nontrivial(hash_mix(hash_str(root), h));
                return !((st.executions & 31) == 0 && R.expired());
            };
            if (R.replay())
            {
                std::string rc = R.replay_case();
                Choices c(choices_from_string(rc.substr(root.size() + 1)));
                body(c);
                on_exec(c);
            }
            else
            {
                explore(body, on_exec, bound, &st);
            }
            R.count("roots");
            R.end_case();
            if (R.num_violations() > 20)
                break;
        }
    }
    R.sample("m4.s2.t1:k0.e2.p0.d2|3.1 = recorder with detector map {inner} + non-zero filter, 2 slots: "
             "100 MeV gamma, outcomes absorb_two then scatter_half; delivered records vs probe snapshots");
    R.sample("m7.s1.t2:k2.e1.p1.d2| = SimpleCalo alone, one slot, two streams alternating: positron "
             "event, tallies vs expected deposits; ActionDiagnostic/StepDiagnostic histograms");
    return R.finish();
}
