// C04 (part "em") - every discrete EM interaction conserves energy and yields a valid final state.
//
// Bounded-exhaustive enumeration (E4 lattice x E5 scripted RNG) over the real interactor
// classes, called through their public headers exactly like the executors do, with an
// independent long-double oracle (problems/interactor_env.hh: vf::Ledger) on every outcome.
//
// Models and the admissible incident-energy interval used for each (model applicability
// intersected with the interactor's constructor preconditions; "(" = exclusive):
//   kn        Klein-Nishina, gamma               [1e-6, 1e8] MeV  (applicability (0, inf): the
//             lower end is represented by 1 eV, the upper by the EM high-energy limit)
//   pe        Livermore photoelectric, Z=19      [1e-7, 1e8] MeV  ((0, inf); 0.1 eV so that the
//             1 eV clamp inside sample_direction is an interior threshold); without relaxation,
//             with radiative relaxation, with radiative + Auger; relaxation cuts {0, 2.5e-4, 1e-3, 1}
//             (1e-3 separates the K lines from the L lines; 1 disables relaxation altogether)
//             for gamma and electron alike, plus split cuts (gamma, electron) = (1e-2, 0),
//             (0, 1e-2), (2.5e-4, 1e-3), (1e-3, 2.5e-4) [the last also without Auger]
//   rayleigh  Livermore Rayleigh, gamma          [1e-6, 1e8] MeV  ((0, 1e8])
//   bh        Bethe-Heitler, gamma               [2 m_e c^2, 1e8] MeV (CELER_EXPECT E >= 2 m_e)
//   eplusgg   e+ annihilation                    {0} u [1e-6, 1e8] MeV
//   moller    e-  ionisation                     (2*cut, 1e8] MeV (CELER_EXPECT E > 2*cut)
//   bhabha    e+  ionisation                     (cut, 1e8] MeV   (CELER_EXPECT E > cut)
//   sb        Seltzer-Berger brems, Z=29, e-/e+  (max(cut, table front), 1e3) MeV
//             (CELER_EXPECT cut < E < 1 GeV; SBEnergyDistHelper: E inside the table)
//   relbrem   relativistic brems +-LPM, e-/e+    [1e3, 1e8] MeV   (CELER_EXPECT E >= 1 GeV); the
//             photon cut may exceed E (RBEnergySampler takes min(cut, E))
//   combined  SB below / relativistic above 1 GeV (max(cut, table front), 1e8] MeV
//             (CELER_EXPECT E > cut > 0)
// Production cuts: "tiny" = 1e-4 MeV (100 eV, the lowest production threshold Geant4 accepts),
// "mid", "large"; a cut above the incident energy only where the interactor admits it (relbrem).
// Models with a cut additionally get the letter E = limit * (1 + 2^-20) ("near-cut").
// Observation-only configurations (failures become tags "observation:<signature>", never
// violations; see cut_regime()): E within 8 ulp above its kinematic limit (a measure-zero set of
// incident energies) and relbrem with cut >= E (zero cross section: never sampled in a
// consistent problem).
//
// Per configuration (model variant, particle, material/element, cuts, incident energy) - the
// outermost, sharded index - all 20 directions (6 axes + 8 diagonals + 6 near-pole letters, see
// direction_alphabet()) x all RNG scripts are run
// with ample secondary storage (every 8th script with exactly the needed number of free slots),
// plus, per direction, one call with 0 and one with need-1 free slots, and for the models that
// need >= 2 secondaries (bh, eplusgg, pe with relaxation) two calls on a stack whose TOTAL
// capacity is need-1 (full of sentinels / empty): explicit failure, stack untouched.
//
// RNG scripts (see struct Script): quick = all 5^4 prefixes over vf::alphabet_u5() on the first
// four canonicals; thorough = those + every script with at most 2 forced canonicals (letters
// from vf::alphabet_u7(), including the extreme words) anywhere in the first 16.  Unforced
// canonicals come from a splitmix64 tail whose seed is a fixed function of (VERIF_SEED, script
// index).  A forced canonical uses lower word 0x00100000 (middle of the 2^-32 cell chosen by the
// upper word: canonical = upper*2^-32 + 2^-33), so an exactly-zero canonical is never produced.  An interaction that draws more than 10^4 words is stopped by an exception and
// reported (bounded-draws clause); the maximum seen is reported as maxima["words"].
//
// Oracles (all from the property text):
//   values      every energy finite and >= 0, every live product's direction unit to 1e-12,
//               every surviving secondary has a particle id of the problem; absorbed <=> zero
//               post-interaction energy
//   identity    ("defined particle types") Compton/delta electrons are electrons, the pair is
//               one e- and one e+, annihilation and bremsstrahlung products are photons; a
//               relaxation product whose energy is that of a radiative (non-radiative) EADL
//               transition of the element is a photon (electron) - the two energy tables of
//               Z=19 are disjoint, so this decides every product
//   energy      incident KE (+2 m_e c^2 if the incident is a positron) == outgoing + secondaries
//               + local deposit (+2 m_e c^2 per outgoing positron), tolerance 8 ulp of the
//               incident total (at most ~6 roundings of quantities <= that total occur)
//   momentum    kn (when the electron survives the cut), moller, bhabha, eplusgg: these return
//               all products of a two-body process on a free electron at rest.  NOT checked for
//               pe, rayleigh, bh, brems: the atom/nucleus takes up momentum there (documented).
//               Tolerance: 16 eps (sum|p| + E_in * sum 1/beta) + 4 * angle slack (see Audit)
//               + 4 sum|p| * angular ambiguity of a near-pole incident direction.
//               eplusgg in flight additionally: photon 0 alone must satisfy the two-body relation
//               cos(theta_0) = E_tot (1 - m/k0) / p ("photon-kinematics", rounding model at the
//               check) - alive although the pair's momentum sum is a recorded defect.
//   threshold   kn electron >= secondary_cutoff(); moller/bhabha electron >= electron cut;
//               relaxation products >= the cut of their own particle type; brems photon >=
//               min(cut, E) up to the rounding of "x + d - d" with the density correction d
//   storage     free slots < need  => Interaction::from_failure(), stack size unchanged, prefix
//               untouched; free slots >= need => success, secondaries inside the new allocation
//   draws       <= 10^4 words
//
// Signatures: model:kind@energy-regime; direction-dependent kinds at a near-pole direction letter
// get @near-pole(y<0) / @near-pole(y>=0) instead (rotate()'s renormalising branch drops the sign
// of y: recorded; that defect is exactly a rotation into the frame of the mirrored direction
// (x,|y|,z), so a y<0 failure keeps the recorded class only if the oracle holds about the mirrored
// direction and becomes @near-pole(y<0;unexplained) otherwise); brems draw-bound carries the incident particle, model:draw-bound[e+]@regime;
// an e+ annihilation momentum imbalance whose second photon lies along the incident direction
// (the fingerprint of the recorded EPlusGG defect) is eplusgg:momentum-balance[photon1-along-
// incident], any other imbalance keeps the ordinary signature.
#include <algorithm>
#include <cmath>
#include <cstdint>
#include <cstdlib>
#include <cstring>
#include <functional>
#include <set>
#include <string>
#include <vector>

#include "corecel/data/CollectionBuilder.hh"
#include "corecel/data/Ref.hh"
#include "celeritas/em/data/AtomicRelaxationData.hh"
#include "celeritas/em/interactor/AtomicRelaxationHelper.hh"
#include "celeritas/em/interactor/BetheHeitlerInteractor.hh"
#include "celeritas/em/interactor/CombinedBremInteractor.hh"
#include "celeritas/em/interactor/EPlusGGInteractor.hh"
#include "celeritas/em/interactor/KleinNishinaInteractor.hh"
#include "celeritas/em/interactor/LivermorePEInteractor.hh"
#include "celeritas/em/interactor/MollerBhabhaInteractor.hh"
#include "celeritas/em/interactor/RayleighInteractor.hh"
#include "celeritas/em/interactor/RelativisticBremInteractor.hh"
#include "celeritas/em/interactor/SeltzerBergerInteractor.hh"
#include "celeritas/em/interactor/detail/PhysicsConstants.hh"
#include "celeritas/em/model/CombinedBremModel.hh"
#include "celeritas/em/model/LivermorePEModel.hh"
#include "celeritas/em/model/RayleighModel.hh"
#include "celeritas/em/model/RelativisticBremModel.hh"
#include "celeritas/em/model/SeltzerBergerModel.hh"
#include "celeritas/em/params/AtomicRelaxationParams.hh"
#include "celeritas/io/AtomicRelaxationReader.hh"
#include "celeritas/io/LivermorePEReader.hh"
#include "celeritas/io/SeltzerBergerReader.hh"
#include "celeritas/random/distribution/GenerateCanonical.hh"
#include "celeritas/random/detail/GenerateCanonical32.hh"
#include "engine/harness.hh"
#include "engine/scripted_rng.hh"
#include "problems/interactor_env.hh"

using namespace celeritas;
using vf::fmt;
using vf::hexd;
using MevEnergy = units::MevEnergy;

//---------------------------------------------------------------------------//
// Scripted engine with sparse forcing (positions < 16) and a hard draw limit
struct Script
{
    uint16_t mask = 0;  // bit c set: canonical number c is forced
    uint32_t word[16] = {};  // forced upper word
    //! Whether a forced canonical lies within 2^-31 of 0 or 1
    bool extreme() const
    {
        for (int c = 0; c < 16; ++c)
            if ((mask >> c & 1) && (word[c] <= 1u || word[c] >= 0xfffffffeu))
                return true;
        return false;
    }
    std::string str() const
    {
        std::string s;
        for (int c = 0; c < 16; ++c)
            if (mask >> c & 1)
                s += fmt("%s%d:%08x", s.empty() ? "" : ",", c, word[c]);
        return s.empty() ? "tail-only" : s;
    }
};

struct DrawLimit
{
};

class Eng
{
  public:
    using result_type = unsigned int;
    static constexpr result_type min() { return 0u; }
    static constexpr result_type max() { return 0xffffffffu; }
    static constexpr uint64_t limit = 10000;  // words
    // Lower word of a forced canonical.  GenerateCanonical32<double> computes
    // ((upper << 21) ^ lower) * 2^-53, so the bits of `lower` above bit 20 are XORed into the
    // low bits of `upper`: 0x00100000 is the true middle of the 2^-32 cell selected by `upper`
    // (canonical = upper * 2^-32 + 2^-33), whereas the 0x80000000 default of
    // vf::ScriptedEngine would turn the letters 2^-32 / 1-2^-32 into 2^-22 / 1-2^-22.
    static constexpr result_type lower_fill = 0x00100000u;

    void reset(Script const* s, uint64_t tail_seed)
    {
        s_ = s;
        state_ = tail_seed * 0x9e3779b97f4a7c15ull + 0x1234567;
        words_ = 0;
    }
    result_type operator()()
    {
        uint64_t const pos = words_++;
        if (pos >= limit)
            throw DrawLimit{};
        uint64_t const c = pos >> 1;
        if (c < 16 && (s_->mask >> c & 1))
            return (pos & 1) ? lower_fill : s_->word[c];
        // splitmix64 tail, upper 32 bits (same generator as vf::ScriptedEngine)
        uint64_t z = (state_ += 0x9e3779b97f4a7c15ull);
        z = (z ^ (z >> 30)) * 0xbf58476d1ce4e5b9ull;
        z = (z ^ (z >> 27)) * 0x94d049bb133111ebull;
        return uint32_t((z ^ (z >> 31)) >> 32);
    }
    uint64_t words() const { return words_; }

  private:
    Script const* s_ = nullptr;
    uint64_t state_ = 0;
    uint64_t words_ = 0;
};

namespace celeritas
{
template<class RealType>
class GenerateCanonical<::Eng, RealType>
{
  public:
    using real_type = RealType;
    using result_type = RealType;
    result_type operator()(::Eng& rng) { return detail::GenerateCanonical32<RealType>()(rng); }
};
}  // namespace celeritas

static std::vector<Script> build_scripts(bool thorough)
{
    std::vector<Script> r;
    auto const& a5 = vf::alphabet_u5();
    for (uint32_t w0 : a5)
        for (uint32_t w1 : a5)
            for (uint32_t w2 : a5)
                for (uint32_t w3 : a5)
                {
                    Script s;
                    s.mask = 0xf;
                    s.word[0] = w0;
                    s.word[1] = w1;
                    s.word[2] = w2;
                    s.word[3] = w3;
                    r.push_back(s);
                }
    if (thorough)
    {
        auto const& a7 = vf::alphabet_u7();
        r.push_back(Script{});  // zero deviations
        for (int p = 0; p < 16; ++p)
            for (uint32_t w : a7)
            {
                Script s;
                s.mask = uint16_t(1u << p);
                s.word[p] = w;
                r.push_back(s);
            }
        for (int p = 0; p < 16; ++p)
            for (int q = p + 1; q < 16; ++q)
                for (uint32_t w : a7)
                    for (uint32_t v : a7)
                    {
                        Script s;
                        s.mask = uint16_t((1u << p) | (1u << q));
                        s.word[p] = w;
                        s.word[q] = v;
                        r.push_back(s);
                    }
    }
    return r;
}

//---------------------------------------------------------------------------//
// Incident directions: 6 axes + 8 diagonals, plus one letter per branch of the rotation helper
// every interactor uses for its exiting directions (corecel/math/ArrayUtils.hh rotate():
// "typical" sin(theta) >= 0.005 | 0 < sin(theta) < 0.005 | sin(theta) == 0).  The axes and
// diagonals cover the first and the last branch; the "near-pole" letters cover the middle one:
// directions 1e-3 rad off +z / -z with a negative AND with a positive y component (rotate()'s
// renormalising branch rebuilds sin(phi) as +sqrt(1 - cos(phi)^2), a recorded defect for y < 0:
// the two signs of y are separate signature classes "@near-pole(y<0)" / "@near-pole(y>=0)" so
// that the recorded defect cannot hide anything for y >= 0), and the unit vector
// (0, 0, +-(1 - 2^-53)) that make_unit_vector returns for many inputs along z (class y>=0).
struct DirLetter
{
    Real3 v;
    bool raw;  // store bit-for-bit instead of normalising
    bool near_pole;
    //! Signature class of a direction-dependent failure for this letter
    char const* pole_class() const { return v[1] < 0 ? "near-pole(y<0)" : "near-pole(y>=0)"; }
};
static std::vector<DirLetter> const& direction_alphabet()
{
    static std::vector<DirLetter> const d = [] {
        std::vector<DirLetter> r;
        for (auto const& v : vf::axes_and_diagonals())
            r.push_back({v, false, false});
        double const z1 = std::nextafter(1.0, 0.0);
        r.push_back({{6e-4, -8e-4, 1.0}, false, true});
        r.push_back({{6e-4, -8e-4, -1.0}, false, true});
        r.push_back({{6e-4, 8e-4, 1.0}, false, true});
        r.push_back({{6e-4, 8e-4, -1.0}, false, true});
        r.push_back({{0, 0, z1}, true, true});
        r.push_back({{0, 0, -z1}, true, true});
        return r;
    }();
    return d;
}

//---------------------------------------------------------------------------//
static std::string describe(Interaction const& r)
{
    char const* act[] = {"scattered", "absorbed", "unchanged", "failed"};
    std::string s = fmt("{action=%s E=%s dir=(%s,%s,%s) dep=%s sec=[", act[int(r.action)],
                        vf::dstr(r.energy.value()).c_str(), vf::dstr(r.direction[0]).c_str(),
                        vf::dstr(r.direction[1]).c_str(), vf::dstr(r.direction[2]).c_str(),
                        vf::dstr(r.energy_deposition.value()).c_str());
    for (auto const& x : r.secondaries)
        s += fmt("(pid=%d E=%s dir=(%s,%s,%s))", x.particle_id ? int(x.particle_id.get()) : -1,
                 vf::dstr(x.energy.value()).c_str(), vf::dstr(x.direction[0]).c_str(),
                 vf::dstr(x.direction[1]).c_str(), vf::dstr(x.direction[2]).c_str());
    return s + "]}";
}

//---------------------------------------------------------------------------//
// One configuration = everything except direction, storage class and RNG script
struct Spec
{
    std::string model;  // signature prefix
    std::string regime;  // coarse class of the incident energy; signature suffix, so that a
                         // violation at a range end cannot mask one in the interior
    std::string cid;  // replayable case id
    // Degenerate configuration (see cut_regime()): whatever fails here is recorded as an
    // observation (tag "observation:<signature>" + note with the first message), not as a
    // violation
    bool observe_only = false;
    vf::InteractorEnv* env = nullptr;
    ParticleId inc;
    double energy = 0;
    unsigned need = 0;  // slots a successful call allocates (0: no allocator involved)
    bool momentum = false;  // model returns all products (see header)
    // Momentum is only checked when this returns true for the outcome (e.g. KN: electron alive)
    std::function<bool(Interaction const&)> momentum_if;
    // The interactor call
    std::function<Interaction(Eng&)> call;
    // Model-specific checks: return non-empty text for a violation, set branch bits
    // (signature suffix goes into *sig)
    std::function<std::string(Interaction const&, uint32_t* bits, std::string* sig)> extra;
    // Names of the branch bits (for tags)
    std::vector<std::string> bit_names;
    uint64_t min_words = 0;  // draws of a first-try acceptance (more => "retry" tag)
    // Qualifier of the draw-bound signature ("model:draw-bound[<draw_tag>]@regime"): the brems
    // models put the incident particle here, so that the recorded non-termination of the
    // positron corrector cannot hide a new one for electrons
    std::string draw_tag;
    // Qualifier of a momentum-balance violation ("model:momentum-balance[<q>]", no regime
    // suffix) when the outcome shows the complete fingerprint of ONE specific recorded defect;
    // empty string = ordinary signature.  Arguments: outcome, incident direction.
    std::function<std::string(Interaction const&, Real3 const&)> momentum_qual;
};

struct Ctx
{
    vf::Run& R;
    std::vector<Script> const& scripts;
    uint64_t index = 0;  // running configuration index (sharding)
    uint64_t interactions = 0;
};

static constexpr long double eps = 2.220446049250313e-16L;

//! Largest residual/tolerance ratio of a rounding-model oracle, per direction class (evidence:
//! shows the margin of the model on the unchanged tree)
struct Worst
{
    double ordinary = 0, pole_pos = 0, pole_neg = 0;
    void note(double x, Real3 const& inc)
    {
        bool const np = std::hypot(inc[0], inc[1]) < 0.005;
        double& v = !np ? ordinary : (inc[1] < 0 ? pole_neg : pole_pos);
        if (x > v)
            v = x;
    }
};
static Worst g_kin_worst;

static void run_config(Ctx& C, Spec const& S)
{
    vf::Run& R = C.R;
    uint64_t const idx = C.index++;
    if (!R.mine(idx))
        return;
    if (R.expired())
        return;
    if (!R.want(S.cid))
        return;
    // Debugging / mutation-run convenience: VERIF_C04_ONLY=<case id prefix> restricts the run
    // (the run is then marked non-exhaustive)
    static char const* const only = getenv("VERIF_C04_ONLY");
    if (only && *only && S.cid.rfind(only, 0) != 0)
        return;
    R.begin_case(S.cid, 600);
    vf::InteractorEnv& env = *S.env;
    vf::Ledger L(env);
    unsigned const cap = env.capacity();
    unsigned const ample = cap - 2;  // two sentinel slots in front
    if (S.need > ample)
        R.harness_error("stack capacity too small for " + S.cid);
    auto const& dirs = direction_alphabet();
    Eng eng;
    // Signature: model:kind@energy-regime; for the near-pole direction letters the kinds that
    // depend on the direction get model:kind@near-pole instead (what they exercise is the
    // shared rotation helper, and a finding there must not mask one for ordinary directions).
    // The near-pole class carries the sign of the incident y component (see DirLetter).
    bool near_pole = false;
    char const* pole_class = "";
    // The recorded rotate() defect at y < 0 is EXACTLY a rotation of the products into the frame
    // of the mirrored incident direction (x, |y|, z).  A direction-dependent oracle that fails at
    // a y < 0 letter is therefore re-evaluated with the mirrored direction: only if it holds
    // there does the failure carry the recorded class "@near-pole(y<0)"; otherwise the kind is
    // passed with a trailing '!' and the class becomes "@near-pole(y<0;unexplained)" (live).
    auto sig_of = [&S, &near_pole, &pole_class](char const* kind) {
        std::string k = kind;
        bool unexplained = false;
        if (!k.empty() && k.back() == '!')
        {
            k.pop_back();
            unexplained = true;
        }
        bool const dir_dependent = k == "invalid-final-state" || k == "momentum-balance"
                                   || k == "photon-kinematics";
        if (k == "draw-bound" && !S.draw_tag.empty())
            k += "[" + S.draw_tag + "]";
        std::string cls = near_pole && dir_dependent ? std::string(pole_class) : S.regime;
        if (unexplained && cls == "near-pole(y<0)")
            cls = "near-pole(y<0;unexplained)";
        return S.model + ":" + k + "@" + cls;
    };
    // Violations of a degenerate configuration are observations
    // ... and so are failures that need BOTH the 2^-20-wide near-cut energy window AND an
    // extreme (2^-32-scale) canonical: joint measure ~2^-52.
    bool extreme_script = false;
    auto report = [&R, &S, &extreme_script](std::string const& sig, std::string const& msg) {
        if (!S.observe_only && !(S.regime == "near-cut" && extreme_script))
        {
            R.violation(sig, S.cid, msg);
            return;
        }
        R.tag("observation:" + sig);
        if (R.verbose())
            fprintf(stderr, "OBSERVATION[%s] case=%s : %s\n", sig.c_str(), S.cid.c_str(),
                    msg.c_str());
        static std::set<std::string> noted;
        if (noted.insert(sig).second)
            R.note("observation:" + sig, S.cid + " | " + msg);
    };
    uint64_t const cfg_hash = vf::hash_str(S.cid);
    uint32_t seen_bits = 0;
    uint64_t n_eval = 0, n_fail = 0, n_tiny = 0, n_mom = 0, max_words = 0, last_nt = 0, last_oc = 0;

    for (size_t di = 0; di < dirs.size(); ++di)
    {
        if (dirs[di].raw)
            env.set_inc_direction_raw(dirs[di].v);
        else
            env.set_inc_direction(dirs[di].v);
        near_pole = dirs[di].near_pole;
        pole_class = dirs[di].pole_class();
        R.tag(near_pole ? "direction:near-pole" : "direction:axis-or-diagonal");
        env.set_inc_particle(S.inc, MevEnergy{S.energy});
        Real3 const inc_dir = env.direction();

        auto where = [&](unsigned free_slots, size_t si) {
            return fmt("dir#%zu=(%.17g,%.17g,%.17g) free_slots=%u script#%zu={%s} words=%llu", di,
                       inc_dir[0], inc_dir[1], inc_dir[2], free_slots, si,
                       C.scripts[si].str().c_str(), (unsigned long long)eng.words());
        };

        // ---- storage exhausted: 0 and need-1 free slots ----
        if (S.need > 0)
        {
            unsigned classes[2] = {0u, S.need - 1};
            int ncls = (S.need - 1 == 0) ? 1 : 2;
            for (int k = 0; k < ncls; ++k)
            {
                unsigned fs = classes[k];
                env.set_free_slots(fs);
                auto size0 = env.stack_size();
                size_t si = (di * 7 + k) % C.scripts.size();
                extreme_script = C.scripts[si].extreme();
                eng.reset(&C.scripts[si], R.seed() * 1000003ull + si);
                Interaction r;
                try
                {
                    r = S.call(eng);
                }
                catch (DrawLimit const&)
                {
                    report(sig_of("draw-bound"), "more than 10^4 words drawn; " + where(fs, si));
                    continue;
                }
                ++n_eval;
                ++n_fail;
                ++C.interactions;
                if (r.action != Interaction::Action::failed || !r.secondaries.empty())
                    report(sig_of("exhaustion-not-explicit-failure"), fmt("free slots %u < need %u but result is %s; %s", fs, S.need,
                                    describe(r).c_str(), where(fs, si).c_str()));
                if (env.stack_size() != size0 || !env.sentinels_intact())
                    report(sig_of("exhaustion-partial-emission"), fmt("stack size %u -> %u, prefix intact=%d; %s", unsigned(size0),
                                    unsigned(env.stack_size()), int(env.sentinels_intact()),
                                    where(fs, si).c_str()));
            }
        }

        // ---- the WHOLE stack is smaller than one request (capacity = need - 1) ----
        // request > total capacity: `start + count > capacity` must not be evaluated in a form
        // that wraps (start > capacity - count).  Both with the tiny stack full of sentinels and
        // completely empty the call must fail explicitly and leave the stack untouched.
        if (S.need >= 2)
        {
            unsigned const tiny = S.need - 1;
            env.resize_secondaries(tiny);
            unsigned const classes[2] = {0u, tiny};
            for (int k = 0; k < 2; ++k)
            {
                unsigned fs = classes[k];
                env.set_free_slots(fs);
                auto size0 = env.stack_size();
                size_t si = (di * 7 + 2 + k) % C.scripts.size();
                extreme_script = C.scripts[si].extreme();
                eng.reset(&C.scripts[si], R.seed() * 1000003ull + si);
                Interaction r;
                try
                {
                    r = S.call(eng);
                }
                catch (DrawLimit const&)
                {
                    report(sig_of("draw-bound"), "more than 10^4 words drawn; " + where(fs, si));
                    continue;
                }
                ++n_eval;
                ++n_fail;
                ++n_tiny;
                ++C.interactions;
                if (r.action != Interaction::Action::failed || !r.secondaries.empty())
                    report(sig_of("request-above-total-capacity-not-explicit-failure"),
                           fmt("stack capacity %u (free %u) < need %u but result is %s; %s", tiny, fs,
                               S.need, describe(r).c_str(), where(fs, si).c_str()));
                if (env.stack_size() != size0 || !env.sentinels_intact())
                    report(sig_of("request-above-total-capacity-partial-emission"),
                           fmt("stack capacity %u: size %u -> %u, prefix intact=%d; %s", tiny,
                               unsigned(size0), unsigned(env.stack_size()),
                               int(env.sentinels_intact()), where(fs, si).c_str()));
            }
            env.resize_secondaries(cap);
        }

        // ---- enough storage: all scripts ----
        for (size_t si = 0; si < C.scripts.size(); ++si)
        {
            unsigned const fs = (si % 8 == 0) ? S.need : ample;
            if (S.need > 0)
                env.set_free_slots(fs);
            auto const size0 = env.stack_size();
            extreme_script = C.scripts[si].extreme();
            eng.reset(&C.scripts[si], R.seed() * 1000003ull + si);
            Interaction r;
            try
            {
                r = S.call(eng);
            }
            catch (DrawLimit const&)
            {
                report(sig_of("draw-bound"), "more than 10^4 words drawn; " + where(fs, si));
                ++n_eval;
                max_words = std::max<uint64_t>(max_words, eng.words());
                continue;
            }
            ++C.interactions;
            ++n_eval;
            max_words = std::max<uint64_t>(max_words, eng.words());

            if (r.action == Interaction::Action::failed)
            {
                report(sig_of("failed-with-enough-storage"), fmt("free slots %u >= need %u but the interaction failed; %s", fs,
                                S.need, where(fs, si).c_str()));
                continue;
            }
            // storage accounting
            if (S.need > 0)
            {
                auto all = env.secondary_allocator().get();
                auto const size1 = env.stack_size();
                bool inside = r.secondaries.empty()
                              || (r.secondaries.data() >= all.data() + size0
                                  && r.secondaries.data() + r.secondaries.size()
                                         <= all.data() + size1);
                if (!inside || size1 > cap)
                    report(sig_of("secondaries-outside-allocation"), fmt("stack %u -> %u, span offset %ld size %zu; %s", unsigned(size0),
                                    unsigned(size1), long(r.secondaries.data() - all.data()),
                                    size_t(r.secondaries.size()), where(fs, si).c_str()));
                if (!env.sentinels_intact())
                    report(sig_of("stack-prefix-overwritten"), where(fs, si));
            }
            else if (!r.secondaries.empty())
            {
                report(sig_of("secondaries-outside-allocation"), "secondaries returned by a model that has no allocator; "
                                + where(fs, si));
            }

            vf::Audit a = L.audit(S.inc, S.energy, inc_dir, r);
            if (!a.ok_values)
            {
                report(sig_of("invalid-final-state"), a.what + ": " + describe(r) + "; " + where(fs, si));
                continue;
            }
            if (r.action == Interaction::Action::unchanged
                && (!r.secondaries.empty() || r.energy_deposition.value() != 0))
                report(sig_of("action-inconsistent"), "unchanged with secondaries/deposit: " + describe(r) + "; "
                                + where(fs, si));
            // energy: |in - out| <= 8 ulp of the incident total
            {
                long double tol = 8 * eps * a.e_in;
                if (std::fabs(a.e_in - a.e_out) > tol)
                    report(sig_of("energy-balance"), fmt("in %.21Lg out %.21Lg diff %.3Lg tol %.3Lg: %s; %s", a.e_in,
                                    a.e_out, a.e_out - a.e_in, tol, describe(r).c_str(),
                                    where(fs, si).c_str()));
            }
            // momentum
            if (S.momentum && (!S.momentum_if || S.momentum_if(r)))
            {
                // A double unit vector within theta of +-z is only defined to
                // min(sqrt(2d), d/sin(theta)) rad by its components (d = 8 eps: rounding of the
                // norm), and rotate() takes sin(theta) from the z component; exact +-z is exempt.
                long double const sin_z = std::hypot((long double)inc_dir[0], (long double)inc_dir[1]);
                long double const d8 = 8 * eps;
                long double const inc_amb
                    = std::fabs(inc_dir[2]) == 1
                          ? 0.0L
                          : std::min(std::sqrt(2 * d8), sin_z > 0 ? d8 / sin_z : 1.0L);
                long double tol = 16 * eps * (a.p_scale + a.e_in * a.inv_beta_sum)
                                  + 4 * a.p_angle_slack + 4 * inc_amb * a.p_scale;
                ++n_mom;
                std::string const q = (a.p_res > tol && S.momentum_qual)
                                          ? S.momentum_qual(r, inc_dir)
                                          : std::string();
                // y < 0 near-pole letter: is the imbalance explained by the recorded rotate()
                // defect?  The two-body models rotate ONE product (A) from its sampled polar
                // angle into the incident frame - with the defect: into the frame of the mirrored
                // direction m = (x,|y|,z) - and give the other (B) the direction of
                // p_in - p_A (calc_exiting_direction, about the true direction).  For the
                // recorded defect therefore | p_in m - p_A d_A | == p_B for one of the two
                // assignments (tolerance model of the balance itself); otherwise "unexplained".
                bool mirror_ok = true;
                if (a.p_res > tol && near_pole && inc_dir[1] < 0)
                {
                    struct Prod
                    {
                        long double p;
                        Real3 d;
                    };
                    auto pmag = [&env](ParticleId id, long double ke) {
                        return std::sqrt(ke * (ke + 2 * env.mass(id)));
                    };
                    std::vector<Prod> prods;
                    if (r.action == Interaction::Action::scattered)
                        prods.push_back({pmag(S.inc, r.energy.value()), r.direction});
                    for (auto const& s : r.secondaries)
                        if (s)
                            prods.push_back({pmag(s.particle_id, s.energy.value()), s.direction});
                    long double const pin = pmag(S.inc, S.energy);
                    long double const mir[3] = {inc_dir[0], -(long double)inc_dir[1], inc_dir[2]};
                    // tolerance of the balance with the angle slack taken about the mirrored
                    // direction (a product sampled almost along the frame axis is ill-defined
                    // in angle about THAT axis)
                    Real3 const mir_d{inc_dir[0], -inc_dir[1], inc_dir[2]};
                    vf::Audit const am = L.audit(S.inc, S.energy, mir_d, r);
                    long double const tolm
                        = 16 * eps * (am.p_scale + am.e_in * am.inv_beta_sum)
                          + 4 * am.p_angle_slack + 4 * inc_amb * am.p_scale;
                    mirror_ok = false;
                    if (prods.size() == 2)
                        for (int A = 0; A < 2; ++A)
                        {
                            long double v2 = 0;
                            for (int i = 0; i < 3; ++i)
                            {
                                long double c = pin * mir[i] - prods[A].p * prods[A].d[i];
                                v2 += c * c;
                            }
                            if (std::fabs(std::sqrt(v2) - prods[1 - A].p) <= tolm)
                                mirror_ok = true;
                        }
                    R.tag(mirror_ok ? "near-pole(y<0):imbalance-explained-by-mirrored-rotation"
                                    : "near-pole(y<0):imbalance-unexplained");
                }
                if (a.p_res > tol)
                    report(q.empty() ? sig_of(mirror_ok ? "momentum-balance" : "momentum-balance!")
                                     : S.model + ":momentum-balance[" + q + "]", fmt("|p_in - sum p_out| = %.6Lg (tolerance %.3Lg, |p| scale %.6Lg): "
                                    "%s; %s",
                                    a.p_res, tol, a.p_scale, describe(r).c_str(),
                                    where(fs, si).c_str()));
            }
            // model-specific
            uint32_t bits = 0;
            if (S.extra)
            {
                std::string sig;
                std::string msg = S.extra(r, &bits, &sig);
                if (!msg.empty())
                    report(sig_of(sig.c_str()),
                           msg + ": " + describe(r) + "; " + where(fs, si));
            }
            if (eng.words() > S.min_words)
                bits |= 1u << 31;
            if (bits & ~seen_bits)
            {
                for (size_t b = 0; b < S.bit_names.size(); ++b)
                    if ((bits & ~seen_bits) >> b & 1)
                        R.tag(S.model + ":" + S.bit_names[b]);
                if ((bits & ~seen_bits) >> 31 & 1)
                    R.tag(S.model + ":retry");
                seen_bits |= bits;
            }
            {
                uint64_t const nt = bits ? vf::hash_mix(cfg_hash, bits) : 0;
                uint64_t const oc = vf::hash_mix(vf::hash_mix(cfg_hash, bits),
                                                 uint64_t(a.n_live) * 131 + uint64_t(r.action) * 17
                                                     + eng.words());
                if (nt && nt != last_nt)
                    R.nontrivial(last_nt = nt);
                if (oc != last_oc)
                    R.outcome(last_oc = oc);
            }
        }
    }
    R.count("evaluations", n_eval);
    R.count("failure_cases", n_fail);
    R.count("momentum_checked", n_mom);
    R.count(S.model + ".evaluations", n_eval);
    R.maxi("words", max_words);
    R.maxi((S.model + ".words").c_str(), max_words);
    if (n_fail)
        R.tag(S.model + ":storage-exhausted", n_fail);
    if (n_tiny)
        R.tag(S.model + ":request-above-total-capacity", n_tiny);
    R.tag(S.model + ":configs");
    if (idx % 97 == 0)
        R.sample(fmt("%s x %zu directions x %zu scripts (+ exhausted-storage calls)",
                     S.cid.c_str(), dirs.size(), C.scripts.size()));
    R.end_case();
}

//---------------------------------------------------------------------------//
// Coarse class of an incident energy inside its alphabet
static std::string regime_of(double E, double lo, double hi, std::vector<double> const& thr)
{
    if (E == 0)
        return "at-rest";
    if (E <= std::nextafter(lo, INFINITY))
        return "Emin";
    if (E >= std::nextafter(hi, -INFINITY))
        return "Emax";
    for (double t : thr)
        if (E >= std::nextafter(t, -INFINITY) && E <= std::nextafter(t, INFINITY))
            return "threshold";
    return "interior";
}

//---------------------------------------------------------------------------//
/*!
 * Class of an incident energy relative to the kinematic limit kcut it must exceed (the
 * production cut, twice the cut for Moller):
 *   "cut>=E"   the cut is not below the incident energy.  Only the relativistic-brems sampler
 *              admits this (min(cut, E)); the macroscopic cross section of a consistent problem
 *              is zero there, so the interactor is never reached: observation only.
 *   "at-cut"   E within 8 ulp above the limit: the window of allowed secondary energies is a
 *              handful of doubles wide - a measure-zero set of incident energies: observation
 *              only.
 *   "near-cut" E within 1e-4 (relative) above the limit, window well resolved (the alphabet
 *              letter is kcut * (1 + 2^-20)): ordinary violation rules.
 *   ""         otherwise.
 */
static std::string cut_regime(double E, double kcut)
{
    if (E <= kcut)
        return "cut>=E";
    if (E <= kcut * (1 + 8 * 2.220446049250313e-16))
        return "at-cut";
    if (E <= kcut * (1 + 1e-4))
        return "near-cut";
    return "";
}
static double near_cut_letter(double kcut)
{
    return kcut * (1 + 0x1p-20);
}
//! Energy alphabet plus single extra letters (no +-1 ulp neighbours) inside [lo, hi]
static std::vector<double> with_letters(std::vector<double> e, std::vector<double> const& extra)
{
    if (e.empty())
        return e;
    double const lo = e.front(), hi = e.back();
    for (double x : extra)
        if (x >= lo && x <= hi)
            e.push_back(x);
    std::sort(e.begin(), e.end());
    e.erase(std::unique(e.begin(), e.end()), e.end());
    return e;
}

//---------------------------------------------------------------------------//
static std::string data_dir()
{
    char const* r = getenv("VERIF_REPO");
    return std::string(r && *r ? r : "/repo") + "/test/celeritas/data/";
}

static MaterialParams::Input general_materials()
{
    using namespace units;
    MaterialParams::Input mat;
    mat.elements = {{AtomicNumber{2}, AmuMass{4.002602}, {}, Label{"He"}},
                    {AtomicNumber{8}, AmuMass{15.999}, {}, Label{"O"}},
                    {AtomicNumber{19}, AmuMass{39.0983}, {}, Label{"K"}},
                    {AtomicNumber{29}, AmuMass{63.546}, {}, Label{"Cu"}},
                    {AtomicNumber{74}, AmuMass{183.84}, {}, Label{"W"}},
                    {AtomicNumber{82}, AmuMass{207.2}, {}, Label{"Pb"}}};
    mat.materials = {
        {native_value_from(MolCcDensity{4.5e-5}), 293.0, MatterState::gas, {{ElementId{0}, 1.0}},
         Label{"He"}},
        {native_value_from(MolCcDensity{1e-5}), 293.0, MatterState::solid, {{ElementId{2}, 1.0}},
         Label{"K"}},
        {native_value_from(MolCcDensity{0.141}), 293.0, MatterState::solid, {{ElementId{3}, 1.0}},
         Label{"Cu"}},
        {native_value_from(MolCcDensity{0.05477}), 293.15, MatterState::solid,
         {{ElementId{5}, 1.0}}, Label{"Pb"}},
        {native_value_from(MolCcDensity{1.0}), 293.0, MatterState::solid,
         {{ElementId{1}, 0.5}, {ElementId{4}, 0.3}, {ElementId{5}, 0.2}}, Label{"PbWO"}},
    };
    return mat;
}

// (material label, element component) pairs of the general material set
struct MatEl
{
    char const* mat;
    unsigned comp;
};
static MatEl const general_matel[] = {{"He", 0}, {"K", 0}, {"Cu", 0}, {"Pb", 0},
                                      {"PbWO", 0}, {"PbWO", 1}, {"PbWO", 2}};

//---------------------------------------------------------------------------//
int main(int argc, char** argv)
{
    vf::Run R(argc, argv, "C04", "c04_em");
    bool const thorough = R.thorough();
    std::vector<Script> const scripts = build_scripts(thorough);
    Ctx C{R, scripts};
    constexpr double e_high = 1e8;  // detail::high_energy_limit()
    constexpr unsigned stack_cap = 64;  // roomy: a model that over-emits stays inside the storage
    int const n_interior = 6;
    using vf::energy_alphabet;

    // ===================================================================== //
    // Environment G: general materials (KN, Rayleigh, BH, EPlusGG, Moller/Bhabha, rel. brems)
    vf::InteractorEnv G;
    G.set_material_params(general_materials());
    G.resize_secondaries(stack_cap);
    G.set_cutoffs({});
    ParticleId const id_e = G.pid(pdg::electron()), id_p = G.pid(pdg::positron()),
                     id_g = G.pid(pdg::gamma());
    long double const me = G.mass(id_e);

    // ---------------- Klein-Nishina ---------------- //
    {
        KleinNishinaData data;
        data.ids.electron = id_e;
        data.ids.gamma = id_g;
        data.inv_electron_mass = 1 / double(me);
        double const cutoff = KleinNishinaInteractor::secondary_cutoff().value();
        // Incident energy at which the maximum electron energy E*2k/(1+2k), k=E/m, equals
        // the secondary cutoff: 2E^2 - 2cE - cm = 0
        double const e_thr = double((2 * (long double)cutoff
                                     + std::sqrt(4 * (long double)cutoff * cutoff
                                                 + 8 * (long double)cutoff * me))
                                    / 4);
        for (double E : energy_alphabet(1e-6, e_high, n_interior, {e_thr, cutoff}))
        {
            Spec S;
            S.model = "kn";
            S.cid = fmt("kn:E=%s", hexd(E).c_str());
            S.regime = regime_of(E, 1e-6, e_high, {e_thr, cutoff});
            S.env = &G;
            S.inc = id_g;
            S.energy = E;
            S.need = 1;
            S.momentum = true;
            S.momentum_if = [](Interaction const& r) { return bool(r.secondaries[0]); };
            S.min_words = 2 * 4;  // choose, sample, reject, phi
            S.bit_names = {"electron-emitted", "electron-below-cutoff-deposited"};
            S.call = [&](Eng& rng) {
                KleinNishinaInteractor interact(data, G.particle_track(), G.direction(),
                                                G.secondary_allocator());
                return interact(rng);
            };
            S.extra = [&, cutoff](Interaction const& r, uint32_t* bits, std::string* sig) {
                if (r.secondaries.size() != 1)
                {
                    *sig = "invalid-final-state";
                    return std::string("expected one secondary slot");
                }
                auto const& el = r.secondaries[0];
                if (el)
                {
                    *bits |= 1;
                    if (el.particle_id != id_e)
                    {
                        *sig = "product-identity";
                        return std::string("Compton electron is not an electron");
                    }
                    // documented: "A secondary production cutoff is applied to the outgoing
                    // electron" (exact comparison in the code, no rounding involved)
                    if (el.energy.value() < cutoff)
                    {
                        *sig = "below-threshold";
                        return fmt("electron %s below secondary_cutoff %g",
                                   vf::dstr(el.energy.value()).c_str(), cutoff);
                    }
                }
                else
                    *bits |= 2;
                return std::string();
            };
            run_config(C, S);
        }
    }

    // ---------------- Rayleigh ---------------- //
    {
        auto imported = G.make_imported({G.make_import_process(
            pdg::gamma(), {}, ImportProcessClass::rayleigh,
            {ImportModelClass::livermore_rayleigh})});
        RayleighModel model(ActionId{0}, *G.particle_params(), *G.material_params(), imported);
        auto const& ref = model.host_ref();
        // factor(E) = (E * cm / (c h))^2 with E in native units; x_i = b_i (1 + factor) crosses
        // fit_slice (0.02) at factor = 0.02 / b_i - 1
        long double const k = (long double)units::centimeter
                              / ((long double)constants::c_light * constants::h_planck)
                              * native_value_from(MevEnergy{1.0});
        for (unsigned el = 0; el < G.material_params()->num_elements(); ++el)
        {
            std::vector<double> thr;
            for (int i = 0; i < 3; ++i)
            {
                long double b = ref.params[ElementId{el}].b[i];
                long double f = 0.02L / b - 1;
                if (f > 0)
                    thr.push_back(double(std::sqrt(f) / k));
            }
            for (double E : energy_alphabet(1e-6, e_high, n_interior, thr))
            {
                Spec S;
                S.model = "rayleigh";
                S.cid = fmt("rayleigh:el=%u:E=%s", el, hexd(E).c_str());
                S.regime = regime_of(E, 1e-6, e_high, thr);
                S.env = &G;
                S.inc = id_g;
                S.energy = E;
                S.need = 0;
                S.min_words = 2 * 4;  // selector, y, reject, phi
                S.bit_names = {"forward", "backward"};
                S.call = [&, el](Eng& rng) {
                    RayleighInteractor interact(ref, G.particle_track(), G.direction(),
                                                ElementId{el});
                    return interact(rng);
                };
                S.extra = [&G, E](Interaction const& r, uint32_t* bits, std::string* sig) {
                    // coherent scattering: documented as energy-preserving; covered by the
                    // energy balance.  Tag the hemisphere.
                    long double c = 0;
                    for (int i = 0; i < 3; ++i)
                        c += (long double)r.direction[i] * G.direction()[i];
                    *bits |= c >= 0 ? 1 : 2;
                    (void)E;
                    (void)sig;
                    return std::string();
                };
                run_config(C, S);
            }
        }
    }

    // ---------------- Bethe-Heitler ---------------- //
    for (bool lpm : {false, true})
    {
        BetheHeitlerData data;
        data.ids.electron = id_e;
        data.ids.positron = id_p;
        data.ids.gamma = id_g;
        data.electron_mass = units::MevMass{double(me)};
        data.enable_lpm = lpm;
        double const e_lo = 2 * data.electron_mass.value();
        for (MatEl const& me_ : general_matel)
        {
            G.set_material(me_.mat);
            MaterialView const material = G.material_view();
            ElementView const element = material.make_element_view(ElementComponentId{me_.comp});
            for (double E : energy_alphabet(e_lo, e_high, n_interior, {2.0, 50.0, 1e5}))
            {
                Spec S;
                S.model = lpm ? "bh-lpm" : "bh";
                S.cid = fmt("%s:mat=%s:comp=%u:E=%s", S.model.c_str(), me_.mat, me_.comp,
                            hexd(E).c_str());
                S.regime = regime_of(E, e_lo, e_high, {2.0, 50.0, 1e5});
                S.env = &G;
                S.inc = id_g;
                S.energy = E;
                S.need = 2;
                S.min_words = E < 2.0 ? 2 * 8 : 2 * 10;
                S.bit_names = {"uniform-below-2MeV", "screened-rejection", "coulomb-correction",
                               "lpm-active", "electron-softer", "positron-softer"};
                S.call = [&](Eng& rng) {
                    BetheHeitlerInteractor interact(data, G.particle_track(), G.direction(),
                                                    G.secondary_allocator(), material, element);
                    return interact(rng);
                };
                S.extra = [=](Interaction const& r, uint32_t* bits, std::string* sig) {
                    if (r.secondaries.size() != 2)
                    {
                        *sig = "invalid-final-state";
                        return std::string("expected an e-/e+ pair");
                    }
                    // the pair is one electron and one positron (either order)
                    {
                        ParticleId const a = r.secondaries[0].particle_id,
                                         b = r.secondaries[1].particle_id;
                        if (!((a == id_e && b == id_p) || (a == id_p && b == id_e)))
                        {
                            *sig = "product-identity";
                            return std::string("pair is not one e- and one e+");
                        }
                    }
                    *bits |= E < 2.0 ? 1 : 2;
                    if (E > 50.0)
                        *bits |= 4;
                    if (lpm && E > 1e5)
                        *bits |= 8;
                    *bits |= r.secondaries[0].energy < r.secondaries[1].energy ? 16 : 32;
                    return std::string();
                };
                run_config(C, S);
            }
        }
        G.set_material(MaterialId{0});
    }

    // ---------------- e+ annihilation ---------------- //
    {
        EPlusGGData data;
        data.positron = id_p;
        data.gamma = id_g;
        data.electron_mass = units::MevMass{double(me)};
        std::vector<double> energies = energy_alphabet(1e-6, e_high, n_interior, {});
        energies.insert(energies.begin(), 0.0);
        for (double E : energies)
        {
            Spec S;
            S.model = "eplusgg";
            S.cid = fmt("eplusgg:E=%s", hexd(E).c_str());
            S.regime = regime_of(E, 1e-6, e_high, {});
            S.env = &G;
            S.inc = id_p;
            S.energy = E;
            S.need = 2;
            S.momentum = true;
            S.min_words = E == 0 ? 2 * 2 : 2 * 3;
            S.bit_names = {"at-rest", "in-flight"};
            S.call = [&](Eng& rng) {
                EPlusGGInteractor interact(data, G.particle_track(), G.direction(),
                                           G.secondary_allocator());
                return interact(rng);
            };
            S.extra = [&G, E, me, id_g](Interaction const& r, uint32_t* bits, std::string* sig) {
                if (r.secondaries.size() != 2 || !r.secondaries[0] || !r.secondaries[1])
                {
                    *sig = "invalid-final-state";
                    return std::string("expected two photons");
                }
                *bits |= E == 0 ? 1 : 2;
                if (r.secondaries[0].particle_id != id_g || r.secondaries[1].particle_id != id_g)
                {
                    *sig = "product-identity";
                    return std::string("annihilation product is not a photon");
                }
                if (E > 0)
                {
                    // Two-body kinematics of e+ (T, p along the incident direction) + e- at rest
                    // -> photons k0, k1 judged for photon 0 ALONE, independent of what the
                    // interactor does with photon 1: |p - k0|^2 = k1^2 = (E_tot - k0)^2 gives
                    //   cos(theta_0) = E_tot (1 - m / k0) / p,   E_tot = T + 2m, p^2 = T E_tot
                    // (k0 + k1 == E_tot is the energy balance).  Rounding model: the interactor
                    // forms cos from eps = k0/E_tot as (eps*tau2 - 1) / (eps*sqrt(tau*tau2)) with
                    // eps*tau2 = k0/m = 1/B and the denominator = k0 p / (E_tot m) = 1/(A B),
                    // A = E_tot/p: numerator error <= 2 eps max(1, 1/B), i.e. <= 2 eps A (1 + B)
                    // in the quotient, plus <= 4 eps |cos| from tau, tau2, the root and the
                    // division, plus eps A B from rounding k0 = eps*E_tot itself; 16 eps A (1+B)
                    // covers these with a factor > 4.  The direction adds the conditioning of a
                    // near-pole incident direction (inc_amb, same model as the momentum check:
                    // sin(theta_0) <= 1 times the angular ambiguity) and 16 eps for the two
                    // normalisations and the dot product.
                    long double const m = me, T = E, Etot = T + 2 * m, p = std::sqrt(T * Etot);
                    long double const k0 = r.secondaries[0].energy.value();
                    Real3 const inc = G.direction();
                    long double c_obs = 0;
                    for (int i = 0; i < 3; ++i)
                        c_obs += (long double)r.secondaries[0].direction[i] * inc[i];
                    long double const A = Etot / p, B = m / k0;
                    long double const c_exp = A * (1 - B);
                    long double const sin_z = std::hypot((long double)inc[0], (long double)inc[1]);
                    long double const d8 = 8 * eps;
                    long double const inc_amb
                        = std::fabs(inc[2]) == 1
                              ? 0.0L
                              : std::min(std::sqrt(2 * d8), sin_z > 0 ? d8 / sin_z : 1.0L);
                    long double const tol = 16 * eps * A * (1 + B) + 16 * eps + 4 * inc_amb;
                    long double const res = std::fabs(c_obs - c_exp);
                    g_kin_worst.note(double(res / tol), inc);
                    if (!(res <= tol))
                    {
                        // y < 0 near-pole letter: recorded class only if the relation holds
                        // about the mirrored incident direction (see sig_of in run_config)
                        long double c_mir = 0;
                        for (int i = 0; i < 3; ++i)
                            c_mir += (long double)r.secondaries[0].direction[i]
                                     * (i == 1 ? -inc[i] : inc[i]);
                        bool const mirror_ok = std::fabs(c_mir - c_exp) <= tol;
                        *sig = (inc[1] < 0 && !mirror_ok) ? "photon-kinematics!"
                                                          : "photon-kinematics";
                        return fmt("photon 0 (k0 = %.17Lg): cos to the incident direction %.17Lg, "
                                   "two-body kinematics requires %.17Lg (diff %.3Lg, tolerance "
                                   "%.3Lg)",
                                   k0, c_obs, c_exp, c_obs - c_exp, tol);
                    }
                }
                return std::string();
            };
            // Recorded defect (known finding): in flight the second photon is emitted along the
            // incident direction (calc_exiting_direction is handed the incident momentum twice).
            // Only that fingerprint gets the qualified signature; photon 0 has its own oracle
            // above, the energies are covered by the energy balance.
            S.momentum_qual = [=](Interaction const& r, Real3 const& inc) {
                if (!(E > 0) || r.secondaries.size() != 2)
                    return std::string();
                auto const& d = r.secondaries[1].direction;
                long double cx = (long double)d[1] * inc[2] - (long double)d[2] * inc[1];
                long double cy = (long double)d[2] * inc[0] - (long double)d[0] * inc[2];
                long double cz = (long double)d[0] * inc[1] - (long double)d[1] * inc[0];
                long double dot = (long double)d[0] * inc[0] + (long double)d[1] * inc[1]
                                  + (long double)d[2] * inc[2];
                // parallel within the rounding of p*inc - T*inc (the defective call; two products
                // of size p and T rounded, difference p - T: relative error eps (p + T)/(p - T)
                // per component) and of one make_unit_vector
                long double const T = E, p = std::sqrt(T * (T + 2 * me));
                bool const along = dot > 0
                                   && std::sqrt(cx * cx + cy * cy + cz * cz)
                                          <= 8 * eps * (1 + (p + T) / (p - T));
                return std::string(along ? "photon1-along-incident" : "");
            };
            run_config(C, S);
        }
    }

    // ---------------- Moller / Bhabha ---------------- //
    {
        MollerBhabhaData data;
        data.ids.electron = id_e;
        data.ids.positron = id_p;
        data.electron_mass = units::MevMass{double(me)};
        for (double cut : {1e-4, 1e-2, 10.0})
        {
            G.set_cutoffs({{pdg::electron(), MevEnergy{cut}}});
            CutoffView const cutoffs = G.cutoff_view();
            for (bool electron : {true, false})
            {
                double const e_lo = std::nextafter((electron ? 2 : 1) * cut, INFINITY);
                double const kcut = (electron ? 2 : 1) * cut;
                for (double E :
                     with_letters(energy_alphabet(e_lo, data.max_valid_energy().value(),
                                                  n_interior, {}),
                                  {near_cut_letter(kcut)}))
                {
                    Spec S;
                    S.model = electron ? "moller" : "bhabha";
                    S.cid = fmt("%s:cut=%g:E=%s", S.model.c_str(), cut, hexd(E).c_str());
                    S.regime = cut_regime(E, kcut);
                    S.observe_only = S.regime == "at-cut";
                    if (S.regime.empty())
                        S.regime = regime_of(E, e_lo, data.max_valid_energy().value(), {});
                    S.env = &G;
                    S.inc = electron ? id_e : id_p;
                    S.energy = E;
                    S.need = 1;
                    S.momentum = true;
                    S.min_words = 2 * 3;
                    S.bit_names = {"delta-near-cut", "delta-hard"};
                    S.call = [&](Eng& rng) {
                        MollerBhabhaInteractor interact(data, G.particle_track(), cutoffs,
                                                        G.direction(), G.secondary_allocator());
                        return interact(rng);
                    };
                    S.extra = [=](Interaction const& r, uint32_t* bits, std::string* sig) {
                        if (r.secondaries.size() != 1 || !r.secondaries[0])
                        {
                            *sig = "invalid-final-state";
                            return std::string("expected one delta electron");
                        }
                        if (r.secondaries[0].particle_id != id_e)
                        {
                            *sig = "product-identity";
                            return std::string("delta ray is not an electron");
                        }
                        double T = r.secondaries[0].energy.value();
                        // T = E * (1/x) with 1/x >= cut/E analytically; three roundings
                        if (T < cut * (1 - 4 * double(eps)))
                        {
                            *sig = "below-threshold";
                            return fmt("delta electron %s below the electron cut %g",
                                       vf::dstr(T).c_str(), cut);
                        }
                        *bits |= (T < 2 * cut) ? 1 : 2;
                        return std::string();
                    };
                    run_config(C, S);
                }
            }
        }
        G.set_cutoffs({});
    }

    // ---------------- Relativistic bremsstrahlung ---------------- //
    {
        auto ip_e = G.make_import_process(
            pdg::electron(), pdg::gamma(), ImportProcessClass::e_brems,
            {ImportModelClass::e_brems_sb, ImportModelClass::e_brems_lpm});
        auto ip_p = ip_e;
        ip_p.particle_pdg = pdg::positron().get();
        auto imported = G.make_imported({ip_e, ip_p});
        for (bool lpm : {false, true})
        {
            RelativisticBremModel model(ActionId{0}, *G.particle_params(), *G.material_params(),
                                        imported, lpm);
            auto const& ref = model.host_ref();
            for (double cut : {1e-4, 1.0, 2e3})
            {
                G.set_cutoffs({{pdg::gamma(), MevEnergy{cut}}});
                CutoffView const cutoffs = G.cutoff_view();
                for (MatEl const& me_ : general_matel)
                {
                    G.set_material(me_.mat);
                    MaterialView const material = G.material_view();
                    long double const density_factor
                        = (long double)material.electron_density() * detail::migdal_constant();
                    // LPM switches on where E_total > lpm_energy * sqrt(density_factor)
                    long double const lpm_thr
                        = (long double)material.radiation_length()
                              * value_as<detail::MevPerLen>(detail::lpm_constant())
                              * std::sqrt(density_factor)
                          - me;
                    std::vector<double> thr = {double(lpm_thr), cut};
                    for (bool electron : {true, false})
                    {
                        for (double E : with_letters(energy_alphabet(1e3, e_high, n_interior, thr),
                                                     {near_cut_letter(cut)}))
                        {
                            Spec S;
                            S.model = lpm ? "relbrem-lpm" : "relbrem";
                            S.cid = fmt("%s:%s:mat=%s:comp=%u:cut=%g:E=%s", S.model.c_str(),
                                        electron ? "e-" : "e+", me_.mat, me_.comp, cut,
                                        hexd(E).c_str());
                            S.regime = cut_regime(E, cut);
                            S.observe_only = S.regime == "cut>=E" || S.regime == "at-cut";
                            if (S.regime.empty())
                                S.regime = regime_of(E, 1e3, e_high, thr);
                            S.env = &G;
                            S.inc = electron ? id_e : id_p;
                            S.energy = E;
                            S.need = 1;
                            S.min_words = 2 * 6;
                            S.draw_tag = electron ? "e-" : "e+";
                            S.bit_names = {"lpm-regime", "no-lpm-regime", "dirac-fock-Z<5",
                                           "tsai-Z>=5", "cut-above-incident", "photon-near-cut",
                                           "photon-hard"};
                            S.call = [&, me_](Eng& rng) {
                                RelativisticBremInteractor interact(
                                    ref, G.particle_track(), G.direction(), cutoffs,
                                    G.secondary_allocator(), material,
                                    ElementComponentId{me_.comp});
                                return interact(rng);
                            };
                            unsigned const z
                                = material.make_element_view(ElementComponentId{me_.comp})
                                      .atomic_number()
                                      .get();
                            S.extra = [=](Interaction const& r, uint32_t* bits,
                                          std::string* sig) {
                                if (r.secondaries.size() != 1 || !r.secondaries[0])
                                {
                                    *sig = "invalid-final-state";
                                    return std::string("expected one photon");
                                }
                                if (r.secondaries[0].particle_id != id_g)
                                {
                                    *sig = "product-identity";
                                    return std::string("bremsstrahlung product is not a photon");
                                }
                                *bits |= (lpm && (long double)E + me > lpm_thr + me) ? 1 : 2;
                                *bits |= z < 5 ? 4 : 8;
                                long double const c = std::min(cut, E);
                                if (cut >= E)
                                    *bits |= 16;
                                long double const k = r.secondaries[0].energy.value();
                                // k^2 = (x + d) - d with x >= c^2: rounding of the sum/difference
                                // with the density correction d = density_factor * E_total^2
                                long double const d = density_factor * (E + me) * (E + me);
                                if (k * k < c * c - 8 * eps * (c * c + d))
                                {
                                    *sig = "below-threshold";
                                    return fmt("photon %s below min(cut, E) = %Lg",
                                               vf::dstr(double(k)).c_str(), c);
                                }
                                *bits |= k < 2 * c ? 32 : 64;
                                return std::string();
                            };
                            run_config(C, S);
                        }
                    }
                }
                G.set_material(MaterialId{0});
            }
        }
        G.set_cutoffs({});
    }

    // ===================================================================== //
    // Environment K: potassium only (Livermore PE + atomic relaxation data exist for Z=19)
    {
        vf::InteractorEnv K;
        {
            using namespace units;
            MaterialParams::Input mi;
            mi.elements = {{AtomicNumber{19}, AmuMass{39.0983}, {}, Label{"K"}}};
            mi.materials = {{native_value_from(MolCcDensity{1e-5}), 293., MatterState::solid,
                             {{ElementId{0}, 1.0}}, Label{"K"}}};
            K.set_material_params(mi);
        }
        K.resize_secondaries(stack_cap);
        K.set_cutoffs({});
        std::string const path = data_dir();
        LivermorePEReader read_pe(path.c_str());
        LivermorePEModel model(ActionId{0}, *K.particle_params(), *K.material_params(), read_pe);
        auto const& ref = model.host_ref();
        ElementId const el_id{0};

        // thresholds from the model data
        std::vector<double> thr = {1e-6, 100.0};
        std::vector<double> binding;
        {
            auto const& el = ref.xs.elements[el_id];
            thr.push_back(el.thresh_lo.value());
            thr.push_back(el.thresh_hi.value());
            for (auto const& sh : ref.xs.shells[el.shells])
            {
                binding.push_back(sh.binding_energy.value());
                thr.push_back(sh.binding_energy.value());
            }
        }
        std::vector<double> const energies = energy_alphabet(1e-7, e_high, n_interior, thr);
        double const thresh_lo = ref.xs.elements[el_id].thresh_lo.value();
        double const thresh_hi = ref.xs.elements[el_id].thresh_hi.value();

        AtomicRelaxationReader read_relax(path.c_str(), path.c_str());
        ImportAtomicRelaxation const relax_data = read_relax(AtomicNumber{19});

        // Energies of the radiative (fluorescence photon) and non-radiative (Auger electron)
        // transitions of the element, straight from the imported EADL data: the identity oracle
        // of a relaxation product (the library copies the energy of the sampled transition
        // unchanged into the secondary)
        std::set<double> fluor_energy, auger_energy;
        for (auto const& sh : relax_data.shells)
        {
            for (auto const& t : sh.fluor)
                fluor_energy.insert(t.energy);
            for (auto const& t : sh.auger)
                auger_energy.insert(t.energy);
        }
        {
            size_t both = 0;
            for (double e : fluor_energy)
                both += auger_energy.count(e);
            R.note("relaxation-transition-energies",
                   fmt("Z=19: %zu radiative, %zu non-radiative distinct energies, %zu common "
                       "(identity undecidable for those)",
                       fluor_energy.size(), auger_energy.size(), both));
        }

        // Production cuts of the relaxation variants.  Equal gamma/electron cuts {0, 2.5e-4,
        // 1e-3, 1} as before, plus SPLIT cuts (the normal situation: Geant4 cuts are range based,
        // so the photon and electron energy thresholds of a material always differ): every
        // product is compared with the cut of its own particle type.
        //   (1e-2, 0)      photons all cut (K-alpha 3.3 keV), every Auger electron emitted
        //   (0, 1e-2)      every photon emitted, Auger electrons all cut
        //   (2.5e-4,1e-3)  photons down to the L lines, electrons only from K-shell transitions
        //   (1e-3,2.5e-4)  the reverse; also for fluorescence alone (there the electron cut must
        //                  be ignored)
        struct Variant
        {
            char const* name;
            bool relax;
            bool auger;
            double cut_g;  // gamma production cut
            double cut_e;  // electron production cut
        };
        std::vector<Variant> variants = {{"pe", false, false, 0.0, 0.0}};
        for (bool auger : {false, true})
            for (double cut : {0.0, 2.5e-4, 1e-3, 1.0})
                variants.push_back({auger ? "pe-auger" : "pe-fluor", true, auger, cut, cut});
        variants.push_back({"pe-fluor", true, false, 1e-3, 2.5e-4});
        variants.push_back({"pe-auger", true, true, 1e-2, 0.0});
        variants.push_back({"pe-auger", true, true, 0.0, 1e-2});
        variants.push_back({"pe-auger", true, true, 2.5e-4, 1e-3});
        variants.push_back({"pe-auger", true, true, 1e-3, 2.5e-4});

        for (Variant const& V : variants)
        {
            K.set_cutoffs(
                {{pdg::gamma(), MevEnergy{V.cut_g}}, {pdg::electron(), MevEnergy{V.cut_e}}});
            CutoffView const cutoffs = K.cutoff_view();
            std::shared_ptr<AtomicRelaxationParams> relax_params;
            HostVal<AtomicRelaxStateData> relax_states;
            HostCRef<AtomicRelaxParamsData> relax_params_ref;
            HostRef<AtomicRelaxStateData> relax_states_ref;
            if (V.relax)
            {
                AtomicRelaxationParams::Input inp;
                inp.cutoffs = K.cutoff_params();
                inp.materials = K.material_params();
                inp.particles = K.particle_params();
                inp.load_data = [&](AtomicNumber) { return relax_data; };
                inp.is_auger_enabled = V.auger;
                relax_params = std::make_shared<AtomicRelaxationParams>(inp);
                relax_params_ref = relax_params->host_ref();
                resize(&relax_states, relax_params_ref, 1);
                relax_states_ref = relax_states;
            }
            AtomicRelaxationHelper const relaxation(relax_params_ref, relax_states_ref, el_id,
                                                    TrackSlotId{0});
            // With a cut above every transition energy max_secondary is 0 and the library treats
            // the element as having no relaxation data: the helper is "false" by design.
            bool const relax_on = bool(relaxation);
            if (relax_on && !V.relax)
                R.harness_error("relaxation helper state");
            if (V.relax && !relax_on)
                R.tag(std::string(V.name) + ":relaxation-disabled-by-cut");
            unsigned const need = relax_on ? 1 + relaxation.max_secondaries() : 1;
            ParticleId const pe_g = K.pid(pdg::gamma()), pe_e = K.pid(pdg::electron());

            for (double E : energies)
            {
                Spec S;
                S.model = V.name;
                // (case ids of the equal-cut variants are unchanged: old replays stay valid)
                S.cid = V.cut_g == V.cut_e
                            ? fmt("%s:cut=%g:E=%s", V.name, V.cut_g, hexd(E).c_str())
                            : fmt("%s:cut=g%g,e%g:E=%s", V.name, V.cut_g, V.cut_e,
                                  hexd(E).c_str());
                S.regime = regime_of(E, 1e-7, e_high, thr);
                S.env = &K;
                S.inc = pe_g;
                S.energy = E;
                S.need = need;
                S.min_words = 2 * (E > 100.0 ? 1 : 4);
                S.bit_names = {"tabulated-shell-xs", "parameterised-low", "parameterised-high",
                               "no-shell-full-deposit", "forward-above-100MeV", "K-shell",
                               "outer-shell", "relaxation-emitted", "relaxation-all-cut",
                               "fluorescence", "auger", "energy-clamped-1eV",
                               "identity-undecidable(energy-in-both-tables)",
                               "product-energy-in-no-table"};
                S.call = [&](Eng& rng) {
                    LivermorePEInteractor interact(ref, relaxation, el_id, K.particle_track(),
                                                   cutoffs, K.direction(),
                                                   K.secondary_allocator());
                    return interact(rng);
                };
                S.extra = [&, E, V](Interaction const& r, uint32_t* bits, std::string* sig) {
                    *bits |= E < thresh_lo ? 1 : (E < thresh_hi ? 2 : 4);
                    if (E > 100.0)
                        *bits |= 16;
                    if (E < 1e-6)
                        *bits |= 2048;
                    if (r.secondaries.empty())
                    {
                        *bits |= 8;
                        return std::string();
                    }
                    auto const& pe = r.secondaries[0];
                    if (!pe || pe.particle_id != pe_e)
                    {
                        *sig = "invalid-final-state";
                        return std::string("first secondary is not the photoelectron");
                    }
                    // shell from the photoelectron energy: E - binding must match a shell with
                    // binding <= E (one rounding)
                    int shell = -1;
                    for (size_t s = 0; s < binding.size(); ++s)
                        if (binding[s] <= E && pe.energy.value() == E - binding[s])
                        {
                            shell = int(s);
                            break;
                        }
                    if (shell < 0)
                    {
                        *sig = "invalid-final-state";
                        return std::string(
                            "photoelectron energy is not E minus a shell binding energy <= E");
                    }
                    *bits |= shell == 0 ? 32 : 64;
                    if (relax_on)
                    {
                        *bits |= r.secondaries.size() > 1 ? 128 : 256;
                        for (size_t i = 1; i < r.secondaries.size(); ++i)
                        {
                            auto const& s = r.secondaries[i];
                            if (!s || (s.particle_id != pe_g && s.particle_id != pe_e))
                            {
                                *sig = "invalid-final-state";
                                return std::string("relaxation product is not a photon/electron");
                            }
                            *bits |= s.particle_id == pe_g ? 512 : 1024;
                            if (s.particle_id == pe_e && !V.auger)
                            {
                                *sig = "invalid-final-state";
                                return std::string("Auger electron with Auger disabled");
                            }
                            // documented (CutoffParams.hh / AtomicRelaxation): products are
                            // created only at or above the production cut OF THEIR OWN PARTICLE
                            // TYPE; exact comparison
                            double const own_cut = s.particle_id == pe_g ? V.cut_g : V.cut_e;
                            if (s.energy.value() < own_cut)
                            {
                                *sig = "below-threshold";
                                return fmt("relaxation %s %s below its production cut %g",
                                           s.particle_id == pe_g ? "photon" : "electron",
                                           vf::dstr(s.energy.value()).c_str(), own_cut);
                            }
                            // identity: a radiative transition yields a photon, a non-radiative
                            // one an electron; decided by the table the energy comes from
                            bool const in_f = fluor_energy.count(s.energy.value()) != 0;
                            bool const in_a = auger_energy.count(s.energy.value()) != 0;
                            if (in_f && in_a)
                                *bits |= 4096;
                            else if (!in_f && !in_a)
                                *bits |= 8192;
                            else if ((s.particle_id == pe_g) != in_f)
                            {
                                *sig = "product-identity";
                                return fmt("relaxation product with the energy %s of a %s "
                                           "transition is emitted as %s",
                                           vf::dstr(s.energy.value()).c_str(),
                                           in_f ? "radiative" : "non-radiative",
                                           s.particle_id == pe_g ? "a photon" : "an electron");
                            }
                        }
                    }
                    else if (r.secondaries.size() != 1)
                    {
                        *sig = "invalid-final-state";
                        return std::string("more than one secondary without relaxation");
                    }
                    return std::string();
                };
                run_config(C, S);
            }
        }
    }

    // ===================================================================== //
    // Environment U: copper only (Seltzer-Berger data exist for Z=29): SB and combined brems
    {
        vf::InteractorEnv U;
        {
            using namespace units;
            MaterialParams::Input mi;
            mi.elements = {{AtomicNumber{29}, AmuMass{63.546}, {}, Label{"Cu"}}};
            mi.materials = {
                {native_value_from(MolCcDensity{0.141}), 293.0, MatterState::solid,
                 {{ElementId{0}, 1.0}}, Label{"Cu"}},
                {native_value_from(MolCcDensity{1.0}), 293.0, MatterState::solid,
                 {{ElementId{0}, 1.0}}, Label{"Cu-1.0"}},
                {native_value_from(MolCcDensity{1e-6}), 293.0, MatterState::gas,
                 {{ElementId{0}, 1.0}}, Label{"Cu-vapour"}},
            };
            U.set_material_params(mi);
        }
        U.resize_secondaries(stack_cap);
        U.set_cutoffs({});
        ParticleId const u_e = U.pid(pdg::electron()), u_p = U.pid(pdg::positron()),
                         u_g = U.pid(pdg::gamma());
        std::string const path = data_dir();
        SeltzerBergerReader read_sb(path.c_str());
        auto ip_e = U.make_import_process(
            pdg::electron(), pdg::gamma(), ImportProcessClass::e_brems,
            {ImportModelClass::e_brems_sb, ImportModelClass::e_brems_lpm});
        auto ip_p = ip_e;
        ip_p.particle_pdg = pdg::positron().get();
        auto imported = U.make_imported({ip_e, ip_p});

        SeltzerBergerModel sb_model(ActionId{0}, *U.particle_params(), *U.material_params(),
                                    imported, read_sb);
        auto const& sb_ref = sb_model.host_ref();

        // incident-energy knots of the table (log MeV) -> MeV
        std::vector<double> knots;
        double table_front = 0;
        {
            auto const& grid = sb_ref.differential_xs.elements[ElementId{0}].grid;
            auto xs = sb_ref.differential_xs.reals[grid.x];
            for (size_t i = 0; i < xs.size(); ++i)
                knots.push_back(std::exp(xs[i]));
            table_front = knots.front();
            // first energy safely inside the table: exp(x0) as computed by the library
            while (!(std::log(table_front) >= xs[0]) || !(table_front >= std::exp(xs[0])))
                table_front = std::nextafter(table_front, INFINITY);
        }
        double const sb_hi = std::nextafter(detail::seltzer_berger_upper_limit().value(), 0.0);
        auto knot_thresholds = [&](double lo, double hi) {
            std::vector<double> t;
            for (size_t i = 0; i < knots.size(); ++i)
                if ((thorough || i % 8 == 0 || i + 1 == knots.size()) && knots[i] > lo
                    && knots[i] < hi)
                    t.push_back(knots[i]);
            return t;
        };

        char const* const mats[] = {"Cu", "Cu-1.0", "Cu-vapour"};
        for (double cut : {1e-4, 0.02, 10.0})
        {
            U.set_cutoffs({{pdg::gamma(), MevEnergy{cut}}});
            CutoffView const cutoffs = U.cutoff_view();
            for (char const* mat : mats)
            {
                U.set_material(mat);
                MaterialView const material = U.material_view();
                long double const density_factor
                    = (long double)material.electron_density() * detail::migdal_constant();
                for (bool electron : {true, false})
                {
                    // ---- Seltzer-Berger ----
                    double const e_lo = std::max(std::nextafter(cut, INFINITY), table_front);
                    std::vector<double> const sb_thr = knot_thresholds(e_lo, sb_hi);
                    for (double E : with_letters(energy_alphabet(e_lo, sb_hi, n_interior, sb_thr),
                                                 {near_cut_letter(cut)}))
                    {
                        Spec S;
                        S.model = "sb";
                        S.regime = cut_regime(E, cut);
                        S.observe_only = S.regime == "at-cut";
                        if (S.regime.empty())
                            S.regime = regime_of(E, e_lo, sb_hi, sb_thr);
                        S.cid = fmt("sb:%s:mat=%s:cut=%g:E=%s", electron ? "e-" : "e+", mat, cut,
                                    hexd(E).c_str());
                        S.env = &U;
                        S.inc = electron ? u_e : u_p;
                        S.energy = E;
                        S.need = 1;
                        S.min_words = 2 * 6;
                        S.draw_tag = electron ? "e-" : "e+";
                        S.bit_names = {"electron", "positron-corrected", "photon-near-cut",
                                       "photon-hard"};
                        S.call = [&](Eng& rng) {
                            SeltzerBergerInteractor interact(sb_ref, U.particle_track(),
                                                             U.direction(), cutoffs,
                                                             U.secondary_allocator(), material,
                                                             ElementComponentId{0});
                            return interact(rng);
                        };
                        S.extra = [=](Interaction const& r, uint32_t* bits, std::string* sig) {
                            if (r.secondaries.size() != 1 || !r.secondaries[0])
                            {
                                *sig = "invalid-final-state";
                                return std::string("expected one photon");
                            }
                            if (r.secondaries[0].particle_id != u_g)
                            {
                                *sig = "product-identity";
                                return std::string("bremsstrahlung product is not a photon");
                            }
                            *bits |= electron ? 1 : 2;
                            long double const k = r.secondaries[0].energy.value();
                            long double const m = 0.5109989461L;
                            long double const d = density_factor * (E + m) * (E + m);
                            long double const c = cut;
                            if (k * k < c * c - 8 * eps * (c * c + d))
                            {
                                *sig = "below-threshold";
                                return fmt("photon %s below the cut %Lg",
                                           vf::dstr(double(k)).c_str(), c);
                            }
                            *bits |= k < 2 * c ? 4 : 8;
                            return std::string();
                        };
                        run_config(C, S);
                    }
                }
            }
            U.set_material(MaterialId{0});
        }

        // ---- combined ----
        for (bool lpm : {false, true})
        {
            CombinedBremModel cb_model(ActionId{0}, *U.particle_params(), *U.material_params(),
                                       imported, read_sb, lpm);
            auto const& cb_ref = cb_model.host_ref();
            for (double cut : {1e-4, 0.02, 10.0})
            {
                U.set_cutoffs({{pdg::gamma(), MevEnergy{cut}}});
                CutoffView const cutoffs = U.cutoff_view();
                for (char const* mat : mats)
                {
                    U.set_material(mat);
                    MaterialView const material = U.material_view();
                    long double const density_factor
                        = (long double)material.electron_density() * detail::migdal_constant();
                    long double const lpm_thr
                        = (long double)material.radiation_length()
                              * value_as<detail::MevPerLen>(detail::lpm_constant())
                              * std::sqrt(density_factor)
                          - 0.5109989461L;
                    for (bool electron : {true, false})
                    {
                        double const e_lo = std::max(std::nextafter(cut, INFINITY), table_front);
                        std::vector<double> thr = {1e3, double(lpm_thr)};
                        for (double E :
                             with_letters(energy_alphabet(e_lo, e_high, n_interior + 2, thr),
                                          {near_cut_letter(cut)}))
                        {
                            Spec S;
                            S.model = lpm ? "combined-lpm" : "combined";
                            S.cid = fmt("%s:%s:mat=%s:cut=%g:E=%s", S.model.c_str(),
                                        electron ? "e-" : "e+", mat, cut, hexd(E).c_str());
                            S.regime = cut_regime(E, cut);
                            S.observe_only = S.regime == "at-cut";
                            if (S.regime.empty())
                                S.regime = regime_of(E, e_lo, e_high, thr);
                            S.env = &U;
                            S.inc = electron ? u_e : u_p;
                            S.energy = E;
                            S.need = 1;
                            S.min_words = 2 * 6;
                            S.draw_tag = electron ? "e-" : "e+";
                            S.bit_names = {"sb-branch", "relativistic-branch", "photon-near-cut",
                                           "photon-hard", "lpm-regime"};
                            S.call = [&](Eng& rng) {
                                CombinedBremInteractor interact(cb_ref, U.particle_track(),
                                                                U.direction(), cutoffs,
                                                                U.secondary_allocator(), material,
                                                                ElementComponentId{0});
                                return interact(rng);
                            };
                            S.extra = [=](Interaction const& r, uint32_t* bits,
                                          std::string* sig) {
                                if (r.secondaries.size() != 1 || !r.secondaries[0])
                                {
                                    *sig = "invalid-final-state";
                                    return std::string("expected one photon");
                                }
                                if (r.secondaries[0].particle_id != u_g)
                                {
                                    *sig = "product-identity";
                                    return std::string("bremsstrahlung product is not a photon");
                                }
                                *bits |= E < 1e3 ? 1 : 2;
                                long double const m = 0.5109989461L;
                                if (lpm && E >= 1e3 && E + m > lpm_thr + m)
                                    *bits |= 16;
                                long double const k = r.secondaries[0].energy.value();
                                long double const d = density_factor * (E + m) * (E + m);
                                long double const c = cut;
                                if (k * k < c * c - 8 * eps * (c * c + d))
                                {
                                    *sig = "below-threshold";
                                    return fmt("photon %s below the cut %Lg",
                                               vf::dstr(double(k)).c_str(), c);
                                }
                                *bits |= k < 2 * c ? 4 : 8;
                                return std::string();
                            };
                            run_config(C, S);
                        }
                    }
                }
                U.set_material(MaterialId{0});
            }
        }
    }

    if (char const* only = getenv("VERIF_C04_ONLY"))
        if (*only)
            R.cap_hit(std::string("VERIF_C04_ONLY=") + only);
    R.maxi("eplusgg.photon0_kinematics_permille_of_tol", uint64_t(g_kin_worst.ordinary * 1000));
    R.maxi("eplusgg.photon0_kinematics_permille_of_tol@near-pole(y>=0)",
           uint64_t(g_kin_worst.pole_pos * 1000));
    R.count("configurations_total", R.shard() == 0 ? C.index : 0);
    R.note("scripts", fmt("%zu per (configuration, direction)", scripts.size()));
    R.sample(fmt("script#0 = {%s}; script#%zu = {%s}", scripts.front().str().c_str(),
                 scripts.size() - 1, scripts.back().str().c_str()));
    return R.finish();
}
