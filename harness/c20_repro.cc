// Stand-alone reproductions of what harness/c20_optical_gen.cc reports on the unchanged tree.
// Not run by ./check.  Header-only:
//   g++ -std=c++17 -O2 -I/repo/src -I/verif/build/rel/celeritas/include harness/c20_repro.cc -o /tmp/c20_repro
//
// (1) rotate(): parent direction within 0.005 rad of +-z ("renormalising" branch) with a
//     NEGATIVE y component: sinphi = sqrt(1 - cosphi^2) loses the sign of rot[Y]; the result is
//     rotated about the mirror image (x,-y,z) of the parent.  cos(result, parent) is off by up
//     to ~2*|y| (1e-3 relative for a parent 1e-3 rad from the pole).
// (2) rotate(): parent = make_unit_vector({0,0,L}) gives z = 1 - 2^-53 for ~14 % of lengths L;
//     then sintheta = sqrt(1 - z^2) = 1.5e-8 > 0 selects the renormalising branch, which divides
//     rot[X] = 0 by sqrt(0 + 0): NaN direction.  CerenkovGenerator builds its parent direction
//     exactly that way (make_unit_vector(post - pre)), so a step along the z axis yields photons
//     with NaN direction and polarisation.
// (3) ScintillationGenerator polarisation: |cos theta| is rebuilt as sqrt(1 - (1 - cos^2)):
//     cancellation error ~eps/(2|cos|) (up to 1e-8): dir.pol exceeds 1e-12 for |cos| < ~5e-6 and
//     1e-14 (RayleighInteractor's CELER_EXPECT(soft_zero(dot(dir,pol)))) for |cos| < ~5e-3.
// (4) (outside C20; PoissonDistribution belongs to C15) lambda > 16: a Gaussian deviate below
//     -(lambda+0.5)/sqrt(lambda) is cast negative -> unsigned: CerenkovOffload asks for ~4.29e9
//     photons (probability 1.4e-5 per step at lambda = 16.5).
#include <cmath>
#include <cstdio>
#include <vector>

#include "corecel/math/ArrayUtils.hh"
#include "celeritas/random/detail/GenerateCanonical32.hh"
#include "celeritas/random/distribution/GenerateCanonical.hh"

struct Words  // engine that returns a fixed list of 32-bit words
{
    using result_type = unsigned;
    static constexpr unsigned min() { return 0; }
    static constexpr unsigned max() { return 0xffffffffu; }
    std::vector<unsigned> w;
    size_t i = 0;
    unsigned operator()() { return w[i++ % w.size()]; }
};
namespace celeritas
{
template<class R>
class GenerateCanonical<Words, R>
{
  public:
    using result_type = R;
    R operator()(Words& g) { return detail::GenerateCanonical32<R>()(g); }
};
}  // namespace celeritas
#include "celeritas/random/distribution/PoissonDistribution.hh"

using namespace celeritas;
using R3 = Array<double, 3>;

int main()
{
    double const c = 0.7;
    {
        R3 rot = make_unit_vector(R3{0, -1e-3, -1});
        R3 d = rotate(from_spherical(c, 0.3), rot);
        printf("(1) parent=(0,-1e-3,-1)/|.|: cos(result,parent)=%.17g expected %.17g\n",
               dot_product(d, rot), c);
        R3 rot2 = make_unit_vector(R3{0, +1e-3, -1});
        R3 d2 = rotate(from_spherical(c, 0.3), rot2);
        printf("    twin with y>0:           cos(result,parent)=%.17g\n", dot_product(d2, rot2));
    }
    {
        R3 rot = make_unit_vector(R3{0, 0, 1000.0 + 0.9e-4 - 1000.0});
        R3 d = rotate(from_spherical(c, 0.3), rot);
        printf("(2) parent=make_unit_vector({0,0,9e-5})=(%g,%g,1%+.3g): rotate -> (%g,%g,%g)\n", rot[0],
               rot[1], rot[2] - 1, d[0], d[1], d[2]);
    }
    for (double cost : {std::ldexp(1.0, -32), 1e-6, 1e-5, -3e-4, 0.004})
    {
        double phi = 1.0;  // same arithmetic as ScintillationGenerator.hh (angle draw = 0)
        R3 dir = from_spherical(cost, phi);
        R3 pol = from_spherical((cost > 0 ? -1 : 1) * std::sqrt(1 - cost * cost), phi);
        printf("(3) cos(theta)=%10.3e: dir.pol=%10.3e\n", cost, dot_product(dir, pol));
    }
    for (double lam : {16.5, 20.0, 40.0})
    {
        // canonicals: theta = 2 pi * 3/4 (sin = -1), then xi = 3.5e-10 (r = 6.6)
        Words g{{0xc0000000u, 0x00100000u, 0x00000001u, 0x00100000u}};
        PoissonDistribution<double> p(lam);
        printf("(4) PoissonDistribution(%g) -> %u\n", lam, p(g));
    }
    return 0;
}
